#!/usr/bin/env python
"""
Observation D: at interchange levels 2 and 3 the file name and the extension
together are limited to 30 characters (ECMA-119 7.5.1).  The mangler obeys
that, but the number that makes a taken name unique is put in front of an
extension that already uses up the room: 'a.' + 30*'b' followed by
'c.' + 30*'b' gives '000.' + 30*'B' + ';1'.  Both the Rock Ridge facade and
tools/pycdlib-genisoimage do this.

usage: W4_collision_length.py <path-to-checkout>
"""
import io
import os
import shutil
import subprocess
import sys
import tempfile

sys.path.insert(0, sys.argv[1])

import pycdlib

problems = []

# Source names: groups that mangle to the same ISO9660 name.
GROUPS = [
    ['a.' + 30 * 'b', 'c.' + 30 * 'b', 'd.' + 30 * 'b'],          # extension of 30
    ['ab.' + 27 * 'x', 'ab.' + 27 * 'X', 'Ab.' + 27 * 'x'],       # 2 + 27: 29, numbered 5 + 27
    ['a.' + 26 * 'y', 'A.' + 26 * 'y'],                           # 1 + 26: numbered 4 + 26 fits
    ['longname' + 30 * 'z' + '.txt', 'longname' + 30 * 'z' + '1.txt'],  # ordinary case
    ['e' + 40 * 'q', 'e' + 41 * 'q'],                             # no extension
]


def check_names(what, level, idents, rrnames):
    if len(idents) != len(set(idents)):
        problems.append('%s level %d: duplicate identifiers %r' % (what, level, idents))
    for ident in idents:
        full = ident.decode('ascii')
        if not full.endswith(';1'):
            problems.append('%s level %d: %r has no version' % (what, level, full))
            continue
        nameext = full[:-2]
        if nameext.count('.') != 1:
            problems.append('%s level %d: %r does not have exactly one dot' % (what, level, full))
            continue
        name, ext = nameext.split('.')
        if len(name) + len(ext) > 30:
            problems.append('%s level %d: %r has %d characters of name and extension' % (what, level, full, len(name) + len(ext)))
        if not name and not ext:
            problems.append('%s level %d: %r is empty' % (what, level, full))
    expected = sorted(n.encode('ascii') for g in GROUPS for n in g)
    if sorted(rrnames) != expected:
        problems.append('%s level %d: Rock Ridge names are %r, expected %r' % (what, level, sorted(rrnames), expected))


def list_root(iso):
    idents = []
    rrnames = []
    for c in iso.list_children(iso_path='/'):
        if c.is_dot() or c.is_dotdot():
            continue
        idents.append(c.file_identifier())
        rrnames.append(c.rock_ridge.name())
    return idents, rrnames


tmpdir = tempfile.mkdtemp()
try:
    for level in (2, 3):
        # The Rock Ridge facade.
        iso = pycdlib.PyCdlib()
        iso.new(interchange_level=level, rock_ridge='1.09')
        facade = iso.get_rock_ridge_facade()
        for group in GROUPS:
            for name in group:
                facade.add_fp(io.BytesIO(b'x'), 1, '/' + name, 0o100444)
        out = io.BytesIO()
        iso.write_fp(out)
        iso.close()
        iso = pycdlib.PyCdlib()
        iso.open_fp(out)
        idents, rrnames = list_root(iso)
        check_names('facade', level, idents, rrnames)
        # Every entry has to be addressable through the facade.
        facade = iso.get_rock_ridge_facade()
        for group in GROUPS:
            for name in group:
                got = io.BytesIO()
                facade.get_file_from_iso_fp(got, '/' + name)
                if got.getvalue() != b'x':
                    problems.append('facade level %d: wrong data for %r' % (level, name))
        iso.close()

        # pycdlib-genisoimage.
        srcdir = os.path.join(tmpdir, 'src%d' % (level))
        os.mkdir(srcdir)
        usable = True
        for group in GROUPS:
            for name in group:
                with open(os.path.join(srcdir, name), 'wb') as outfp:
                    outfp.write(b'x')
        if len(os.listdir(srcdir)) != sum(len(g) for g in GROUPS):
            usable = False  # case-insensitive file system; cannot set this up
        if usable:
            isoname = os.path.join(tmpdir, 'out%d.iso' % (level))
            env = dict(os.environ)
            env['PYTHONPATH'] = sys.argv[1]
            proc = subprocess.run([sys.executable, os.path.join(sys.argv[1], 'tools', 'pycdlib-genisoimage'),
                                   '-quiet', '-iso-level', str(level), '-R', '-o', isoname, srcdir],
                                  env=env, stdout=subprocess.PIPE, stderr=subprocess.STDOUT, check=False)
            if proc.returncode != 0:
                problems.append('pycdlib-genisoimage level %d failed: %s' % (level, proc.stdout.decode('utf-8', 'replace')[-300:]))
            else:
                iso = pycdlib.PyCdlib()
                iso.open(isoname)
                idents, rrnames = list_root(iso)
                check_names('pycdlib-genisoimage', level, idents, rrnames)
                iso.close()

    # Sanity: names that fit are numbered as before.
    iso = pycdlib.PyCdlib()
    iso.new(interchange_level=3, rock_ridge='1.09')
    facade = iso.get_rock_ridge_facade()
    facade.add_fp(io.BytesIO(b'x'), 1, '/Some-Name.text', 0o100444)
    facade.add_fp(io.BytesIO(b'x'), 1, '/Some+Name.text', 0o100444)
    idents, rrnames = list_root(iso)
    if sorted(idents) != [b'SOME_000.TEXT;1', b'SOME_NAME.TEXT;1']:
        problems.append('ordinary numbering changed: %r' % (sorted(idents)))
    iso.close()
finally:
    shutil.rmtree(tmpdir)

if problems:
    print('\n'.join(problems))
    sys.exit(1)
print('OK')
