"""
pycdlib-extract-files crashes on every symbolic link of a UDF image: for
'-path-type udf' (and 'auto' on a UDF image) the record is a UDFFileEntry, but
the tool asks it for '.rock_ridge.symlink_path()' -> AttributeError, and the
extraction stops there.
"""
import io
import os
import shutil
import subprocess
import sys
import tempfile

checkout = os.path.abspath(sys.argv[1])
sys.path.insert(0, checkout)
import pycdlib  # noqa: E402

TARGETS = {
    'rel': 'target.txt',
    'updown': '../x/./target.txt',
    'abs': '/usr/share/thing',
    'root': '/',
    'latin': 'dür/fé',
    'wide': '日本語/plain.txt',
}


def main():
    tmpdir = tempfile.mkdtemp()
    problems = []
    try:
        isoname = os.path.join(tmpdir, 'udf.iso')
        iso = pycdlib.PyCdlib()
        iso.new(udf='2.60')
        iso.add_fp(io.BytesIO(b'hello\n'), 6, '/TARGET.TXT;1', udf_path='/target.txt')
        for num, (name, target) in enumerate(sorted(TARGETS.items())):
            iso.add_symlink('/LINK%d.;1' % (num), udf_symlink_path='/' + name,
                            udf_target=target)
        iso.write(isoname)
        iso.close()

        tool = os.path.join(checkout, 'tools', 'pycdlib-extract-files')
        env = dict(os.environ, PYTHONPATH=checkout)
        for path_type in ('udf', 'auto'):
            outdir = os.path.join(tmpdir, 'out_' + path_type)
            os.mkdir(outdir)
            proc = subprocess.run([sys.executable, tool, '-path-type', path_type,
                                   '-extract-to', outdir, isoname],
                                  env=env, stdout=subprocess.PIPE,
                                  stderr=subprocess.PIPE, universal_newlines=True)
            if proc.returncode != 0:
                lines = proc.stderr.strip().splitlines() or ['(no stderr)']
                problems.append("extract-files -path-type %s exited with %d: %s" % (path_type, proc.returncode, lines[-1]))
                continue
            for name, target in sorted(TARGETS.items()):
                full = os.path.join(outdir, name)
                if not os.path.islink(full):
                    problems.append('-path-type %s: %s was not extracted as a symlink' % (path_type, name))
                elif os.readlink(full) != target:
                    problems.append('-path-type %s: symlink %s points to %r, expected %r' % (path_type, name, os.readlink(full), target))
            try:
                with open(os.path.join(outdir, 'target.txt'), 'rb') as infp:
                    if infp.read() != b'hello\n':
                        problems.append('-path-type %s: wrong contents for target.txt' % (path_type))
            except OSError:
                problems.append('-path-type %s: target.txt was not extracted' % (path_type))
    finally:
        shutil.rmtree(tmpdir, ignore_errors=True)

    if problems:
        for problem in problems:
            print(problem)
        return 1
    print('OK')
    return 0


if __name__ == '__main__':
    sys.exit(main())
