#!/usr/bin/env python
"""
Witness for observation E: add_hard_link() whose old path is a symbolic link
is accepted.  For a Rock Ridge symlink the new entry has the mode of a
symbolic link but no SL entry (a symlink without a target); for a UDF symlink
the new name gets a File Entry of type 'file' that shares the sector of the
symlink's File Entry, so the names can read back as a regular file that holds
the raw path components.

The call is right when it either is refused (and changes nothing), or
produces an entry that an independent reader sees as a symbolic link with the
same target.

usage: W5_hard_link_to_symlink.py <path-to-checkout>
"""
import io
import struct
import sys

sys.path.insert(0, sys.argv[1])

import pycdlib  # noqa: E402

problems = []


def master(iso):
    out = io.BytesIO()
    iso.write_fp(out)
    return out.getvalue()


def rr_root_entries(image):
    """Minimal SUSP/RRIP reader for the root directory (no CE needed here).
    Returns {iso name: (mode, symlink target or None)}."""
    root = image[16 * 2048 + 156:16 * 2048 + 190]
    extent, = struct.unpack_from('<L', root, 2)
    length, = struct.unpack_from('<L', root, 10)
    data = image[extent * 2048:extent * 2048 + length]
    ret = {}
    offset = 0
    while offset < len(data):
        reclen = bytearray(data[offset:offset + 1])[0]
        if reclen == 0:
            offset += 2048 - offset % 2048
            continue
        rec = data[offset:offset + reclen]
        offset += reclen
        namelen = bytearray(rec[32:33])[0]
        name = bytes(rec[33:33 + namelen])
        su = 33 + namelen
        if namelen % 2 == 0:
            su += 1
        mode = None
        target = None
        while su + 4 <= len(rec):
            sig = bytes(rec[su:su + 2])
            sulen = bytearray(rec[su + 2:su + 3])[0]
            if sulen < 4:
                break
            if sig == b'PX':
                mode, = struct.unpack_from('<L', rec, su + 4)
            elif sig == b'SL':
                comps = []
                pos = su + 5
                while pos < su + sulen:
                    flags = bytearray(rec[pos:pos + 1])[0]
                    clen = bytearray(rec[pos + 1:pos + 2])[0]
                    if flags & 0x2:
                        comps.append(b'.')
                    elif flags & 0x4:
                        comps.append(b'..')
                    elif flags & 0x8:
                        comps.append(b'')
                    else:
                        comps.append(bytes(rec[pos + 2:pos + 2 + clen]))
                    pos += 2 + clen
                target = b'/'.join(comps)
            su += sulen
        ret[name] = (mode, target)
    return ret


def udf_entries(image):
    """What pycdlib itself reads back for the UDF names (file type and data)."""
    chk = pycdlib.PyCdlib()
    chk.open_fp(io.BytesIO(image))
    ret = {}
    for root, dirs_unused, files in chk.walk(udf_path='/'):
        for f in files:
            path = root.rstrip('/') + '/' + f
            rec = chk.get_record(udf_path=path)
            ret[path] = 'symlink' if rec.is_symlink() else 'file'
    chk.close()
    return ret


def attempt(iso, **kwargs):
    """Returns the exception if the call was refused, None otherwise."""
    try:
        iso.add_hard_link(**kwargs)
    except pycdlib.pycdlibexception.PyCdlibInvalidInput as e:
        return e
    return None


# 1. Rock Ridge symlink as the old path.
def rr_image():
    iso = pycdlib.PyCdlib()
    iso.new(rock_ridge='1.09', joliet=3)
    iso.add_fp(io.BytesIO(b'a'), 1, '/A.;1', rr_name='a', joliet_path='/a', file_mode=0o100644)
    iso.add_symlink('/L.;1', 'l', 'a')
    return iso


ref = rr_image()
untouched = master(ref)
ref.close()

for what, kwargs in (('Rock Ridge symlink -> ISO9660 name', {'iso_old_path': '/L.;1', 'iso_new_path': '/M.;1', 'rr_name': 'm'}),
                     ('Rock Ridge symlink -> Joliet name', {'iso_old_path': '/L.;1', 'joliet_new_path': '/m'})):
    iso = rr_image()
    refused = attempt(iso, **kwargs)
    image = master(iso)
    iso.close()
    if refused is not None:
        if image[:16 * 2048] != untouched[:16 * 2048] or len(image) != len(untouched) or rr_root_entries(image) != rr_root_entries(untouched):
            problems.append('%s: refused (%s), but the image changed' % (what, refused))
        continue
    entries = rr_root_entries(image)
    if entries.get(b'L.;1') != (0o120555, b'a'):
        problems.append('%s: the symlink /l itself now reads %r' % (what, entries.get(b'L.;1')))
    if 'iso_new_path' in kwargs:
        mode, target = entries.get(b'M.;1', (None, None))
        if mode is None:
            problems.append('%s: accepted, but there is no /M.;1' % what)
        elif (mode & 0o170000) == 0o120000 and target != b'a':
            problems.append('%s: accepted; /m has mode %o (symbolic link) but %s' % (what, mode, 'no SL entry' if target is None else 'target %r' % target))
        elif (mode & 0o170000) != 0o120000:
            problems.append('%s: accepted; /m is not a symbolic link (mode %o)' % (what, mode))
    else:
        problems.append('%s: accepted, but Joliet cannot record a symbolic link' % what)


# 2. UDF symlink as the old path.
def udf_image():
    iso = pycdlib.PyCdlib()
    iso.new(interchange_level=3, udf='2.60')
    iso.add_directory('/D', udf_path='/d')
    iso.add_symlink(udf_symlink_path='/d/sl', udf_target='target')
    return iso


ref = udf_image()
untouched_udf = udf_entries(master(ref))
ref.close()
if untouched_udf != {'/d/sl': 'symlink'}:
    problems.append('UDF: unexpected reference image %r' % untouched_udf)

for what, kwargs in (('UDF symlink -> UDF name', {'udf_old_path': '/d/sl', 'udf_new_path': '/zlink'}),
                     ('UDF symlink -> ISO9660 name', {'udf_old_path': '/d/sl', 'iso_new_path': '/ZLINK.;1'})):
    iso = udf_image()
    refused = attempt(iso, **kwargs)
    image = master(iso)
    if refused is not None:
        if udf_entries(image) != untouched_udf:
            problems.append('%s: refused (%s), but the image changed: %r' % (what, refused, udf_entries(image)))
        chk = pycdlib.PyCdlib()
        chk.open_fp(io.BytesIO(image))
        names = sorted(c.file_identifier() for c in chk.list_children(iso_path='/'))
        if names != [b'.', b'..', b'D']:
            problems.append('%s: refused (%s), but the ISO9660 root now holds %r' % (what, refused, names))
        chk.close()
        iso.close()
        continue
    entries = udf_entries(image)
    for path, kind in sorted(entries.items()):
        if kind != 'symlink':
            chk = pycdlib.PyCdlib()
            chk.open_fp(io.BytesIO(image))
            buf = io.BytesIO()
            chk.get_file_from_iso_fp(buf, udf_path=path)
            chk.close()
            problems.append('%s: accepted; %s reads back as a regular file holding %r' % (what, path, buf.getvalue()))
    if 'iso_new_path' in kwargs:
        chk = pycdlib.PyCdlib()
        chk.open_fp(io.BytesIO(image))
        buf = io.BytesIO()
        chk.get_file_from_iso_fp(buf, iso_path='/ZLINK.;1')
        chk.close()
        problems.append('%s: accepted; /ZLINK.;1 is a regular ISO9660 file holding the raw path components %r' % (what, buf.getvalue()))
    iso.close()

if problems:
    print('\n'.join(problems))
    sys.exit(1)
print('OK')
sys.exit(0)
