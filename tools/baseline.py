#!/venv/bin/python
"""Run pycdlib's own suite and compare the set of passing tests with /root/.vp/BASELINE.json.
Used only when committing fix: changes to /repo (never by a check)."""
import json, subprocess, sys, tempfile, os, xml.etree.ElementTree as ET
base = json.load(open('/root/.vp/BASELINE.json'))
want = set(base['stable_pass'])
tmp = tempfile.mkdtemp(prefix='pycdlib-baseline-')
xmlp = os.path.join(tmp, 'j.xml')
subprocess.run(['/venv/bin/python', '-m', 'pytest', '-q', '-p', 'no:cacheprovider', '--timeout=900', '-n', '12',
                '--continue-on-collection-errors', '--junitxml=' + xmlp], cwd='/repo', stdout=subprocess.DEVNULL, stderr=subprocess.DEVNULL)
passed = set()
for tc in ET.parse(xmlp).getroot().iter('testcase'):
    if not any(ch.tag in ('failure', 'error', 'skipped') for ch in tc):
        passed.add('%s::%s' % (tc.get('classname'), tc.get('name')))
os.remove(xmlp); os.rmdir(tmp)
missing = sorted(want - passed)
print('baseline stable_pass=%d passed_now=%d missing=%d' % (len(want), len(passed), len(missing)))
for m in missing[:40]:
    print('  NOW FAILING:', m)
sys.exit(1 if missing else 0)
