#!/usr/bin/env python
"""
Witness for observation A: add_eltorito(..., platform_id=X) on an ISO that
already has El Torito must put X into the Section Header of the new entry.

usage: W1_platform_id_section.py <pycdlib checkout>
"""
import io
import os
import shutil
import struct
import sys
import tempfile

sys.path.insert(0, os.path.abspath(sys.argv[1]))
import pycdlib  # noqa: E402

S = 2048


def section_platforms(image):
    # sector 17 -> boot catalog -> section headers (0x90 / 0x91)
    cat = struct.unpack_from('<L', image, 17 * S + 71)[0]
    out = []
    off = cat * S + 64
    while image[off] in (0x90, 0x91):
        nent = struct.unpack_from('<H', image, off + 2)[0]
        out.append(image[off + 1])
        last = image[off] == 0x91
        off += 32 * (1 + nent)
        if last:
            break
    return cat, out


def build(first_platform, others):
    iso = pycdlib.PyCdlib()
    iso.new()
    iso.add_fp(io.BytesIO(b'a' * 100), 100, '/B0.;1')
    iso.add_eltorito('/B0.;1', '/BOOT.CAT;1', platform_id=first_platform)
    for index, kwargs in enumerate(others):
        name = '/B%d.;1' % (index + 1)
        iso.add_fp(io.BytesIO(b'b' * 100), 100, name)
        iso.add_eltorito(name, '/BOOT.CAT;1', **kwargs)
    out = io.BytesIO()
    iso.write_fp(out)
    in_memory = [sec.platform_id for sec in iso.eltorito_boot_catalog.sections]
    iso.close()
    return out.getvalue(), in_memory


def main():
    problems = []
    # (platform of the validation entry, kwargs of later entries, expected section platforms)
    cases = [
        (0, [{'platform_id': 2}], [2]),
        (0, [{'platform_id': 1}, {'platform_id': 0xef}, {'platform_id': 0}], [1, 0xef, 0]),
        (2, [{'platform_id': 0}], [0]),
        (0xef, [{'platform_id': 1}], [1]),
        # efi=True keeps meaning 'this is an EFI section'
        (0, [{'efi': True}], [0xef]),
        (0, [{}], [0]),
    ]
    for first, others, expected in cases:
        image, in_memory = build(first, others)
        if image[struct.unpack_from('<L', image, 17 * S + 71)[0] * S + 1] != first:
            problems.append('validation entry platform is not %d' % (first))
        cat, on_disk = section_platforms(image)
        if on_disk != expected:
            problems.append('first entry platform %#x, later entries %r: section headers on the image carry platforms %r, requested %r'
                            % (first, others, on_disk, expected))
        if in_memory != expected:
            problems.append('first entry platform %#x, later entries %r: in-memory section headers carry platforms %r, requested %r'
                            % (first, others, in_memory, expected))
        # and the image must still open, with the same platforms
        iso = pycdlib.PyCdlib()
        iso.open_fp(io.BytesIO(image))
        reopened = [sec.platform_id for sec in iso.eltorito_boot_catalog.sections]
        iso.close()
        if reopened != on_disk:
            problems.append('reopened image reports platforms %r, image has %r' % (reopened, on_disk))

    # A platform id that El Torito does not know must be refused, and must not
    # be written.
    iso = pycdlib.PyCdlib()
    iso.new()
    iso.add_fp(io.BytesIO(b'a' * 100), 100, '/B0.;1')
    iso.add_fp(io.BytesIO(b'b' * 100), 100, '/B1.;1')
    iso.add_eltorito('/B0.;1', '/BOOT.CAT;1')
    try:
        iso.add_eltorito('/B1.;1', '/BOOT.CAT;1', platform_id=7)
        out = io.BytesIO()
        iso.write_fp(out)
        cat, on_disk = section_platforms(out.getvalue())
        problems.append('platform_id=7 for a second entry was accepted although it is refused for the first entry (section platforms on the image: %r)' % (on_disk))
    except pycdlib.pycdlibexception.PyCdlibInvalidInput:
        pass
    iso.close()

    if problems:
        for problem in problems:
            print('PROBLEM: ' + problem)
        return 1
    print('OK')
    return 0


if __name__ == '__main__':
    tmpdir = tempfile.mkdtemp(prefix='w1')
    olddir = os.getcwd()
    os.chdir(tmpdir)
    try:
        ret = main()
    finally:
        os.chdir(olddir)
        shutil.rmtree(tmpdir, ignore_errors=True)
    sys.exit(ret)
