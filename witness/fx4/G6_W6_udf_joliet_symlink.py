#!/usr/bin/env python3
"""
Witness for observation E (notes item 5): a UDF symlink with a Joliet path but
without Rock Ridge (pycdlib-genisoimage -udf -J with a symlink in the tree).
add_symlink() must add the Joliet placeholder once, not twice.

  python W6_udf_joliet_symlink.py <path-to-checkout>
"""
import os
import shutil
import subprocess
import sys
import tempfile

CHECKOUT = os.path.abspath(sys.argv[1])
sys.path.insert(0, CHECKOUT)

import pycdlib  # noqa: E402,F401  pylint: disable=wrong-import-position,unused-import


def tool(name, *args):
    """Run one of the tools of the checkout; returns (exit code, stdout, stderr)."""
    env = dict(os.environ)
    env['PYTHONPATH'] = CHECKOUT
    proc = subprocess.run([sys.executable, os.path.join(CHECKOUT, 'tools', name)] + list(args),
                          env=env, stdout=subprocess.PIPE, stderr=subprocess.PIPE,
                          universal_newlines=True, check=False)
    return proc.returncode, proc.stdout, proc.stderr


def last_line(text):
    lines = text.strip().splitlines()
    return lines[-1] if lines else ''


def make_tree(root, files):
    """files: relative path -> bytes (file), (target,) (symlink) or None (directory)."""
    os.makedirs(root)
    for rel, content in files.items():
        full = os.path.join(root, rel)
        if content is None:
            os.makedirs(full, exist_ok=True)
            continue
        os.makedirs(os.path.dirname(full), exist_ok=True)
        if isinstance(content, tuple):
            os.symlink(content[0], full)
        else:
            with open(full, 'wb') as outfp:
                outfp.write(content)


def tree(root):
    """relative path -> 'dir', ('link', target) or the file contents."""
    out = {}
    for dirpath, dirnames, filenames in os.walk(root):
        for name in dirnames + filenames:
            full = os.path.join(dirpath, name)
            rel = os.path.relpath(full, root)
            if os.path.islink(full):
                out[rel] = ('link', os.readlink(full))
            elif os.path.isdir(full):
                out[rel] = 'dir'
            else:
                with open(full, 'rb') as infp:
                    out[rel] = infp.read()
    return out


def diff_trees(want, got):
    problems = []
    for rel in sorted(set(want) - set(got)):
        problems.append('missing from the extracted tree: %s' % (rel))
    for rel in sorted(set(got) - set(want)):
        problems.append('not in the source tree: %s' % (rel))
    for rel in sorted(set(got) & set(want)):
        if got[rel] != want[rel]:
            problems.append('%s differs: source %r, extracted %r' % (rel, want[rel][:80], got[rel][:80]))
    return problems


def build(tmp, files, opts):
    """Build tmp/out.iso from a fresh tmp/src; returns (src, isoname, exit code, stderr)."""
    src = os.path.join(tmp, 'src')
    make_tree(src, files)
    isoname = os.path.join(tmp, 'out.iso')
    ret, _, err = tool('pycdlib-genisoimage', '-quiet', *(list(opts) + ['-o', isoname, src]))
    return src, isoname, ret, err


def extract(tmp, isoname, view):
    """Extract one view to a fresh directory; returns (dest, exit code, stderr)."""
    dest = os.path.join(tmp, 'dest_' + view)
    os.makedirs(dest)
    ret, _, err = tool('pycdlib-extract-files', '-path-type', view, '-extract-to', dest, isoname)
    return dest, ret, err


def run(check):
    tmp = tempfile.mkdtemp()
    try:
        problems = check(tmp)
    finally:
        shutil.rmtree(tmp, ignore_errors=True)
    if problems:
        for problem in problems:
            print(problem)
        return 1
    print('OK')
    return 0


def check(tmp):
    problems = []

    # Library level.
    import io
    iso = pycdlib.PyCdlib()
    iso.new(joliet=3, udf='2.60')
    iso.add_fp(io.BytesIO(b'aa\n'), 3, '/A.TXT;1', joliet_path='/a.txt', udf_path='/a.txt')
    try:
        iso.add_symlink('/L.;1', joliet_path='/l', udf_symlink_path='/l', udf_target='a.txt')
    except pycdlib.pycdlibexception.PyCdlibInvalidInput as e:
        problems.append("add_symlink(symlink_path, joliet_path, udf_symlink_path, udf_target): %s" % (e))
    else:
        names = sorted(c.file_identifier().decode('utf-16_be') for c in iso.list_children(joliet_path='/')
                       if not c.is_dot() and not c.is_dotdot())
        if names != ['a.txt', 'l']:
            problems.append('the Joliet root lists %r, expected %r' % (names, ['a.txt', 'l']))
        if not iso.get_record(udf_path='/l').is_symlink():
            problems.append('the UDF entry /l is not a symlink')
        out = io.BytesIO()
        iso.write_fp(out)
        iso.close()
        iso = pycdlib.PyCdlib()
        iso.open_fp(out)
        names = sorted(c.file_identifier().decode('utf-16_be') for c in iso.list_children(joliet_path='/')
                       if not c.is_dot() and not c.is_dotdot())
        if names != ['a.txt', 'l']:
            problems.append('after a round trip the Joliet root lists %r, expected %r' % (names, ['a.txt', 'l']))
    iso.close()

    # Tool level.
    src, isoname, ret, err = build(tmp, {'a.txt': b'aa\n', 'sub/l': ('../a.txt',)}, ['-udf', '-J'])
    if ret != 0:
        problems.append('pycdlib-genisoimage -udf -J failed: %s' % (last_line(err)))
        return problems
    dest, ret, err = extract(tmp, isoname, 'udf')
    if ret != 0:
        problems.append('pycdlib-extract-files -path-type udf failed: %s' % (last_line(err)))
    problems.extend(diff_trees(tree(src), tree(dest)))
    return problems


if __name__ == '__main__':
    sys.exit(run(check))
