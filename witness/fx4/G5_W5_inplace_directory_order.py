"""
Witness for observation E: modify_file_in_place() has to rewrite the directory
record of the file where that record really is in the opened image, also when
the directory is not laid out the way pycdlib itself would lay it out.

Scenario 1: the root directory is in Ecma-119 9.3 order ('a.b' before 'a-b'),
            which is not the byte order pycdlib sorts its children in.
Scenario 2: the root directory is in pycdlib's order, but the mastering tool
            started the second sector of the directory one record early.

Usage: W5_inplace_directory_order.py <path-to-checkout>
"""
import io
import os
import shutil
import struct
import sys
import tempfile

sys.path.insert(0, sys.argv[1])

import pycdlib  # noqa: E402  pylint: disable=wrong-import-position

SECTOR = 2048


def read_all(path, names):
    """Return {name: content or repr(exception)} read from a fresh open()."""
    ret = {}
    iso = pycdlib.PyCdlib()
    iso.open(path)
    try:
        for name in names:
            out = io.BytesIO()
            try:
                iso.get_file_from_iso_fp(out, iso_path=name)
                ret[name] = out.getvalue()
            except Exception as exc:  # pylint: disable=broad-except
                ret[name] = repr(exc)
    finally:
        iso.close()
    return ret


def list_root(path):
    iso = pycdlib.PyCdlib()
    iso.open(path)
    try:
        return sorted(c.file_identifier() for c in iso.list_children(iso_path='/')
                      if c is not None and not c.is_dot() and not c.is_dotdot())
    finally:
        iso.close()


def root_dir_location(data):
    """(byte offset, length) of the root directory from the PVD."""
    rootrec = data[16 * SECTOR + 156:16 * SECTOR + 190]
    extent, = struct.unpack_from('<L', rootrec, 2)
    length, = struct.unpack_from('<L', rootrec, 10)
    return extent * SECTOR, length


def dir_records(data, start, length):
    """List of (offset, length, identifier) of the records in a directory."""
    ret = []
    off = 0
    while off < length:
        reclen = data[start + off]
        if reclen == 0:
            off += SECTOR - off % SECTOR
            continue
        len_fi = data[start + off + 32]
        ret.append((start + off, reclen,
                    bytes(data[start + off + 33:start + off + 33 + len_fi])))
        off += reclen
    return ret


def check(path, contents, target, newdata, problems, label):
    """Modify target in place and compare the whole image; True if all is well."""
    count = len(problems)
    before_names = list_root(path)
    iso = pycdlib.PyCdlib()
    iso.open(path, 'r+b')
    try:
        iso.modify_file_in_place(io.BytesIO(newdata), len(newdata), target)
    finally:
        iso.close()

    expected = dict(contents)
    expected[target] = newdata
    try:
        after_names = list_root(path)
        got = read_all(path, sorted(expected))
    except Exception as exc:  # pylint: disable=broad-except
        problems.append('%s: image cannot be opened after modify_file_in_place(%s): %r' % (label, target, exc))
        return False
    if after_names != before_names:
        problems.append('%s: root directory changed from %r to %r' % (label, before_names, after_names))
    for name in sorted(expected):
        if got[name] != expected[name]:
            shown = got[name] if isinstance(got[name], str) else '%d bytes %r...' % (len(got[name]), got[name][:8])
            problems.append('%s: after modifying %s, %s reads as %s (expected %d bytes %r...)'
                            % (label, target, name, shown, len(expected[name]), expected[name][:8]))
    return len(problems) == count


def scenario_ecma_order(tmp, problems):
    path = os.path.join(tmp, 'order.iso')
    contents = {'/a-b': b'1' * 100, '/a.b': b'2' * 100}
    iso = pycdlib.PyCdlib()
    iso.new(interchange_level=4)
    for name in sorted(contents):
        iso.add_fp(io.BytesIO(contents[name]), len(contents[name]), name)
    iso.write(path)
    iso.close()

    # pycdlib stores 'a-b' before 'a.b' (byte order).  Ecma-119 9.3 compares
    # the space-padded file name parts first ('a  ' < 'a-b'), so a tool that
    # follows the standard stores 'a.b' first.  Swap the two equally long
    # records to get that image.
    with open(path, 'rb') as infp:
        data = bytearray(infp.read())
    start, length = root_dir_location(data)
    recs = dict((ident, (off, reclen)) for off, reclen, ident in dir_records(data, start, length))
    off1, len1 = recs[b'a-b']
    off2, len2 = recs[b'a.b']
    assert len1 == len2 and off2 == off1 + len1
    first = bytes(data[off1:off1 + len1])
    second = bytes(data[off2:off2 + len2])
    data[off1:off1 + len1] = second
    data[off2:off2 + len2] = first
    with open(path, 'wb') as outfp:
        outfp.write(data)

    if read_all(path, sorted(contents)) != contents:
        problems.append('ecma-order: the hand-made image does not read back correctly')
        return

    if not check(path, contents, '/a.b', b'N' * 10, problems, 'ecma-order'):
        return
    contents['/a.b'] = b'N' * 10
    check(path, contents, '/a-b', b'M' * 20, problems, 'ecma-order')


def scenario_early_sector_break(tmp, problems):
    path = os.path.join(tmp, 'packing.iso')
    contents = {}
    iso = pycdlib.PyCdlib()
    iso.new(interchange_level=4)
    for i in range(0, 45):
        name = '/file-with-a-long-name-%02d' % (i)
        contents[name] = ('%02d' % (i)).encode('ascii') * 50
        iso.add_fp(io.BytesIO(contents[name]), len(contents[name]), name)
    iso.write(path)
    iso.close()

    with open(path, 'rb') as infp:
        data = bytearray(infp.read())
    start, length = root_dir_location(data)
    assert length == 2 * SECTOR
    recs = dir_records(data, start, length)
    in_first = [r for r in recs if r[0] < start + SECTOR]
    in_second = [r for r in recs if r[0] >= start + SECTOR]
    assert in_second
    # Move the last record of the first sector to the start of the second one.
    moved_off, moved_len, moved_ident = in_first[-1]
    second_used = sum(r[1] for r in in_second)
    assert moved_len + second_used <= SECTOR
    moved = bytes(data[moved_off:moved_off + moved_len])
    rest = bytes(data[start + SECTOR:start + SECTOR + second_used])
    data[moved_off:moved_off + moved_len] = b'\x00' * moved_len
    data[start + SECTOR:start + SECTOR + moved_len + second_used] = moved + rest
    with open(path, 'wb') as outfp:
        outfp.write(data)

    if read_all(path, sorted(contents)) != contents:
        problems.append('early-break: the hand-made image does not read back correctly')
        return

    moved_name = '/' + moved_ident.decode('ascii')
    if not check(path, contents, moved_name, b'N' * 10, problems, 'early-break'):
        return
    contents[moved_name] = b'N' * 10
    last_name = '/' + in_second[-1][2].decode('ascii')
    check(path, contents, last_name, b'M' * 20, problems, 'early-break')


def main():
    problems = []
    tmp = tempfile.mkdtemp()
    try:
        scenario_ecma_order(tmp, problems)
        scenario_early_sector_break(tmp, problems)
    finally:
        shutil.rmtree(tmp)

    if problems:
        print('modify_file_in_place wrote a directory record to the wrong place:')
        for problem in problems:
            print('  ' + problem)
        return 1

    print('OK')
    return 0


if __name__ == '__main__':
    sys.exit(main())
