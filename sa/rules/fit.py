"""Packing agreement and placement-fit rules.

SA-SIB.packing (C01, C04, C05, C10)
    The decision "does the next record still fit into the current sector" is taken independently by the
    size accounting (DirectoryRecord._recalculate_extents_and_offsets, used for data_length and hence for
    every extent assignment) and by the mastering loop (PyCdlib._write_directory_records); the UDF FID
    loop (PyCdlib._udf_assign_extents) takes the corresponding decision for the tag location of each FID
    (block containing its first byte, as _walk_udf_directories recomputes it: base + offset // B) and for
    the number of blocks the directory occupies (ceil(info_len / B), as UDFFileEntry.add_file_ident_desc
    accounts it).  Each test is canonicalised to a linear inequality over the roles ACC (running offset),
    LEN (size of the next record) and B (sector size) and compared with its siblings / with the frozen
    canonical form.  `a + b > B`, `B < a + b`, `not a + b <= B`, temporaries: all the same canonical form.

SA-FIT.ce_block (C04, C08)
    RockRidgeContinuationBlock hands out byte ranges of a continuation sector.  Every placement
    `offset = V` (and every tracked entry) must be inside a free gap: the governing tests must imply
    V + length <= (start of the next entry | block size) and V must be 0 or the end of the preceding
    entry.  The implication is decided on linear forms: discharged if requirement - guard is a
    non-negative constant, violated if it is a negative constant (off-by-k) or no guard mentions the
    length at all, analysis error if the guard has an unrecognised shape.
"""
import ast

from ..registry import rule, props
from ..report import Ob
from ..model import norm, AnalysisError
from ..linexpr import Lin, lin, cmp_canon
from .. import expand as ex

BSIZE = ('logical_block_size', 'log_block_size', '_max_block_size')


def _is_b(atom):
    return atom.split('.')[-1] in BSIZE


def _loop_of(ctx, fi, node):
    par = ctx.parents(fi)
    cur = node
    while cur is not None:
        cur = par.get(id(cur))
        if isinstance(cur, (ast.For, ast.While)):
            return cur
    return None


def _assigned_in(loop):
    out = set()
    for n in ast.walk(loop):
        if isinstance(n, ast.AugAssign) and isinstance(n.target, ast.Name):
            out.add(n.target.id)
        elif isinstance(n, ast.Assign):
            for t in n.targets:
                if isinstance(t, ast.Name):
                    out.add(t.id)
    return out


def canon_roles(ctx, fi, ifstmt, test):
    """('>=', 'ACC + LEN - B - 1') style canonical string, or None."""
    e = ex.expand(ctx, fi, test, ifstmt)
    c = cmp_canon(e)
    if c is None or c[0] != '>=':
        return None
    L = c[1]
    if not any(_is_b(a) for a in L.terms):
        return None
    loop = _loop_of(ctx, fi, ifstmt)
    accs = _assigned_in(loop) if loop is not None else set()
    out = {}
    for a, k in L.terms.items():
        if _is_b(a):
            role = 'B'
        elif a in accs or (loop is None and a.isidentifier()):
            role = 'ACC'
        else:
            role = 'LEN'
        out[role] = out.get(role, 0) + k
    return repr(Lin(out, L.const))


# family, function, position ('loop' = inside the record loop, 'after' = after it), canonical form, reason
PACKING = [
    ('iso-dir-records', 'dr.DirectoryRecord._recalculate_extents_and_offsets', 'loop', 'ACC + -1*B + LEN + -1',
     'ECMA-119 6.8.1.1: a directory record may end exactly on the sector boundary; it moves to the next sector only if it would cross it'),
    ('iso-dir-records', 'pycdlib.PyCdlib._write_directory_records', 'loop', 'ACC + -1*B + LEN + -1',
     'the mastering loop must break sectors exactly where the accounting did'),
    ('udf-fids', 'pycdlib.PyCdlib._udf_assign_extents', 'loop', 'ACC + -1*B',
     'FIDs are written back to back; the tag location of a FID is the block holding its first byte (base + offset // B in _walk_udf_directories)'),
    ('udf-fids', 'pycdlib.PyCdlib._udf_assign_extents', 'after', 'ACC + -1*B + -1',
     'blocks occupied by the directory = ceil(info_len / B) as accounted by UDFFileEntry.add_file_ident_desc'),
]


def _packing_tests(ctx, fi):
    """[(ifstmt, position, canonical)] for if-tests of fi against a block size that bump an extent counter."""
    res = []
    loops = [n for n in ctx.own_nodes(fi) if isinstance(n, (ast.For, ast.While))]
    for n in ctx.own_nodes(fi):
        if not isinstance(n, ast.If) or n.orelse:
            continue
        bumps = any(isinstance(s, ast.AugAssign) and isinstance(s.op, ast.Add) and isinstance(s.value, ast.Constant) and s.value.value == 1
                    for s in n.body)
        if not bumps:
            continue
        for t, pol in ex.conjuncts(n.test, True):
            if not pol:
                t = ex.negate_compare(t)
                if t is None:
                    continue
            c = canon_roles(ctx, fi, n, t)
            if c is None:
                continue
            res.append((n, 'after' if _after_loop(ctx, fi, n, t) else 'loop', c))
    return res


def _after_loop(ctx, fi, ifstmt, test):
    """the test follows (as a later sibling) a loop that accumulates one of its names"""
    par = ctx.parents(fi).get(id(ifstmt))
    names = set(s.id for s in ast.walk(test) if isinstance(s, ast.Name))
    for fld in ('body', 'orelse', 'finalbody'):
        blk = getattr(par, fld, None)
        if isinstance(blk, list) and any(s is ifstmt for s in blk):
            for s in blk:
                if s is ifstmt:
                    return False
                if isinstance(s, (ast.For, ast.While)) and names & _assigned_in(s):
                    return True
    return False


def _mentions_acc(loop, test):
    accs = _assigned_in(loop)
    return any(isinstance(s, ast.Name) and s.id in accs for s in ast.walk(test))


@rule('SA-SIB.packing.iso')
@props('C01', 'C03', 'C04', 'C09', 'C20')
def packing_iso(ctx):
    return _packing(ctx, 'iso-dir-records', 'SA-SIB.packing.iso', True)


@rule('SA-SIB.packing.udf')
@props('C01', 'C04', 'C05', 'C10')
def packing_udf(ctx):
    return _packing(ctx, 'udf-fids', 'SA-SIB.packing.udf', False)


def _packing(ctx, family, rid, discover):
    obs = []
    found = {}
    for fam, q, pos, canon, why in PACKING:
        if fam != family:
            continue
        fi = ctx.func(q)
        tests = [t for t in _packing_tests(ctx, fi) if t[1] == pos]
        if not tests:
            raise AnalysisError('anchor-vanished: no sector-overflow test (%s) found in %s' % (pos, q))
        for ifs, p, c in tests:
            key = '%s|%s|%s' % (fam, q, pos)
            ok = c == canon
            found.setdefault(fam, []).append((q, pos, c))
            obs.append(Ob(rid, key, ok, ctx.loc(fi, ifs),
                          '' if ok else 'sector-overflow test `%s` canonicalises to `%s >= 0` but this site must decide `%s >= 0` (%s); '
                          'its siblings %s still do, so the accounted size / recorded location and the bytes mastered disagree for records ending exactly on a sector boundary'
                          % (norm(ifs.test), c, canon, why,
                             ', '.join(x[1].split('.')[-1] for x in PACKING if x[0] == fam and x[1] != q) or 'in the same function')))
    # discovery: any other function with the same shape of test must be tabulated (new sibling)
    known = set(x[1] for x in PACKING)
    for fi in (ctx.m.pkg_functions() if discover else ()):
        if fi.qual in known or '<locals>' in fi.qual:
            continue
        for ifs, p, c in _packing_tests(ctx, fi):
            if 'ACC' in c and 'B' in c:
                obs.append(Ob(rid, 'untabulated|%s|%s' % (fi.qual, c), False, ctx.loc(fi, ifs),
                              'a new sector-overflow decision `%s` that is not in the sibling table: add it to its family after checking it agrees' % norm(ifs.test)))
    return obs


# ------------------------------------------------------------------------------------------ SA-FIT

CEB = 'rockridge.RockRidgeContinuationBlock'


def _lin_at(ctx, fi, expr, stmt):
    return lin(ex.expand(ctx, fi, expr, stmt))


def _guards(ctx, fi, stmt):
    """canonical ('>=', Lin) / raw facts holding at stmt."""
    out = []
    raw = []
    for test, pol, at in ex.conditions(ctx, fi, stmt):
        for t, p in ex.conjuncts(test, pol):
            raw.append((t, p))
            tt = t if p else ex.negate_compare(t)
            if tt is None:
                continue
            c = cmp_canon(ex.expand(ctx, fi, tt, at))
            if c is not None:
                out.append(c)
    return out, raw


def _decide(req, guards, must_mention):
    """req: Lin that must be >= 0.  -> ('ok'|'bad'|'unknown', detail)"""
    close = None
    for op, g in guards:
        if op != '>=':
            continue
        d = req - g
        if d.is_const():
            if d.const >= 0:
                return 'ok', ''
            close = (g, d.const)
    if close is not None:
        return 'bad', 'the governing test guarantees only `%r >= 0`, which is %d short of the required `%r >= 0`' % (close[0], -close[1], req)
    mention = [g for op, g in guards if any(must_mention in a for a in g.terms)]
    if not mention:
        return 'bad', 'no governing test bounds `%s`: required `%r >= 0`' % (must_mention, req)
    return 'unknown', 'governing tests %s do not have the shape of the requirement `%r >= 0`' % (['%r' % g for g in mention], req)


@rule('SA-FIT.ce_block')
@props('C01', 'C02', 'C04', 'C08')
def ce_block(ctx):
    obs = []
    cls = ctx.cls(CEB)
    add = cls.methods.get('add_entry')
    track = cls.methods.get('track_entry')
    if add is None or track is None:
        raise AnalysisError('anchor-vanished: RockRidgeContinuationBlock.add_entry/track_entry')
    length = lin(ast.Name(id='length', ctx=ast.Load()))
    maxb = Lin({'self._max_block_size': 1})
    nplace = 0
    unknown = []
    for st in ctx.own_nodes(add):
        if not (isinstance(st, ast.Assign) and len(st.targets) == 1 and isinstance(st.targets[0], ast.Name) and st.targets[0].id == 'offset'):
            continue
        V = _lin_at(ctx, add, st.value, st)
        if V.is_const() and V.const < 0:
            continue          # the "not found" sentinel
        nplace += 1
        loop = _loop_of(ctx, add, st)
        in_body = False
        if loop is not None:
            # inside the for *body* (not its else clause)
            in_body = any(s is st for b in loop.body for s in ast.walk(b))
        if in_body and isinstance(loop, ast.For) and isinstance(loop.target, ast.Tuple):
            nxt = loop.target.elts[-1]
        elif in_body and isinstance(loop, ast.For):
            nxt = loop.target
        else:
            nxt = None
        upper = Lin({'%s.offset' % norm(nxt): 1}) if nxt is not None else maxb
        guards, raw = _guards(ctx, add, st)
        # upper bound: V + length <= upper
        req = upper - V - length
        verdict, det = _decide(req, guards, 'length')
        gov = ' and '.join(('' if p else 'not ') + norm(t) for t, p in raw[:2]) or 'always'
        key = 'add_entry|%s when %s|upper' % (norm(st), gov)
        if verdict == 'unknown':
            unknown.append('%s: %s' % (key, det))
        else:
            obs.append(Ob('SA-FIT.ce_block', key, verdict == 'ok', ctx.loc(add, st),
                          '' if verdict == 'ok' else 'placement `%s` in a continuation block: %s; an entry of exactly that size is placed over the first byte of the '
                          'following entry / beyond the sector, so two records\' continuation areas overlap' % (norm(st), det)))
        # lower bound: V is 0 (no predecessor) or the end of the preceding entry
        key = 'add_entry|%s when %s|lower' % (norm(st), gov)
        if V.is_const() and V.const == 0:
            facts = [(norm(t), p) for t, p in raw]
            ok = any((txt == 'index == 0' and p) or (txt == 'self._entries' and not p) or (txt == 'index != 0' and not p) for txt, p in facts)
            obs.append(Ob('SA-FIT.ce_block', key, ok, ctx.loc(add, st),
                          '' if ok else 'placement at offset 0 is not restricted to the first entry / an empty block'))
        else:
            atoms = sorted(V.terms)
            ok = (V.const == 0 and len(atoms) == 2 and all(V.terms[a] == 1 for a in atoms) and
                  atoms[0].endswith('.length') and atoms[1].endswith('.offset') and atoms[0][:-7] == atoms[1][:-7] and
                  atoms[0][:-7] in ('self._entries[index + -1]', 'self._entries[-1]', 'self._entries[index - 1]'))
            obs.append(Ob('SA-FIT.ce_block', key, ok, ctx.loc(add, st),
                          '' if ok else 'placement `%s` = `%r` is not the first free byte after the preceding entry (its offset + its length): '
                          'the new entry overlaps the preceding one or leaves the gap test meaningless' % (norm(st), V)))
    if nplace < 4:
        raise AnalysisError('anchor-vanished: placements in RockRidgeContinuationBlock.add_entry (%d)' % nplace)
    # track_entry: the insertion must be dominated by the bound refusal
    ntrack = 0
    for st in ctx.own_nodes(track):
        if isinstance(st, ast.Expr) and isinstance(st.value, ast.Call) and 'insort' in norm(st.value.func):
            ntrack += 1
            guards, raw = _guards(ctx, track, st)
            req = maxb - lin(ast.Name(id='offset', ctx=ast.Load())) - length
            verdict, det = _decide(req, guards, 'length')
            key = 'track_entry|bound'
            if verdict == 'unknown':
                unknown.append('%s: %s' % (key, det))
            else:
                obs.append(Ob('SA-FIT.ce_block', key, verdict == 'ok', ctx.loc(track, st),
                              '' if verdict == 'ok' else 'a parsed continuation entry is tracked without being bounded by the sector: %s' % det))
    if ntrack < 1:
        raise AnalysisError('anchor-vanished: RockRidgeContinuationBlock.track_entry insertion')
    if unknown:
        raise AnalysisError('unrecognised guard shape in RockRidgeContinuationBlock: ' + '; '.join(unknown))
    return obs
