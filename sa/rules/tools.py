"""C20 rules over the tool scripts (and attribute existence in general).

SA-ATTR        where the type of `x` is known, `x.a` names a slot, method, property, class
               constant or nested class of every member of the type (after isinstance narrowing);
               receivers obtained from open() are checked against the real io classes; every
               call of a PyCdlib public method from a tool passes only keywords / as many
               positionals as that method declares.
SA-SIB.tool_none   the result of a helper that can return None (build_iso_path) never reaches a
               use while it may still be None.
SA-SIB.tool_options   expressions over synonymous option pairs are functions of the pair's
               disjunction only.
SA-DEDUP       declaring two files identical is dominated by a byte-wise comparison.
"""
import ast
import io
import itertools

from ..registry import rule, props
from ..report import Ob
from ..model import norm, type_classes, AnalysisError, strip_opt
from .. import cfg as cfgmod

TOOLS = ('tool_genisoimage', 'tool_extract', 'tool_explorer')
OPTION_PAIRS = [({'rational_rock', 'rock'}, 'both switch Rock Ridge on; used as a disjunction at 5 of 6 sites'),
                ({'udf', 'UDF'}, 'identical help text "Generate UDF file system"; used as a disjunction at 4 of 6 sites')]


def _narrow(ctx, fi, node, var, classes):
    """restrict `classes` by enclosing isinstance(var, C) tests"""
    par = ctx.parents(fi)
    cur = node
    out = list(classes)
    def _isinstance_classes(sub):
        t = ctx.t.expr_type(sub.args[1], fi)
        cs = set(type_classes(t[1])) if t and t[0] == 'type' else set()
        if not cs and isinstance(sub.args[1], ast.Tuple):
            for e in sub.args[1].elts:
                t2 = ctx.t.expr_type(e, fi)
                if t2 and t2[0] == 'type':
                    cs |= set(type_classes(t2[1]))
        return cs
    while cur is not None:
        p = par.get(id(cur))
        if isinstance(p, ast.BoolOp) and isinstance(p.op, ast.And):
            # `isinstance(x, C) and x.attr ...`: operands to the left hold when this one is evaluated
            for v in p.values:
                if v is cur:
                    break
                if isinstance(v, ast.Call) and isinstance(v.func, ast.Name) and v.func.id == 'isinstance' and len(v.args) == 2 and norm(v.args[0]) == var:
                    cs = _isinstance_classes(v)
                    if cs:
                        out = [c for c in out if c in cs]
        if isinstance(p, ast.If) and cur is not p.test:
            for sub in ast.walk(p.test):
                if isinstance(sub, ast.Call) and isinstance(sub.func, ast.Name) and sub.func.id == 'isinstance' and \
                        len(sub.args) == 2 and norm(sub.args[0]) == var:
                    t = ctx.t.expr_type(sub.args[1], fi)
                    cs = set(type_classes(t[1])) if t and t[0] == 'type' else set()
                    if not cs and isinstance(sub.args[1], ast.Tuple):
                        for e in sub.args[1].elts:
                            t2 = ctx.t.expr_type(e, fi)
                            if t2 and t2[0] == 'type':
                                cs |= set(type_classes(t2[1]))
                    if not cs:
                        continue
                    negated = isinstance(p.test, ast.UnaryOp) and isinstance(p.test.op, ast.Not)
                    in_body = any(cur is s for s in p.body)
                    in_else = any(cur is s for s in p.orelse)
                    if (in_body and not negated) or (in_else and negated):
                        out = [c for c in out if c in cs]
                    elif (in_else and not negated) or (in_body and negated):
                        out = [c for c in out if c not in cs]
        cur = p
    return out


def _flow_classes(ctx, fi, g, rd, node, var):
    """classes `var` may have at CFG node `node`, from the definitions reaching it (None = unknown)"""
    IN = rd[node.id] if node is not None else None
    if IN is None:
        return None
    defs = [g.nodes[d] for (nm, d) in IN if nm == var]
    if not defs:
        return None
    out = []
    for d in defs:
        t = None
        if d.kind == 'entry':
            t = fi.ptypes.get(var)
        elif d.kind == 'stmt' and isinstance(d.ast, ast.Assign):
            for tg in d.ast.targets:
                if isinstance(tg, ast.Name) and tg.id == var:
                    t = ctx.t.expr_type(d.ast.value, fi)
                elif isinstance(tg, (ast.Tuple, ast.List)):
                    vt = strip_opt(ctx.t.expr_type(d.ast.value, fi))
                    for i, e in enumerate(tg.elts):
                        if isinstance(e, ast.Name) and e.id == var and vt and vt[0] == 'tuple' and i < len(vt[1]):
                            t = vt[1][i]
        elif d.kind == 'iter':
            from ..model import elem_type
            it = ctx.t._iter_elem(d.ast.iter, ctx.t.expr_type(d.ast.iter, fi), fi)
            if isinstance(d.ast.target, ast.Name):
                t = it
            elif isinstance(d.ast.target, (ast.Tuple, ast.List)) and it and strip_opt(it)[0] == 'tuple':
                for i, e in enumerate(d.ast.target.elts):
                    if isinstance(e, ast.Name) and e.id == var and i < len(strip_opt(it)[1]):
                        t = strip_opt(it)[1][i]
        if t is None or t == ('any',):
            return None
        cs = type_classes(t)
        if not cs:
            return None
        for c in cs:
            if c not in out:
                out.append(c)
    return out


def _has_attr(ctx, cqual, attr):
    ci = ctx.m.classes.get(cqual)
    if ci is None:
        return True
    if ci.slots is None:
        return True     # open attribute set: cannot decide
    if attr in ci.slots or attr in ci.methods or attr in ci.consts or attr in ci.nested:
        return True
    if attr.startswith('__'):
        return True
    if any(not b.startswith('object') for b in ci.bases):
        # inherits from an external base (io.RawIOBase): look there
        for b in ci.bases:
            base = {'io.RawIOBase': io.RawIOBase}.get(b)
            if base is not None and hasattr(base, attr):
                return True
        return False if ci.bases == ['io.RawIOBase'] else True
    return False


def _cfg_node_for(ctx, fi, g, node):
    """the CFG node at which expression `node` is evaluated"""
    par = ctx.parents(fi)
    cur = node
    while cur is not None:
        p = par.get(id(cur))
        if isinstance(p, (ast.If, ast.While)) and cur is p.test:
            return g.node_of(p)
        if isinstance(p, ast.For) and cur is p.iter:
            return g.node_of(p)
        if isinstance(cur, ast.stmt):
            n = g.node_of(cur)
            if n is not None and n.kind == 'stmt':
                return n
            if isinstance(cur, (ast.If, ast.While, ast.For, ast.With, ast.Try)):
                return None
        cur = p
    return None


@rule('SA-ATTR')
@props('C20')
def attr(ctx):
    obs = []
    nchecked = 0
    flow = {}
    funcs = [f for f in ctx.m.functions.values() if f.module in TOOLS]
    pc = ctx.cls('pycdlib.PyCdlib')
    funcs += [f for n, f in pc.methods.items() if not n.startswith('_')]
    for fi in funcs:
        env = ctx.t.env(fi)
        for node in ctx.own_nodes(fi):
            if not isinstance(node, ast.Attribute) or not isinstance(node.ctx, ast.Load):
                continue
            bt = ctx.t.expr_type(node.value, fi)
            if bt is None:
                continue
            # files from open()
            if strip_opt(bt) == ('ext', 'IO'):
                src = None
                if isinstance(node.value, ast.Name):
                    for n2 in ctx.own_nodes(fi):
                        if isinstance(n2, ast.With):
                            for it in n2.items:
                                if isinstance(it.optional_vars, ast.Name) and it.optional_vars.id == node.value.id and \
                                        isinstance(it.context_expr, ast.Call) and norm(it.context_expr.func) == 'open':
                                    src = it.context_expr
                if src is not None:
                    mode = 'r'
                    if len(src.args) > 1 and isinstance(src.args[1], ast.Constant):
                        mode = src.args[1].value
                    real = io.BufferedReader if 'b' in mode else io.TextIOWrapper
                    nchecked += 1
                    ok = hasattr(real, node.attr)
                    obs.append(Ob('SA-ATTR', '%s|%s' % (fi.qual, norm(node)), ok, ctx.loc(fi, node),
                                  '' if ok else 'a file opened with mode %r has no attribute %r (io.%s)' % (mode, node.attr, real.__name__)))
                continue
            if isinstance(node.value, ast.Attribute) and isinstance(node.value.value, ast.Name):
                # x.a.<attr>: narrow x by the enclosing isinstance tests first, then take the type of x.a
                base = node.value.value
                bcl = type_classes(ctx.t.expr_type(base, fi))
                ncl = _narrow(ctx, fi, node, base.id, bcl) if bcl else bcl
                if ncl and len(ncl) < len(bcl):
                    from ..model import mk_union
                    bt = mk_union([ctx.t.attr_type(c, node.value.attr) for c in ncl])
                    if bt is None:
                        continue
            classes = type_classes(bt)
            if not classes or ('any',) in (bt[1] if bt[0] == 'union' else ()):
                continue
            if isinstance(node.value, ast.Name):
                if fi.qual not in flow:
                    g = ctx.cfg(fi)
                    flow[fi.qual] = (g, cfgmod.reaching_defs(g, [p.lstrip('*') for p in fi.params]))
                g, rd = flow[fi.qual]
                st = ctx.enclosing_stmt(fi, node)
                cn = g.node_of(st)
                if cn is not None and cn.kind not in ('stmt',):
                    # the attribute may sit in the body of a compound statement whose head is cn
                    pass
                fc = _flow_classes(ctx, fi, g, rd, _cfg_node_for(ctx, fi, g, node), node.value.id)
                if fc is not None:
                    classes = [c for c in classes if c in fc] or classes
            classes = _narrow(ctx, fi, node, norm(node.value), classes)
            if not classes:
                continue
            nchecked += 1
            missing = [c for c in classes if not _has_attr(ctx, c, node.attr)]
            key = '%s|%s' % (fi.qual, norm(node))
            ok = not missing
            obs.append(Ob('SA-ATTR', key, ok, ctx.loc(fi, node),
                          '' if ok else '%s may be a %s, which has no attribute %r' % (
                              norm(node.value), ' or '.join(c.split('.')[-1] for c in missing), node.attr)))
        # call signatures into PyCdlib from tools
        if fi.module in TOOLS:
            for c in ctx.calls(fi):
                for cal in c.callees:
                    if cal.cls is not pc or cal.name.startswith('__'):
                        continue
                    params = cal.params[1:]
                    has_kw = any(p.startswith('**') for p in params)
                    has_var = any(p.startswith('*') and not p.startswith('**') for p in params)
                    names = [p for p in params if not p.startswith('*')]
                    why = ''
                    npos = len([a for a in c.node.args if not isinstance(a, ast.Starred)])
                    if npos > len(names) and not has_var:
                        why = '%d positional arguments, %s takes %d' % (npos, cal.name, len(names))
                    for kw in c.node.keywords:
                        if kw.arg is not None and kw.arg not in names and not has_kw:
                            why = 'keyword %r is not a parameter of PyCdlib.%s' % (kw.arg, cal.name)
                    nchecked += 1
                    obs.append(Ob('SA-ATTR', '%s|call %s(%s)' % (fi.qual, cal.name, ','.join(k.arg or '**' for k in c.node.keywords)),
                                  not why, ctx.loc(fi, c.node), why))
    if nchecked < 100:
        raise AnalysisError('anchor-vanished: only %d typed attribute accesses checked' % nchecked)
    return obs


def _may_return_none(ctx, fi):
    for n in ctx.own_nodes(fi):
        if isinstance(n, ast.Return) and (n.value is None or (isinstance(n.value, ast.Constant) and n.value.value is None)):
            return True
    return False


@rule('SA-SIB.tool_none')
@props('C20')
def tool_none(ctx):
    obs = []
    n = 0
    for fi in ctx.m.functions.values():
        if fi.module not in TOOLS:
            continue
        g = None
        for c in sorted(ctx.calls(fi), key=lambda c: (c.node.lineno, c.node.col_offset)):
            if c.kind != 'func' or not c.callees or not _may_return_none(ctx, c.callees[0]):
                continue
            # only helpers that return a value on other paths
            if not any(isinstance(x, ast.Return) and x.value is not None and not (isinstance(x.value, ast.Constant) and x.value.value is None)
                       for x in ctx.own_nodes(c.callees[0])):
                continue
            st = ctx.enclosing_stmt(fi, c.node)
            if not (isinstance(st, ast.Assign) and len(st.targets) == 1 and isinstance(st.targets[0], ast.Name) and st.value is c.node):
                continue
            var = st.targets[0].id
            n += 1
            if g is None:
                g = ctx.cfg(fi)
            an = g.node_of(st)

            def transfer(nd, state, lab, var=var, an=an):
                if lab == 'back':
                    return False      # a value left over from a previous iteration is another matter
                if nd is an:
                    return True
                if nd.kind == 'test' and isinstance(nd.ast, ast.Compare) and len(nd.ast.ops) == 1 and \
                        isinstance(nd.ast.left, ast.Name) and nd.ast.left.id == var and \
                        isinstance(nd.ast.comparators[0], ast.Constant) and nd.ast.comparators[0].value is None:
                    isn = isinstance(nd.ast.ops[0], ast.Is)
                    if lab == 'T':
                        return state if isn else False
                    if lab == 'F':
                        return False if isn else state
                if var in cfgmod.node_defs(nd) and nd is not an:
                    return False
                return state
            IN = g.forward(False, transfer, lambda a, b: a or b, start=an)
            bad = None
            for nd in g.nodes:
                if nd is an or not IN.get(nd.id):
                    continue
                if nd.kind == 'test' and isinstance(nd.ast, ast.Compare) and isinstance(nd.ast.left, ast.Name) and nd.ast.left.id == var \
                        and isinstance(nd.ast.comparators[0], ast.Constant) and nd.ast.comparators[0].value is None:
                    continue
                for e in cfgmod.node_exprs(nd):
                    for sub in ast.walk(e):
                        if isinstance(sub, ast.Call):
                            uses = [a for a in list(sub.args) + [k.value for k in sub.keywords]
                                    if isinstance(a, ast.Name) and a.id == var]
                            elts = [x for a in sub.args if isinstance(a, (ast.List, ast.Tuple)) for x in a.elts
                                    if isinstance(x, ast.Name) and x.id == var]
                            if (uses or elts) and norm(sub.func) != 'print':
                                bad = bad or (nd, sub)
            key = '%s|%s = %s(...)' % (fi.qual, var, c.callees[0].name)
            # one obligation per assignment site, keyed with an index of appearance
            idx = sum(1 for o in obs if o.key.startswith(key))
            obs.append(Ob('SA-SIB.tool_none', '%s#%d' % (key, idx), bad is None, ctx.loc(fi, st),
                          '' if bad is None else '%s may be None here (refused name) and still reaches %s at line %d: the sibling branches `continue`'
                          % (var, norm(bad[1].func), bad[1].lineno)))
    if n < 3:
        raise AnalysisError('anchor-vanished: build_iso_path call sites (%d)' % n)
    return obs


def _eval_bool(expr, env):
    if isinstance(expr, ast.BoolOp):
        vals = [_eval_bool(v, env) for v in expr.values]
        if any(v is None for v in vals):
            return None
        return all(vals) if isinstance(expr.op, ast.And) else any(vals)
    if isinstance(expr, ast.UnaryOp) and isinstance(expr.op, ast.Not):
        v = _eval_bool(expr.operand, env)
        return None if v is None else (not v)
    if isinstance(expr, ast.Attribute) and isinstance(expr.value, ast.Name) and expr.value.id == 'args':
        return env.get(expr.attr)
    return None


@rule('SA-SIB.tool_options')
@props('C20')
def tool_options(ctx):
    obs = []
    n = 0
    for fi in ctx.m.functions.values():
        if fi.module != 'tool_genisoimage':
            continue
        for node in ctx.own_nodes(fi):
            tests = []
            if isinstance(node, (ast.If, ast.While)):
                tests.append(node.test)
            elif isinstance(node, ast.IfExp):
                tests.append(node.test)
            elif isinstance(node, ast.Assign) and isinstance(node.value, (ast.BoolOp, ast.UnaryOp, ast.Attribute)) and fi.module == 'tool_genisoimage':
                # a temporary that names an option expression (`use_udf = args.udf or args.UDF`) is judged where it is computed
                if any(isinstance(x, ast.Attribute) and isinstance(x.value, ast.Name) and x.value.id == 'args' and
                       any(x.attr in p for p, _ in OPTION_PAIRS) for x in ast.walk(node.value)):
                    tests.append(node.value)
            for t in tests:
                # maximal sub-expressions built only from option attributes
                for sub in _option_subexprs(t):
                    names = set(x.attr for x in ast.walk(sub) if isinstance(x, ast.Attribute) and isinstance(x.value, ast.Name) and x.value.id == 'args')
                    pairs = [p for p, _ in OPTION_PAIRS if names & p]
                    if not pairs:
                        continue
                    n += 1
                    allnames = sorted(set().union(*pairs) | names)
                    ok = True
                    table = {}
                    for vals in itertools.product([False, True], repeat=len(allnames)):
                        env = dict(zip(allnames, vals))
                        v = _eval_bool(sub, env)
                        if v is None:
                            ok = None
                            break
                        proj = tuple(any(env[m] for m in sorted(p)) for p in pairs) + tuple(env[x] for x in allnames if not any(x in p for p in pairs))
                        if proj in table and table[proj] != v:
                            ok = False
                        table.setdefault(proj, v)
                    if ok is None:
                        continue
                    key = '%s|%s' % (fi.qual, norm(sub))
                    obs.append(Ob('SA-SIB.tool_options', key, ok, ctx.loc(fi, sub),
                                  '' if ok else 'the options %s are synonyms, but this test distinguishes them: it is not a function of their disjunction'
                                  % ' / '.join('{%s}' % ','.join(sorted(p)) for p in pairs)))
    if n < 2:
        raise AnalysisError('anchor-vanished: option tests (%d)' % n)
    return obs


def _only_options(e):
    if isinstance(e, ast.BoolOp):
        return all(_only_options(v) for v in e.values)
    if isinstance(e, ast.UnaryOp) and isinstance(e.op, ast.Not):
        return _only_options(e.operand)
    return isinstance(e, ast.Attribute) and isinstance(e.value, ast.Name) and e.value.id == 'args'


def _option_subexprs(t):
    if _only_options(t):
        return [t]
    if isinstance(t, ast.BoolOp):
        opts = [v for v in t.values if _only_options(v)]
        rest = [v for v in t.values if not _only_options(v)]
        out = []
        if opts:
            if len(opts) == 1:
                out.append(opts[0])
            else:
                out.append(ast.BoolOp(op=t.op, values=opts))
        for r in rest:
            out.extend(_option_subexprs(r))
        return out
    if isinstance(t, ast.UnaryOp) and isinstance(t.op, ast.Not):
        return _option_subexprs(t.operand)
    return []


@rule('SA-DEDUP')
@props('C20')
def dedup(ctx):
    fi = ctx.func('tool_genisoimage.main')
    obs = []
    g = ctx.cfg(fi)
    dom = g.dominators()
    targets = []
    for n in g.nodes:
        if n.kind == 'stmt' and isinstance(n.ast, ast.Assign) and len(n.ast.targets) == 1 and \
                isinstance(n.ast.targets[0], ast.Name) and n.ast.targets[0].id == 'duplicate_name' and \
                not (isinstance(n.ast.value, ast.Constant) and n.ast.value.value is None):
            targets.append(n)
    if not targets:
        raise AnalysisError('anchor-vanished: duplicate_name assignment in genisoimage')
    def bytewise_dominates(f, gg, dd, n):
        # a dominating test whose condition contains a byte-wise comparison
        for d in dd[n.id]:
            dn = gg.nodes[d]
            if dn.kind != 'test':
                continue
            for sub in ast.walk(dn.ast):
                if isinstance(sub, ast.Call):
                    fn = norm(sub.func)
                    if fn == 'filecmp.cmp':
                        sh = [k for k in sub.keywords if k.arg == 'shallow']
                        pos = sub.args[2] if len(sub.args) > 2 else None
                        val = sh[0].value if sh else pos
                        if val is not None and isinstance(val, ast.Constant) and val.value is False:
                            return True
                    if fn.endswith('same_contents') or fn.endswith('files_equal'):
                        return True
        return False

    for tn in targets:
        ok = bytewise_dominates(fi, g, dom, tn)
        val = tn.ast.value
        if not ok and isinstance(val, ast.Call):
            # the decision is taken in a helper of the tool: every result of it other than None is
            # dominated, in the helper, by the byte-wise comparison
            cs, kind = ctx.t._resolve(val, fi)
            callee = [c for c in cs if c.module == fi.module] if kind == 'func' else []
            if len(callee) == 1:
                h = callee[0]
                hg = ctx.cfg(h)
                hdom = hg.dominators()
                rets = [n for n in hg.nodes if n.kind == 'stmt' and isinstance(n.ast, ast.Return) and n.ast.value is not None and
                        not (isinstance(n.ast.value, ast.Constant) and n.ast.value.value is None)]
                ok = bool(rets) and all(bytewise_dominates(h, hg, hdom, r) for r in rets)
        obs.append(Ob('SA-DEDUP', '%s|duplicate_name = %s' % (fi.qual, norm(tn.ast.value)), ok, ctx.loc(fi, tn.ast),
                      '' if ok else 'two files are declared identical (and hard-linked) on equal size and equal 32-bit hash only; '
                      'no byte-wise comparison (filecmp.cmp(..., shallow=False)) dominates the decision'))
    return obs


@rule('SA-STR.tool')
@props('C20', 'C18')
def str_tool(ctx):
    """build_iso_path: the collision prefix that is combined with a number (and, for files, with the
    extension) must consist of identifier characters only - i.e. be cut from the mangled basename, not
    from the joined name that already contains the '.' and ';' separators."""
    from .. import strdom
    from .strrule import _allowed_classes
    fi = ctx.func('tool_genisoimage.build_iso_path')
    allowed, _ = _allowed_classes(ctx)
    funcs = {nm: ctx.func('utils.' + nm) for nm in ('truncate_basename', 'mangle_file_for_iso9660', 'mangle_dir_for_iso9660')}
    obs = []
    for level in (1, 2, 3):
        for is_dir in (True, False):
            it = strdom.Interp(ctx, funcs, watch=('prefix', 'tmp'))
            it.run(fi, [strdom.TOP, strdom.S(1, strdom.INF, strdom.ALL), level, is_dir])
            pv = it.watched.get('prefix')
            key = '%s|level %d|is_dir %s|collision prefix' % (fi.qual, level, is_dir)
            if pv is None:
                raise AnalysisError('anchor-vanished: local `prefix` in build_iso_path')
            bad = (pv.chars - allowed) if isinstance(pv, strdom.S) else {'?'}
            ok = not bad
            obs.append(Ob('SA-STR.tool', key, ok, ctx.loc(fi, fi.node),
                          '' if ok else 'the prefix used to number colliding names may contain %s: it is cut from the joined name '
                          '(basename + separators + extension), so the renamed entry can carry a second separator and is refused by add_file'
                          % sorted(bad)))
            if level == 1 and isinstance(pv, strdom.S):
                # length of the renumbered base name: prefix + the digits of the largest number that can be formatted
                key2 = '%s|level 1|is_dir %s|renumbered length' % (fi.qual, is_dir)
                var = _variable_width(ctx, fi)
                if var is not None:
                    # '%s%0*d' % (prefix, W, n) with prefix = base[:K - W]: the name is K characters as long as n < 10 ** W
                    ok2, why2 = var
                    obs.append(Ob('SA-STR.tool', key2, ok2, ctx.loc(fi, fi.node), why2))
                    continue
                mx = _max_collision_number(ctx, fi)
                if mx is None:
                    obs.append(Ob('SA-STR.tool', key2, False, ctx.loc(fi, fi.node),
                                  'the collision counter has no recognisable upper bound: the renumbered name grows without limit'))
                else:
                    digits = max(_numbered_format(ctx, fi)[2] or 1, len(str(mx)))
                    total = pv.hi + digits
                    ok2 = total <= 8
                    obs.append(Ob('SA-STR.tool', key2, ok2, ctx.loc(fi, fi.node),
                                  '' if ok2 else 'a colliding name is renumbered as prefix (up to %s characters) + %%.03d of a counter that can reach %d (%d digits): '
                                  '%s characters, the level-1 limit for the base name is 8 - the library refuses the name the tool derived'
                                  % (pv.hi, mx, digits, total)))
    return obs


def _variable_width(ctx, fi):
    """The renumbered name is built with a width that is itself a variable: `'%s%0*d' % (prefix, W, n)`.  Returns None if
    that is not the form used, else (ok, why): ok iff the prefix is cut as `base[:K - W]` with a constant K <= 8, the same
    W, and the counter never has more than W digits (it is reset, or the search given up, when `n == 10 ** W`)."""
    from .fmtstr import DIRECTIVE
    for n in ctx.own_nodes(fi):
        if not (isinstance(n, ast.BinOp) and isinstance(n.op, ast.Mod) and isinstance(n.left, ast.Constant) and isinstance(n.left.value, str) and
                isinstance(n.right, ast.Tuple)):
            continue
        args = list(n.right.elts)
        i = 0
        for m in DIRECTIVE.finditer(n.left.value):
            if m.group('c') == '%':
                continue
            star = (m.group('w') == '*') or (m.group('p') == '*')
            if m.group('c') in 'di' and star and i + 1 < len(args) and isinstance(args[i], ast.Name) and isinstance(args[i + 1], ast.Name):
                W, cnt = args[i].id, args[i + 1].id
                pre = args[0].id if isinstance(args[0], ast.Name) else None
                cuts = [x for x in ctx.own_nodes(fi) if isinstance(x, ast.Assign) and len(x.targets) == 1 and isinstance(x.targets[0], ast.Name) and
                        x.targets[0].id == pre and isinstance(x.value, ast.Subscript) and isinstance(x.value.slice, ast.Slice) and x.value.slice.lower is None]
                if not pre or len(cuts) != 1:
                    return False, 'the prefix of the renumbered name is not cut by one slice `base[:K - %s]`' % W
                up = cuts[0].value.slice.upper
                K = None
                if isinstance(up, ast.BinOp) and isinstance(up.op, ast.Sub) and isinstance(up.left, ast.Constant) and isinstance(up.right, ast.Name) and up.right.id == W:
                    K = up.left.value
                if K is None or not isinstance(K, int) or K > 8:
                    return False, 'the prefix is cut to `%s` characters and the number is padded to %s digits: together they are not bounded by the level-1 limit of 8' % (norm(up), W)
                caps = [x for x in ctx.own_nodes(fi) if isinstance(x, ast.If) and isinstance(x.test, ast.Compare) and len(x.test.ops) == 1 and
                        isinstance(x.test.ops[0], (ast.Eq, ast.GtE)) and norm(x.test.left) == cnt and norm(x.test.comparators[0]) == '10 ** %s' % W]
                if not caps:
                    return False, 'nothing keeps the counter `%s` below 10 ** %s: once it has more digits than the padding the renumbered name is longer than %d' % (cnt, W, K)
                resets = any(isinstance(y, ast.Return) or (isinstance(y, ast.Assign) and any(norm(t) == cnt for t in y.targets) and isinstance(y.value, ast.Constant))
                             for x in caps for st in x.body for y in ast.walk(st))
                return (True, '') if resets else (False, 'the test `%s == 10 ** %s` neither resets the counter nor gives up' % (cnt, W))
            i += 1 + (m.group('w') == '*') + (m.group('p') == '*')
    return None


def _numbered_format(ctx, fi):
    """(expression node, name of the integer that is formatted into the renumbered name, minimum number of digits) for
    the `'%s%.03d' % (prefix, n)` / `'{}{:03d}'.format(prefix, n)` / f-string that builds the renumbered name"""
    import re as _re
    import string as _string
    for n in ctx.own_nodes(fi):
        if isinstance(n, ast.BinOp) and isinstance(n.op, ast.Mod) and isinstance(n.left, ast.Constant) and isinstance(n.left.value, str):
            from .fmtstr import DIRECTIVE
            args = list(n.right.elts) if isinstance(n.right, ast.Tuple) else [n.right]
            i = 0
            for m in DIRECTIVE.finditer(n.left.value):
                if m.group('c') == '%':
                    continue
                if m.group('c') in 'di' and i < len(args) and isinstance(args[i], ast.Name):
                    w = m.group('p') or m.group('w') or '1'
                    return n, args[i].id, int(w) if w.isdigit() else 1
                i += 1
        if isinstance(n, ast.Call) and isinstance(n.func, ast.Attribute) and n.func.attr == 'format' and isinstance(n.func.value, ast.Constant) and \
                isinstance(n.func.value.value, str):
            i = 0
            for _lit, field, spec, _conv in _string.Formatter().parse(n.func.value.value):
                if field is None:
                    continue
                idx = int(field) if field.isdigit() else i
                if spec and spec.endswith('d') and idx < len(n.args) and isinstance(n.args[idx], ast.Name):
                    m = _re.search(r'(\d+)d$', spec)
                    return n, n.args[idx].id, int(m.group(1).lstrip('0') or '0') if m else 1
                i += 1
        if isinstance(n, ast.JoinedStr):
            for v in n.values:
                if isinstance(v, ast.FormattedValue) and isinstance(v.value, ast.Name) and v.format_spec is not None:
                    spec = ''.join(x.value for x in v.format_spec.values if isinstance(x, ast.Constant))
                    if spec.endswith('d'):
                        m = _re.search(r'(\d+)d$', spec)
                        return n, v.value.id, int(m.group(1).lstrip('0') or '0') if m else 1
    return None, None, None


def _max_collision_number(ctx, fi):
    """largest value of the collision counter that can reach the formatting of the renumbered name in build_iso_path"""
    fmt, counter, _digits = _numbered_format(ctx, fi)
    if fmt is None:
        raise AnalysisError('anchor-vanished: formatting of the renumbered name (prefix + zero-padded number) in build_iso_path')
    if counter is None:
        return None
    par = ctx.parents(fi)
    loop = fmt
    while loop is not None and not isinstance(loop, (ast.While, ast.For)):
        loop = par.get(id(loop))
    if loop is None:
        return None
    bounds = []
    if isinstance(loop, ast.While) and isinstance(loop.test, ast.Compare) and len(loop.test.ops) == 1 and \
            isinstance(loop.test.left, ast.Name) and loop.test.left.id == counter and isinstance(loop.test.comparators[0], ast.Constant):
        k = loop.test.comparators[0].value
        if isinstance(loop.test.ops[0], ast.LtE):
            bounds.append(k)
        elif isinstance(loop.test.ops[0], ast.Lt):
            bounds.append(k - 1)
    if isinstance(loop, ast.For) and isinstance(loop.iter, ast.Call) and norm(loop.iter.func) == 'range' and loop.iter.args and \
            isinstance(loop.iter.args[-1 if len(loop.iter.args) < 3 else 1], ast.Constant):
        bounds.append(loop.iter.args[-1 if len(loop.iter.args) < 3 else 1].value - 1)
    for n in ast.walk(loop):
        if isinstance(n, ast.If) and isinstance(n.test, ast.Compare) and len(n.test.ops) == 1 and isinstance(n.test.left, ast.Name) and \
                n.test.left.id == counter and isinstance(n.test.comparators[0], ast.Constant) and n.body and \
                isinstance(n.body[-1], (ast.Return, ast.Break, ast.Raise)):
            k = n.test.comparators[0].value
            op = n.test.ops[0]
            if isinstance(op, (ast.Eq, ast.GtE)):
                bounds.append(k - 1)
            elif isinstance(op, ast.Gt):
                bounds.append(k)
    return min(bounds) if bounds else None


@rule('SA-SIB.tool_symlink')
@props('C20')
def tool_symlink(ctx):
    """A symbolic link is stored with the text the source tree has, in every view that stores one.

    pycdlib-genisoimage hands the link text to add_symlink twice - `rr_path` for the Rock Ridge view and
    `udf_target` for the UDF view.  Both have to be the verbatim result of os.readlink() on the same local path:
    any transformation (normpath collapses `./x`, `a//b`, `a/../b` and a trailing slash) or a different source
    makes one view of the image disagree with the tree, silently.  For each add_symlink call of the tool, every
    non-None reaching definition of either argument expands to the same `os.readlink(<path>)` call."""
    from .. import expand as ex
    obs = []
    n = 0
    for fi in ctx.m.functions.values():
        if not ctx.m.modules[fi.module].is_tool:
            continue
        calls = [c for c in ctx.own_nodes(fi) if isinstance(c, ast.Call) and isinstance(c.func, ast.Attribute) and c.func.attr == 'add_symlink']
        if not calls:
            continue
        g, RD = ex._rd(ctx, fi)
        for c in calls:
            kws = dict((k.arg, k.value) for k in c.keywords if k.arg in ('rr_path', 'udf_target'))
            if len(kws) < 2:
                continue
            n += 1
            st = ctx.enclosing_stmt(fi, c)
            gn = g.node_of(st)
            srcs = {}
            for arg, v in kws.items():
                vals = set()
                if isinstance(v, ast.Name):
                    for nm, dnid in RD.get(gn.id, ()) or ():
                        if nm != v.id:
                            continue
                        ds = g.nodes[dnid].stmt
                        if isinstance(ds, ast.Assign) and len(ds.targets) == 1 and isinstance(ds.targets[0], ast.Name):
                            if isinstance(ds.value, ast.Constant) and ds.value.value is None:
                                continue
                            vals.add(norm(ex.expand(ctx, fi, ds.value, ds)))
                        else:
                            vals.add('<%s>' % norm(ds)[:40])
                elif not (isinstance(v, ast.Constant) and v.value is None):
                    vals.add(norm(ex.expand(ctx, fi, v, st)))
                srcs[arg] = vals
            key = '%s|add_symlink link text' % fi.qual
            allv = srcs['rr_path'] | srcs['udf_target']
            verbatim = all(s.startswith('os.readlink(') and s.endswith(')') and s.count('(') == 1 for s in allv)
            same = srcs['rr_path'] == srcs['udf_target'] and len(allv) == 1
            ok = verbatim and same
            why = ''
            if not verbatim:
                why = 'the link text is not the verbatim result of os.readlink(): %s' % '; '.join(
                    '%s = %s' % (a, ' | '.join(sorted(v)) or 'None') for a, v in sorted(srcs.items()))
            elif not same:
                why = 'the Rock Ridge and UDF views get different link texts: %s' % '; '.join('%s = %s' % (a, ' | '.join(sorted(v))) for a, v in sorted(srcs.items()))
            obs.append(Ob('SA-SIB.tool_symlink', key, ok, ctx.loc(fi, c),
                          '' if ok else why + ' - a link whose text is not in normal form (./a, sub/, a//b, a/../b) comes back changed in that view of the image'))
    if n < 1:
        raise AnalysisError('anchor-vanished: add_symlink call of pycdlib-genisoimage with rr_path and udf_target')
    return obs


@rule('SA-SIB.tool_views')
@props('C20')
def tool_views(ctx):
    """An operation on one view of the image is governed by that view's own switches.

    pycdlib-genisoimage keeps, per source file, a path and a hide flag for each view (`joliet_path` / `hide_joliet`,
    `udf_path` / `hide_udf`, ...).  A library call that acts on a single view - its only view keyword is `udf_new_path=`,
    `joliet_path=`, ... (`*_old_path` names the source of a link, not a view) - may be guarded by tests on that view's
    variables and on general ones, not by another view's: `if udf_path is not None and not hide_joliet:` makes the UDF
    entry of a file depend on whether it is hidden from Joliet."""
    from .. import expand as ex
    VIEWS = ('joliet', 'udf')
    obs = []
    n = 0
    for fi in ctx.m.functions.values():
        if not ctx.m.modules[fi.module].is_tool:
            continue
        for c in ctx.own_nodes(fi):
            if not (isinstance(c, ast.Call) and isinstance(c.func, ast.Attribute) and c.keywords):
                continue
            kv = set()
            for k in c.keywords:
                if k.arg is None or k.arg.endswith('_old_path'):
                    continue
                for v in VIEWS:
                    if k.arg.startswith(v + '_') or ('_' + v + '_') in k.arg:
                        kv.add(v)
            other_kw = [k.arg for k in c.keywords if k.arg and not k.arg.endswith('_old_path') and not any(k.arg.startswith(v + '_') or ('_' + v + '_') in k.arg for v in VIEWS)]
            if len(kv) != 1 or any(a.startswith('iso_') or a.startswith('rr_') for a in other_kw):
                continue          # acts on several views at once (add_file(iso, rr, joliet, udf)): governed by all of them
            view = next(iter(kv))
            st = ctx.enclosing_stmt(fi, c)
            foreign = []
            for test, pol, _at in ex.conditions(ctx, fi, st, True):
                for t, p in ex.conjuncts(test, pol):
                    for nm in ast.walk(t):
                        ident = nm.id if isinstance(nm, ast.Name) else nm.attr if isinstance(nm, ast.Attribute) else None
                        if ident:
                            for w in VIEWS:
                                if w != view and w in ident.lower():
                                    foreign.append((norm(t), ident))
            n += 1
            key = '%s|%s(%s)' % (fi.qual, norm(c.func), ', '.join(k.arg for k in c.keywords if k.arg))
            obs.append(Ob('SA-SIB.tool_views', key, not foreign, ctx.loc(fi, c),
                          '' if not foreign else 'this call acts on the %s view only, but it is guarded by `%s`, which tests `%s` - a switch of another view: whether the entry '
                          'appears in the %s view then depends on how the file is treated in the other one' % (view, foreign[0][0], foreign[0][1], view)))
    if n < 4:
        raise AnalysisError('anchor-vanished: single-view library calls in the tools (%d)' % n)
    return obs
