"""
pycdlib-genisoimage -scan-for-duplicates does not get along with -hide /
-hide-joliet / -hide-udf: when the first copy of a duplicated content is
hidden from the ISO9660 tree, the later add_hard_link(iso_old_path=...) dies
with 'Could not find path'; and files added as duplicates are never hidden.
The image must list the same names with and without -scan-for-duplicates.
"""
import io
import os
import shutil
import subprocess
import sys
import tempfile

checkout = os.path.abspath(sys.argv[1])
sys.path.insert(0, checkout)
import pycdlib  # noqa: E402


def listing(isoname):
    """All names (and file contents) in the three namespaces of the image."""
    result = {}
    iso = pycdlib.PyCdlib()
    iso.open(isoname)
    try:
        for key in ('iso_path', 'joliet_path', 'udf_path'):
            entries = []
            for dirname, dirlist, filelist in iso.walk(**{key: '/'}):
                for name in dirlist:
                    entries.append((dirname.rstrip('/') + '/' + name, None))
                for name in filelist:
                    full = dirname.rstrip('/') + '/' + name
                    out = io.BytesIO()
                    iso.get_file_from_iso_fp(out, **{key: full})
                    entries.append((full, out.getvalue()))
            result[key] = sorted(entries)
    finally:
        iso.close()
    return result


def main():
    tmpdir = tempfile.mkdtemp()
    problems = []
    try:
        # The directory tree is walked breadth first, so 'a.txt' is always
        # seen before its copy 'sub/b.txt'.
        src = os.path.join(tmpdir, 'src')
        os.makedirs(os.path.join(src, 'sub'))
        for name in ('a.txt', os.path.join('sub', 'b.txt')):
            with open(os.path.join(src, name), 'wb') as outfp:
                outfp.write(b'the same content\n')
        with open(os.path.join(src, 'other.txt'), 'wb') as outfp:
            outfp.write(b'some other content\n')

        tool = os.path.join(checkout, 'tools', 'pycdlib-genisoimage')
        env = dict(os.environ, PYTHONPATH=checkout)

        def build(isoname, opts):
            proc = subprocess.run([sys.executable, tool, '-quiet', '-J', '-udf'] + opts + ['-o', isoname, src],
                                  env=env, stdout=subprocess.PIPE,
                                  stderr=subprocess.PIPE, universal_newlines=True)
            if proc.returncode != 0:
                lines = proc.stderr.strip().splitlines() or ['(no stderr)']
                return 'exited with %d: %s' % (proc.returncode, lines[-1])
            return None

        cases = (
            ['-hide', 'a.txt'],                        # first copy hidden
            ['-hide', 'b.txt'],                        # the duplicate hidden
            ['-hide-joliet', 'b.txt'],
            ['-hide-udf', 'b.txt'],
            ['-hide-joliet', 'a.txt', '-hide-udf', 'b.txt'],
        )
        for num, opts in enumerate(cases):
            plain = os.path.join(tmpdir, 'plain%d.iso' % (num))
            dedup = os.path.join(tmpdir, 'dedup%d.iso' % (num))
            err = build(plain, opts)
            if err is not None:
                problems.append('genisoimage %s %s' % (' '.join(opts), err))
                continue
            err = build(dedup, ['-scan-for-duplicates'] + opts)
            if err is not None:
                problems.append('genisoimage -scan-for-duplicates %s %s' % (' '.join(opts), err))
                continue
            want = listing(plain)
            got = listing(dedup)
            for key in sorted(want):
                if want[key] != got[key]:
                    problems.append('%s: %s tree is %r with -scan-for-duplicates, %r without'
                                    % (' '.join(opts), key, [e[0] for e in got[key]], [e[0] for e in want[key]]))
    finally:
        shutil.rmtree(tmpdir, ignore_errors=True)

    if problems:
        for problem in problems:
            print(problem)
        return 1
    print('OK')
    return 0


if __name__ == '__main__':
    sys.exit(main())
