"""F-13.2: add_symlink accepts an ISO9660 identifier that every other edit refuses."""
import io, sys
sys.path.insert(0, '/repo')
import pycdlib
iso = pycdlib.PyCdlib()
iso.new(rock_ridge='1.09')
try:
    iso.add_fp(io.BytesIO(b'x'), 1, '/lower case.;1', rr_name='f')
    print('add_fp accepted the name?!')
except pycdlib.pycdlibexception.PyCdlibInvalidInput:
    pass
try:
    iso.add_symlink(symlink_path='/lower case.;1', rr_symlink_name='sym', rr_path='f')
    refused = False
except pycdlib.pycdlibexception.PyCdlibInvalidInput:
    refused = True
print('add_symlink refused illegal identifier:', refused)
print('OK' if refused else 'DEFECT')
sys.exit(0 if refused else 1)
