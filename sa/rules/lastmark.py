"""SA-COORD.last_mark: the element that stops being last is the one the new element is appended behind (C11, C01).

A record kind whose encoding depends on its position in a list - the El Torito section header carries 0x91 when it is
the final header and 0x90 otherwise - is built with the "last" value and re-marked by a parameterless method whose whole
effect is to store the other constant (`set_record_not_last`).  Where a function appends a new element to such a list
and re-marks an existing one, the element re-marked has to be the one that was last, `L[-1]` (or `L[len(L) - 1]`): with
any other index the headers in between keep the "last" value, a reader that follows the chain stops at the first of
them, and the parser of the library itself refuses the catalog ("Intermediate ... header not properly specified").  With
one or two elements every index denotes the same element, which is why fixed layouts do not show the difference.

Instances are found from the code: a call `L[i].m()` with no arguments whose callee only stores a constant into one
attribute that `new()` of the same class sets to a different constant, in a function that also calls `L.append(...)`.
"""
import ast

from ..registry import rule, props
from ..report import Ob
from ..model import norm, AnalysisError
from .. import expand as ex


def _remarker(ctx, f):
    """(attr, const) if f(self) only stores one constant into one attribute of self (guards that raise aside)"""
    if f.cls is None or len([p for p in f.params if p != 'self']) != 0:
        return None
    stores = []
    for n in ctx.own_nodes(f):
        if isinstance(n, ast.Attribute) and isinstance(n.ctx, ast.Store):
            stores.append(n)
        if isinstance(n, (ast.For, ast.While, ast.Return)) and not (isinstance(n, ast.Return) and n.value is None):
            return None
    if len(stores) != 1:
        return None
    st = ctx.enclosing_stmt(f, stores[0])
    if not (isinstance(st, ast.Assign) and isinstance(st.value, ast.Constant) and isinstance(st.value.value, int) and
            isinstance(stores[0].value, ast.Name) and stores[0].value.id == 'self'):
        return None
    attr = stores[0].attr
    new = f.cls.methods.get('new')
    if new is None:
        return None
    for n in ctx.own_nodes(new):
        if isinstance(n, ast.Assign) and any(isinstance(t, ast.Attribute) and t.attr == attr for t in n.targets) and \
                isinstance(n.value, ast.Constant) and n.value.value != st.value.value:
            return attr, st.value.value
    return None


@rule('SA-COORD.last_mark')
@props('C11', 'C01')
def last_mark(ctx):
    obs = []
    n = 0
    for fi in ctx.m.pkg_functions():
        appends = set()
        for c in ctx.own_nodes(fi):
            if isinstance(c, ast.Call) and isinstance(c.func, ast.Attribute) and c.func.attr in ('append', 'insert'):
                appends.add(norm(c.func.value))
        if not appends:
            continue
        for c in ctx.own_nodes(fi):
            if not (isinstance(c, ast.Call) and not c.args and not c.keywords and isinstance(c.func, ast.Attribute)):
                continue
            # the receiver, through a temporary (`prev = L[-1]; prev.m()`)
            recv = ex.expand(ctx, fi, c.func.value, ctx.enclosing_stmt(fi, c))
            if not isinstance(recv, ast.Subscript):
                continue
            lst = norm(recv.value)
            if lst not in appends:
                continue
            cs, kind = ctx.t._resolve(c, fi)
            cands = [x for x in (cs or ()) if hasattr(x, 'qual')] if kind in ('method', 'func') else []
            rm = [_remarker(ctx, x) for x in cands]
            if not cands or not all(rm):
                continue
            n += 1
            idx = recv.slice
            txt = norm(idx).replace(' ', '')
            ok = txt in ('-1', 'len(%s)-1' % lst.replace(' ', ''))
            obs.append(Ob('SA-COORD.last_mark', '%s|%s[...].%s() before %s.append' % (fi.qual, lst, c.func.attr, lst), ok, ctx.loc(fi, c),
                          '' if ok else '%s appends a new element to %s and re-marks element [%s] as no longer last (%s stores %s = %#x); the element that stops being '
                          'last is %s[-1]: with three or more elements the ones in between keep the final-element value, readers stop at the first of them and '
                          'open() refuses the image the library wrote' % (fi.qual, lst, norm(idx), c.func.attr, rm[0][0], rm[0][1], lst)))
    # a design that derives the mark from the position when the record is written has no such call: no floor
    obs.append(Ob('SA-COORD.last_mark', 'appends that re-mark the previously last element examined', True, '', '%d' % n))
    return obs
