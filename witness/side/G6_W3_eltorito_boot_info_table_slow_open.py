"""
Opening an image takes time out of proportion to its size: for every El Torito
entry without a directory record the boot info table check sums
sector_count*512 bytes word by word in Python, even when that data lies past
the end of the image.  Four 32-byte catalog entries in a 58 KB image cost >10 s.
"""
import io
import struct
import sys
import time

sys.path.insert(0, sys.argv[1])
import pycdlib  # noqa: E402

NUM_ENTRIES = 4
LIMIT_SECONDS = 2.0


def build():
    iso = pycdlib.PyCdlib()
    iso.new()
    iso.add_fp(io.BytesIO(b'boot' * 30), 120, '/BOOT.;1')
    iso.add_eltorito('/BOOT.;1', '/BOOT.CAT;1')
    iso.add_fp(io.BytesIO(b'd' * 4096), 4096, '/DATA.;1')
    out = io.BytesIO()
    iso.write_fp(out)
    data_extent = iso.get_record(iso_path='/DATA.;1').extent_location()
    cat_extent = iso.get_record(iso_path='/BOOT.CAT;1').extent_location()
    iso.close()

    img = bytearray(out.getvalue())
    # The second sector of /DATA.;1 has no directory record of its own; make
    # bytes 8..16 look like the start of a boot info table.
    target = data_extent + 1
    img[target * 2048 + 8:target * 2048 + 16] = struct.pack('<LL', 16, target)
    # Append standalone section entries to the boot catalog (after the
    # validation and the initial entry) that load 0xffff sectors from there.
    for i in range(NUM_ENTRIES):
        off = cat_extent * 2048 + 64 + 32 * i
        img[off:off + 32] = struct.pack('<BBHBBHLB19s', 0x88, 0, 0, 0, 0,
                                        0xffff, target, 0, b'')
    return bytes(img)


def main():
    img = build()
    start = time.time()
    iso = pycdlib.PyCdlib()
    iso.open_fp(io.BytesIO(img))
    elapsed = time.time() - start
    nentries = len(iso.eltorito_boot_catalog.standalone_entries)
    iso.close()
    if nentries != NUM_ENTRIES:
        print('witness is broken: expected %d standalone entries, saw %d' % (NUM_ENTRIES, nentries))
        return 1
    if elapsed > LIMIT_SECONDS:
        print('opening a %d byte image with %d extra El Torito entries took %.1f s (limit %.1f s)'
              % (len(img), NUM_ENTRIES, elapsed, LIMIT_SECONDS))
        return 1
    print('OK')
    return 0


if __name__ == '__main__':
    sys.exit(main())
