"""F-13.4: adding a file under a name that already exists in the directory is accepted: the generic retry in
_add_child_to_dr treats every duplicate *file* as the continuation of a multi-extent file, so the two are
silently merged (the first name then reads the concatenation of both contents)."""
import io, sys
sys.path.insert(0, '/repo')
import pycdlib
bad = []
for kw, path, extra in (({}, '/A.;1', {}), ({'joliet': 3}, '/A.;1', {'joliet_path': '/a'})):
    iso = pycdlib.PyCdlib(); iso.new(**kw)
    iso.add_fp(io.BytesIO(b'one'), 3, path, **extra)
    try:
        iso.add_fp(io.BytesIO(b'two'), 3, path if not extra else '/B.;1', **extra)
        accepted = True
    except pycdlib.pycdlibexception.PyCdlibInvalidInput:
        accepted = False
    o = io.BytesIO()
    if extra:
        iso.get_file_from_iso_fp(o, joliet_path='/a')
    else:
        iso.get_file_from_iso_fp(o, iso_path=path)
    print('%-8s duplicate accepted: %s; first name now reads %r' % ('joliet' if extra else 'iso9660', accepted, o.getvalue()))
    if accepted or o.getvalue() != b'one':
        bad.append(kw)
# a genuine multi-extent file must still work
iso = pycdlib.PyCdlib(); iso.new(interchange_level=3)
class Big(io.RawIOBase):
    def __init__(s, n): s.n, s.p = n, 0
    def read(s, k=-1):
        k = s.n - s.p if k < 0 else min(k, s.n - s.p); s.p += k; return b'\0' * k
    def seek(s, o, w=0): s.p = o if w == 0 else (s.p + o if w == 1 else s.n + o); return s.p
    def tell(s): return s.p
    def readable(s): return True
    def seekable(s): return True
iso.add_fp(Big(0xfffff800 + 4096), 0xfffff800 + 4096, '/BIG.;1')
recs = [c for c in iso.pvd.root_directory_record().children if c.file_identifier() == b'BIG.;1']
print('multi-extent file records:', len(recs))
if len(recs) != 2:
    bad.append('multi-extent')
print('DEFECT' if bad else 'OK')
sys.exit(1 if bad else 0)
