#!/usr/bin/env python
"""
Witness for observation A: a refused add_directory() of a directory that has
to be relocated (Rock Ridge, depth 8) must leave the image object unchanged.

Usage: python W1_refused_relocated_add_directory.py <path-to-checkout>
Prints OK and exits 0 when the behaviour is right; prints what is wrong and
exits 1 otherwise.
"""

import io
import os
import sys
import tempfile
import time

sys.path.insert(0, os.path.abspath(sys.argv[1]))

import pycdlib  # noqa: E402 pylint: disable=wrong-import-position
from pycdlib import pycdlibexception  # noqa: E402 pylint: disable=wrong-import-position

# Pin the clock so that two histories give the same dates.
time.time = lambda: 1500000000.0

DEEP = '/D0/D1/D2/D3/D4/D5/D6'
OTHER = '/D0/D1/D2/D3/D4/D5/E6'

problems = []


def base(with_relocated=False):
    iso = pycdlib.PyCdlib()
    iso.new(interchange_level=3, rock_ridge='1.09')
    path = ''
    for i in range(7):
        path += '/D%d' % (i)
        iso.add_directory(path, rr_name='d%d' % (i))
    if with_relocated:
        # RR_MOVED exists already, and holds a directory named like the one
        # that is going to be refused, so that one would get a longer name.
        # (It lives in another deep directory, so the names do not collide
        # at the original place.)
        iso.add_directory(OTHER, rr_name='e6')
        iso.add_directory(OTHER + '/' + 'L' * 192, rr_name='first')
    return iso


def written(iso):
    out = io.BytesIO()
    iso.write_fp(out)
    return out.getvalue()


def children(iso, path):
    return sorted(c.file_identifier() for c in iso.list_children(iso_path=path))


def scenario(label, kwargs, message, with_relocated=False):
    ref = base(with_relocated)
    ref_bytes = written(ref)
    ref_root = children(ref, '/')
    ref_deep = children(ref, DEEP)
    ref.close()

    iso = base(with_relocated)
    try:
        iso.add_directory(**kwargs)
        problems.append('%s: add_directory was not refused' % (label))
        return
    except pycdlibexception.PyCdlibInvalidInput as e:
        if message not in str(e):
            problems.append('%s: refused with an unexpected message: %s' % (label, e))
    except Exception as e:  # pylint: disable=broad-except
        problems.append('%s: refused with %s: %s' % (label, type(e).__name__, e))
        return

    # (a) the object is as before: same listing, same bytes
    try:
        root = children(iso, '/')
        if root != ref_root:
            problems.append('%s: root listing changed by the refused call: %s' % (label, root))
        deep = children(iso, DEEP)
        if deep != ref_deep:
            problems.append('%s: listing of the parent changed by the refused call: %s' % (label, deep))
    except Exception as e:  # pylint: disable=broad-except
        problems.append('%s: list_children after the refused call raised %s: %s' % (label, type(e).__name__, e))
    try:
        got = written(iso)
        if got != ref_bytes:
            problems.append('%s: image written after the refused call differs (%d vs %d bytes)' % (label, len(got), len(ref_bytes)))
    except Exception as e:  # pylint: disable=broad-except
        problems.append('%s: write_fp after the refused call raised %s: %s' % (label, type(e).__name__, e))

    # (b) a following legal add of a depth-8 directory works as on a fresh
    # object (and creates RR_MOVED when it was not there).
    ref2 = base(with_relocated)
    ref2.add_directory(DEEP + '/OK', rr_name='ok')
    ref2_bytes = written(ref2)
    ref2.close()
    try:
        iso.add_directory(DEEP + '/OK', rr_name='ok')
        if b'RR_MOVED' not in children(iso, '/'):
            problems.append('%s: RR_MOVED missing after the legal add' % (label))
        if b'OK' not in children(iso, '/RR_MOVED'):
            problems.append('%s: relocated directory missing below RR_MOVED' % (label))
        if b'OK' not in children(iso, DEEP):
            problems.append('%s: placeholder missing at the original place' % (label))
        got2 = written(iso)
        if got2 != ref2_bytes:
            problems.append('%s: image after the following legal add differs' % (label))
        else:
            with tempfile.TemporaryDirectory() as tmpdir:
                fname = os.path.join(tmpdir, 'out.iso')
                with open(fname, 'wb') as outfp:
                    outfp.write(got2)
                chk = pycdlib.PyCdlib()
                chk.open(fname)
                if b'OK' not in children(chk, '/RR_MOVED'):
                    problems.append('%s: reopened image lacks /RR_MOVED/OK' % (label))
                chk.close()
    except Exception as e:  # pylint: disable=broad-except
        problems.append('%s: following legal add_directory failed with %s: %s' % (label, type(e).__name__, e))
    iso.close()


# (1) ISO9660 name too long to leave room for the Rock Ridge entries
scenario('long-iso-name',
         {'iso_path': DEEP + '/' + 'L' * 200, 'rr_name': 'long'},
         'Name is too long to leave room for the Rock Ridge entries')

# (2) Rock Ridge name too long for a continuation block
scenario('long-rr-name',
         {'iso_path': DEEP + '/SHORT', 'rr_name': 'x' * 2200},
         'Rock Ridge name or symlink target is too long to fit in a continuation block')

# (3) RR_MOVED exists; the placeholder record fits, but the record of the
# relocated directory gets a suffix against a name collision and does not.
scenario('collision-suffix',
         {'iso_path': DEEP + '/' + 'L' * 192, 'rr_name': 'second'},
         'Name is too long to leave room for the Rock Ridge entries',
         with_relocated=True)

# (4) the same two refusals when RR_MOVED exists already
scenario('long-rr-name-existing-rr-moved',
         {'iso_path': DEEP + '/SHORT', 'rr_name': 'x' * 2200},
         'Rock Ridge name or symlink target is too long to fit in a continuation block',
         with_relocated=True)

if problems:
    for p in problems:
        print(p)
    sys.exit(1)
print('OK')
sys.exit(0)
