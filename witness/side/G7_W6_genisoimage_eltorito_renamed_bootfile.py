"""
pycdlib-genisoimage derives the ISO9660 path of the El Torito boot file by
mangling the name given with -b, not from the path the file was really added
with.  When the boot file (or a directory above it) was renamed because its
mangled name clashed with a sibling, the boot catalog points at the sibling.
"""
import os
import shutil
import struct
import subprocess
import sys
import tempfile

checkout = os.path.abspath(sys.argv[1])
sys.path.insert(0, checkout)
import pycdlib  # noqa: E402,F401


def boot_image(isoname):
    """The first 16 bytes of the initial boot image."""
    with open(isoname, 'rb') as infp:
        infp.seek(17 * 2048)
        record = infp.read(2048)
        if record[7:30] != b'EL TORITO SPECIFICATION':
            return None
        (catalog_extent,) = struct.unpack_from('<L', record, 0x47)
        infp.seek(catalog_extent * 2048)
        catalog = infp.read(2048)
        (rba,) = struct.unpack_from('<L', catalog, 32 + 8)
        infp.seek(rba * 2048)
        return infp.read(16)


def main():
    tmpdir = tempfile.mkdtemp()
    problems = []
    try:
        # At interchange level 1 'bootloader.img' and 'bootloadex.img' both want to be
        # BOOTLOAD.IMG;1, and 'isolinux' and 'isolinuxx' both want to be ISOLINUX;
        # whichever is seen second is renamed (the order is up to os.listdir).
        src = os.path.join(tmpdir, 'src')
        contents = {
            'bootloader.img': b'image-bootloader',
            'bootloadex.img': b'image-bootloadex',
            'isolinux/loader.bin': b'isolinux-loader!',
            'isolinuxx/loader.bin': b'isolinuxx-loader',
        }
        for name, data in contents.items():
            full = os.path.join(src, *name.split('/'))
            if not os.path.isdir(os.path.dirname(full)):
                os.makedirs(os.path.dirname(full))
            with open(full, 'wb') as outfp:
                outfp.write(data.ljust(2048, b'\0'))

        tool = os.path.join(checkout, 'tools', 'pycdlib-genisoimage')
        env = dict(os.environ, PYTHONPATH=checkout)
        isoname = os.path.join(tmpdir, 'out.iso')
        for bootfile in sorted(contents):
            if os.path.exists(isoname):
                os.unlink(isoname)
            proc = subprocess.run([sys.executable, tool, '-quiet', '-b', bootfile,
                                   '-c', 'boot.cat', '-no-emul-boot', '-o', isoname, src],
                                  env=env, stdout=subprocess.PIPE,
                                  stderr=subprocess.PIPE, universal_newlines=True)
            if proc.returncode != 0:
                lines = (proc.stderr.strip() or proc.stdout.strip()).splitlines() or ['(no output)']
                problems.append('genisoimage -b %s exited with %d: %s' % (bootfile, proc.returncode, lines[-1]))
                continue
            image = boot_image(isoname)
            if image != contents[bootfile]:
                problems.append('genisoimage -b %s: the boot catalog points at %r, expected %r' % (bootfile, image, contents[bootfile]))
    finally:
        shutil.rmtree(tmpdir, ignore_errors=True)

    if problems:
        for problem in problems:
            print(problem)
        return 1
    print('OK')
    return 0


if __name__ == '__main__':
    sys.exit(main())
