"""
A plain add_isohybrid() (no EFI/Mac support requested) on an ISO whose boot
catalog also has an EFI (platform 0xef) section raises PyCdlibInternalError
('Attempted to set EFI lba on a non-EFI ISO') and leaves the object unable to
write(); likewise add_isohybrid(efi=True) with two EFI sections raises
'Attempted to set Mac lba on a non-Mac ISO'.
"""
import io
import sys

sys.path.insert(0, sys.argv[1])
import pycdlib  # noqa: E402

BOOT = b'\x00' * 0x40 + b'\xfb\xc0\x78\x70'


def attempt(num_efi, kwargs):
    iso = pycdlib.PyCdlib()
    iso.new()
    iso.add_fp(io.BytesIO(BOOT), len(BOOT), '/ISOLINUX.BIN;1')
    iso.add_eltorito('/ISOLINUX.BIN;1', boot_load_size=4)
    names = ['/EFIBOOT.IMG;1', '/MACBOOT.IMG;1']
    for name in names[:num_efi]:
        iso.add_fp(io.BytesIO(b'E' * 3000), 3000, name)
        iso.add_eltorito(name, efi=True)
    what = 'add_isohybrid(%r) with %d EFI section(s)' % (kwargs, num_efi)
    try:
        iso.add_isohybrid(**kwargs)
        out = io.BytesIO()
        iso.write_fp(out)
        raw = out.getvalue()
    except pycdlib.pycdlibexception.PyCdlibInternalError as e:
        return '%s: PyCdlibInternalError: %s' % (what, e)
    finally:
        iso.close()

    if raw[446] != 0x80:
        return '%s: partition 1 is not bootable' % (what)
    want_efi = kwargs.get('efi', False)
    has_efi = raw[446 + 16:446 + 24] == b'\x00\xfe\xff\xff\xef\xfe\xff\xff'
    if want_efi != has_efi:
        return '%s: EFI partition present: %s' % (what, has_efi)
    if raw[446 + 32:446 + 48] != b'\x00' * 16:
        return '%s: unexpected MBR partition 3' % (what)
    iso2 = pycdlib.PyCdlib()
    iso2.open_fp(io.BytesIO(raw))
    ok = iso2.isohybrid_mbr is not None and iso2.isohybrid_mbr.efi == want_efi and not iso2.isohybrid_mbr.mac
    iso2.close()
    if not ok:
        return '%s: image does not open as the requested kind of hybrid' % (what)
    return None


def main():
    problems = [p for p in (attempt(1, {}), attempt(2, {}), attempt(2, {'efi': True})) if p is not None]
    if problems:
        print('\n'.join(problems))
        return 1
    print('OK')
    return 0


if __name__ == '__main__':
    sys.exit(main())
