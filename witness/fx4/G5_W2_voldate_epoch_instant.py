"""
Witness for observation B: the instant 1970-01-01T00:00:00Z given as
vol_expire_date should be recorded as that instant in the Primary Volume
Descriptor, not as "not specified".

Usage: W2_voldate_epoch_instant.py <path-to-checkout>
"""
import io
import os
import sys
import time

sys.path.insert(0, sys.argv[1])

os.environ['TZ'] = 'UTC0'
time.tzset()

import pycdlib  # noqa: E402  pylint: disable=wrong-import-position


def expiration_field(expire):
    iso = pycdlib.PyCdlib()
    iso.new(vol_expire_date=expire)
    out = io.BytesIO()
    iso.write_fp(out)
    iso.close()
    # Ecma-119 8.4.28: Volume Expiration Date and Time at BP 848 to 864.
    return out.getvalue()[16 * 2048 + 847:16 * 2048 + 864]


def main():
    problems = []

    got = expiration_field(86400.0)
    if got != b'1970010200000000\x00':
        problems.append('vol_expire_date=86400.0 recorded as %r' % (got))

    got = expiration_field(0.0)
    if got != b'1970010100000000\x00':
        problems.append('vol_expire_date=0.0 (1970-01-01T00:00:00Z) recorded as %r' % (got))

    date = pycdlib.dates.VolumeDescriptorDate()
    date.new(0.0)
    if date.record() != b'1970010100000000\x00':
        problems.append('VolumeDescriptorDate.new(0.0) recorded as %r' % (date.record()))

    if problems:
        print('the epoch instant cannot be recorded as a volume date:')
        for problem in problems:
            print('  ' + problem)
        return 1

    print('OK')
    return 0


if __name__ == '__main__':
    sys.exit(main())
