"""
add_isohybrid(mac=True) writes three Apple Partition Map entries (the map
itself, the EFI image and the Mac image), but their start block, block count
and data count stay 0 ('this will get set later' in APMPartHeader.new; nothing
sets them), so the map describes three empty partitions at block 0.
"""
import io
import struct
import sys

sys.path.insert(0, sys.argv[1])
import pycdlib  # noqa: E402

BOOT = b'\x00' * 0x40 + b'\xfb\xc0\x78\x70'


def main():
    iso = pycdlib.PyCdlib()
    iso.new()
    iso.add_fp(io.BytesIO(BOOT), len(BOOT), '/ISOLINUX.BIN;1')
    iso.add_eltorito('/ISOLINUX.BIN;1', boot_load_size=4)
    iso.add_fp(io.BytesIO(b'E' * 3000), 3000, '/EFIBOOT.IMG;1')
    iso.add_eltorito('/EFIBOOT.IMG;1', efi=True)
    iso.add_fp(io.BytesIO(b'M' * 5000), 5000, '/MACBOOT.IMG;1')
    iso.add_eltorito('/MACBOOT.IMG;1', efi=True)
    iso.add_isohybrid(mac=True)
    out = io.BytesIO()
    iso.write_fp(out)
    iso.close()
    raw = out.getvalue()

    iso2 = pycdlib.PyCdlib()
    iso2.open_fp(io.BytesIO(raw))
    extents = [2048 // 2048,  # the map itself starts at block 1
               iso2.get_record(iso_path='/EFIBOOT.IMG;1').extent_location(),
               iso2.get_record(iso_path='/MACBOOT.IMG;1').extent_location()]
    iso2.close()

    problems = []
    if raw[0:4] != b'ER\x08\x00':
        problems.append('no Apple driver descriptor with 2048-byte blocks at the start of the image')
    for i in range(3):
        off = 2048 * (i + 1)
        sig, resv_unused, count, start, blocks = struct.unpack_from('>HHLLL', raw, off)
        name = raw[off + 16:off + 48].rstrip(b'\x00').decode('ascii')
        if sig != 0x504d or count != 3:
            problems.append('APM entry %d: bad signature or map count' % (i + 1))
            continue
        if start != extents[i] or blocks == 0:
            problems.append('APM entry %d (%s): start block %d, block count %d; expected to start at block %d and not to be empty'
                            % (i + 1, name, start, blocks, extents[i]))
    if problems:
        print('\n'.join(problems))
        return 1
    print('OK')
    return 0


if __name__ == '__main__':
    sys.exit(main())
