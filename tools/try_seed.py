#!/venv/bin/python
"""Apply a seeded change to /repo, run the checks, undo it.  usage: try_seed.py <dir with patch.diff [demo.py]> [--baseline] [props...]"""
import subprocess, sys, os, json
d = sys.argv[1]
args = sys.argv[2:]
do_base = '--baseline' in args
props = [a for a in args if not a.startswith('--')]
patch = os.path.join(d, 'patch.diff')
def sh(cmd, **kw):
    return subprocess.run(cmd, shell=True, capture_output=True, text=True, **kw)
st = sh('git -C /repo status --porcelain --untracked-files=no').stdout.strip()
if st:
    print('repo not clean:', st); sys.exit(2)
r = sh('git -C /repo apply --check %s' % patch)
if r.returncode:
    print('patch does not apply:', r.stderr[:300]); sys.exit(2)
sh('git -C /repo apply %s' % patch)
try:
    demo = os.path.join(d, 'demo.py')
    if os.path.exists(demo):
        r = sh('/venv/bin/python %s /repo' % demo, timeout=600)
        print('demo on patched /repo: exit', r.returncode, (r.stdout.strip().splitlines() or [''])[-1][:150])
    if do_base:
        r = sh('/verif/tools/baseline.py', timeout=900)
        print(r.stdout.strip().splitlines()[0])
    man = json.load(open('/verif/MANIFEST.json'))
    from concurrent.futures import ThreadPoolExecutor
    checks = [c for c in man['checks'] if not props or c['property_id'] in props]
    def run(c):
        return c, sh(c['quick_cmd'], cwd='/verif')
    with ThreadPoolExecutor(8) as ex:
        res = list(ex.map(run, checks))
    for c, r in res:
        viol = [l for l in r.stdout.splitlines() if l.startswith('  SA-') or l.startswith('ANALYSIS-ERROR')]
        flag = 'CAUGHT' if r.returncode == 1 else ('ERROR' if r.returncode == 2 else 'silent')
        if flag != 'silent':
            print(flag, c['property_id'])
            for v in viol[:4]:
                print('    ', v[:260])
    print('silent:', ' '.join(c['property_id'] for c, r in res if r.returncode == 0))
finally:
    sh('git -C /repo checkout -- .')
if os.path.exists(os.path.join(d, 'demo.py')):
    r = sh('/venv/bin/python %s /repo' % os.path.join(d, 'demo.py'), timeout=600)
    print('demo on clean /repo: exit', r.returncode, (r.stdout.strip().splitlines() or [''])[-1][:100])
