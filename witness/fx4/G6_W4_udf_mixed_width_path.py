#!/usr/bin/env python3
"""
Witness for observation C (notes item 3): UDF names of mixed width.  The
directory name needs 16-bit characters, the file name does not;
full_path_from_dirrecord() must decode every ancestor with its own encoding.

  python W4_udf_mixed_width_path.py <path-to-checkout>
"""
import os
import shutil
import subprocess
import sys
import tempfile

CHECKOUT = os.path.abspath(sys.argv[1])
sys.path.insert(0, CHECKOUT)

import pycdlib  # noqa: E402,F401  pylint: disable=wrong-import-position,unused-import


def tool(name, *args):
    """Run one of the tools of the checkout; returns (exit code, stdout, stderr)."""
    env = dict(os.environ)
    env['PYTHONPATH'] = CHECKOUT
    proc = subprocess.run([sys.executable, os.path.join(CHECKOUT, 'tools', name)] + list(args),
                          env=env, stdout=subprocess.PIPE, stderr=subprocess.PIPE,
                          universal_newlines=True, check=False)
    return proc.returncode, proc.stdout, proc.stderr


def last_line(text):
    lines = text.strip().splitlines()
    return lines[-1] if lines else ''


def make_tree(root, files):
    """files: relative path -> bytes (file), (target,) (symlink) or None (directory)."""
    os.makedirs(root)
    for rel, content in files.items():
        full = os.path.join(root, rel)
        if content is None:
            os.makedirs(full, exist_ok=True)
            continue
        os.makedirs(os.path.dirname(full), exist_ok=True)
        if isinstance(content, tuple):
            os.symlink(content[0], full)
        else:
            with open(full, 'wb') as outfp:
                outfp.write(content)


def tree(root):
    """relative path -> 'dir', ('link', target) or the file contents."""
    out = {}
    for dirpath, dirnames, filenames in os.walk(root):
        for name in dirnames + filenames:
            full = os.path.join(dirpath, name)
            rel = os.path.relpath(full, root)
            if os.path.islink(full):
                out[rel] = ('link', os.readlink(full))
            elif os.path.isdir(full):
                out[rel] = 'dir'
            else:
                with open(full, 'rb') as infp:
                    out[rel] = infp.read()
    return out


def diff_trees(want, got):
    problems = []
    for rel in sorted(set(want) - set(got)):
        problems.append('missing from the extracted tree: %s' % (rel))
    for rel in sorted(set(got) - set(want)):
        problems.append('not in the source tree: %s' % (rel))
    for rel in sorted(set(got) & set(want)):
        if got[rel] != want[rel]:
            problems.append('%s differs: source %r, extracted %r' % (rel, want[rel][:80], got[rel][:80]))
    return problems


def build(tmp, files, opts):
    """Build tmp/out.iso from a fresh tmp/src; returns (src, isoname, exit code, stderr)."""
    src = os.path.join(tmp, 'src')
    make_tree(src, files)
    isoname = os.path.join(tmp, 'out.iso')
    ret, _, err = tool('pycdlib-genisoimage', '-quiet', *(list(opts) + ['-o', isoname, src]))
    return src, isoname, ret, err


def extract(tmp, isoname, view):
    """Extract one view to a fresh directory; returns (dest, exit code, stderr)."""
    dest = os.path.join(tmp, 'dest_' + view)
    os.makedirs(dest)
    ret, _, err = tool('pycdlib-extract-files', '-path-type', view, '-extract-to', dest, isoname)
    return dest, ret, err


def run(check):
    tmp = tempfile.mkdtemp()
    try:
        problems = check(tmp)
    finally:
        shutil.rmtree(tmp, ignore_errors=True)
    if problems:
        for problem in problems:
            print(problem)
        return 1
    print('OK')
    return 0


def check(tmp):
    problems = []
    dirname = 'Ωdir'

    # Library level.
    import io
    iso = pycdlib.PyCdlib()
    iso.new(udf='2.60')
    iso.add_directory('/DIR1', udf_path='/' + dirname)
    iso.add_fp(io.BytesIO(b'aa\n'), 3, '/DIR1/A.TXT;1', udf_path='/' + dirname + '/a.txt')
    iso.add_directory('/DIR2', udf_path='/plain')
    iso.add_fp(io.BytesIO(b'bb\n'), 3, '/DIR2/B.TXT;1', udf_path='/plain/Ω.txt')
    for path in ('/' + dirname + '/a.txt', '/plain/Ω.txt', '/' + dirname, '/plain'):
        rec = iso.get_record(udf_path=path)
        try:
            full = iso.full_path_from_dirrecord(rec)
        except (UnicodeError, ValueError) as e:
            full = '%s: %s' % (type(e).__name__, e)
        if full != path:
            problems.append('full_path_from_dirrecord(get_record(udf_path=%r)) returns %r' % (path, full))
    iso.close()

    # Tool level.
    src, isoname, ret, err = build(tmp, {dirname + '/a.txt': b'aa\n', 'plain/Ω.txt': b'bb\n'}, ['-udf'])
    if ret != 0:
        problems.append('pycdlib-genisoimage failed: %s' % (last_line(err)))
        return problems
    dest, ret, err = extract(tmp, isoname, 'udf')
    if ret != 0:
        problems.append('pycdlib-extract-files failed: %s' % (last_line(err)))
    problems.extend(diff_trees(tree(src), tree(dest)))
    return problems


if __name__ == '__main__':
    sys.exit(run(check))
