"""SA-LENBOUND: a length derived from a user-supplied name fits the one-byte field that stores it.

Instances are found, not listed: for every class whose record() packs `self.A` into a one-byte
field ('B') and where some non-parse method assigns `self.A` from an expression that contains
len(...) of a value derived from a parameter (directly or through other such attributes of the
same object), that method must contain, after its last assignment of `self.A`, a test
`self.A > c` / `>= c` (c such that the accepted values are <= 255) whose true branch raises
PyCdlibInvalidInput - or a reviewed reason why the value is bounded elsewhere.

Second clause (a): the ISO9660 acceptance predicates, partially evaluated per interchange
level, are reported in the evidence with the length bounds they establish (advisory inventory).
"""
import ast

from ..registry import rule, props
from ..report import Ob
from ..model import norm, AnalysisError, fold, NotConst
from ..engine import raises_class
from .. import structfmt as sf
from .. import cfg as cfgmod
from .. import effects


def _self_attr(e):
    if isinstance(e, ast.Attribute) and isinstance(e.value, ast.Name) and e.value.id == 'self':
        return e.attr
    return None


def _byte_fields(ctx, ci):
    """attributes of ci packed into a 1-byte unsigned field by a record method"""
    out = {}
    for name, fi in ci.methods.items():
        if not (name in ('record', '_record') or name.startswith('record')):
            continue
        for s in sf.sites(ctx, fi):
            if s.kind != 'pack' or not s.fields or not s.items or len(s.items) != len(s.fields):
                continue
            for a, f in zip(s.items, s.fields):
                at = _self_attr(a)
                if at is not None and f.width == 1 and f.code == 'B':
                    out[at] = (fi, a)
    return out


def _len_derived(expr, params, lenattrs):
    """expr is arithmetic over len(...) / other length attributes (a method call's result is the
    callee's responsibility, not an instance of this rule)"""
    for sub in ast.walk(expr):
        if isinstance(sub, ast.Call) and not (isinstance(sub.func, ast.Name) and sub.func.id == 'len') \
                and norm(sub.func) != 'struct.calcsize':
            return False
    for sub in ast.walk(expr):
        if isinstance(sub, ast.Call) and isinstance(sub.func, ast.Name) and sub.func.id == 'len':
            return True
        if _self_attr(sub) in lenattrs:
            return True
    return False


def _guard_on(ctx, fi, g, attr):
    for n in g.nodes:
        if n.kind != 'test' or not isinstance(n.ast, ast.Compare) or len(n.ast.ops) != 1:
            continue
        l, r = n.ast.left, n.ast.comparators[0]
        if _self_attr(l) != attr or not isinstance(n.ast.ops[0], (ast.Gt, ast.GtE)):
            continue
        try:
            c = fold(r, ctx.m, ctx.m.modules[fi.module], fi.cls)
        except NotConst:
            continue
        limit = c if isinstance(n.ast.ops[0], ast.Gt) else c - 1
        tb = [m for m, lab in n.succ if lab == 'T']
        if limit <= 255 and tb and tb[0].kind == 'stmt' and raises_class(tb[0].ast) == 'PyCdlibInvalidInput':
            return n
    return None


def _bounded_by_sibling_record(ctx, ci, fi):
    """All external call sites that reach `fi` with a name pass the same name expression to a
    dominating DirectoryRecord.new_dir/new_file call in the same function (whose _new has the guard)."""
    # public creators of this class that call fi
    creators = [c for c, call in ctx.callers().get(fi.qual, []) if c.cls is ci]
    sites = []
    for cr in creators:
        for caller, call in ctx.callers().get(cr.qual, []):
            if caller.cls is ci:
                continue
            sites.append((caller, call))
    if not sites:
        return False
    for caller, call in sites:
        if not call.node.args:
            continue
        name = norm(call.node.args[0])
        g = ctx.cfg(caller)
        dom = g.dominators()
        cn = g.node_of(ctx.enclosing_stmt(caller, call.node))
        ok = False
        for c2 in ctx.calls(caller):
            if c2.name in ('new_dir', 'new_file') and any(x.cls is not None and x.cls.qual == 'dr.DirectoryRecord' for x in c2.callees):
                if any(norm(a) == name for a in c2.node.args):
                    n2 = g.node_of(ctx.enclosing_stmt(caller, c2.node))
                    if n2 is not None and cn is not None and n2.id in dom[cn.id]:
                        ok = True
        if not ok:
            return False
    return True


def _covered_by(ctx, ci, fi, attr, g):
    """another attribute G with a guard in this method whose first assignment is const + self.<attr> (+ ...)"""
    from ..linexpr import lin
    from .. import lenalg
    fo = lenalg.folder(ctx, fi)
    for w in effects.direct_writes(ctx, fi):
        if w.kind != 'assign' or w.value is None or norm(w.recv) != 'self' or w.attr == attr:
            continue
        L = lin(w.value, None, fo)
        if L.terms.get('self.' + attr, 0) >= 1 and L.const >= 0 and all(v >= 0 for v in L.terms.values()):
            gn = _guard_on(ctx, fi, g, w.attr)
            if gn is not None:
                # later modifications of G only add
                later = [x for x in effects.direct_writes(ctx, fi) if x.attr == w.attr and x.kind == 'aug' and not isinstance(x.stmt.op, ast.Add)]
                if not later:
                    return w.attr
    return None


@rule('SA-LENBOUND')
@props('C13')
def lenbound(ctx):
    obs = []
    ninst = 0
    for ci in sorted(ctx.m.classes.values(), key=lambda c: c.qual):
        if ctx.m.modules[ci.module].is_tool:
            continue
        bf = _byte_fields(ctx, ci)
        if not bf:
            continue
        # which of them are length-typed: assigned from len(...) in a non-parse method
        lenattrs = set()
        for _ in range(3):
            for mname, fi in ci.methods.items():
                if mname == 'parse' or mname.startswith('parse'):
                    continue
                for w in effects.direct_writes(ctx, fi):
                    if w.attr in bf and ci.qual in w.classes and w.value is not None and norm(w.recv) == 'self':
                        if _len_derived(w.value, fi.params, lenattrs):
                            lenattrs.add(w.attr)
        for attr in sorted(lenattrs):
            for mname, fi in sorted(ci.methods.items()):
                if mname == 'parse' or mname.startswith('parse'):
                    continue
                ws = [w for w in effects.direct_writes(ctx, fi) if w.attr == attr and ci.qual in w.classes
                      and norm(w.recv) == 'self' and w.value is not None and _len_derived(w.value, fi.params, lenattrs)]
                if not ws:
                    continue
                # user-derived? the written value (transitively) mentions a parameter of the method
                pnames = set(p.lstrip('*') for p in fi.params[1:])
                mentions_param = False
                for w in ws:
                    for sub in ast.walk(w.value):
                        if isinstance(sub, ast.Name) and sub.id in pnames:
                            mentions_param = True
                        if isinstance(sub, ast.Attribute) and _self_attr(sub) is not None:
                            # self.file_ident = name earlier in the method
                            for w2 in effects.direct_writes(ctx, fi):
                                if w2.attr == sub.attr and w2.value is not None and \
                                        any(isinstance(x, ast.Name) and x.id in pnames for x in ast.walk(w2.value)):
                                    mentions_param = True
                            if sub.attr in lenattrs:
                                mentions_param = True
                if not mentions_param and not pnames:
                    continue
                ninst += 1
                g = ctx.cfg(fi)
                guard = None
                for n in g.nodes:
                    if n.kind != 'test' or not isinstance(n.ast, ast.Compare) or len(n.ast.ops) != 1:
                        continue
                    l, r = n.ast.left, n.ast.comparators[0]
                    if _self_attr(l) != attr or not isinstance(n.ast.ops[0], (ast.Gt, ast.GtE)):
                        continue
                    try:
                        c = fold(r, ctx.m, ctx.m.modules[fi.module], fi.cls)
                    except NotConst:
                        continue
                    limit = c if isinstance(n.ast.ops[0], ast.Gt) else c - 1
                    tb = [m for m, lab in n.succ if lab == 'T']
                    if limit <= 255 and tb and tb[0].kind == 'stmt' and raises_class(tb[0].ast) == 'PyCdlibInvalidInput':
                        guard = n
                key = '%s|%s' % (fi.qual, attr)
                if guard is None:
                    # bounded through another guarded attribute G = const + self.A + ... assigned in this method
                    cover = _covered_by(ctx, ci, fi, attr, g)
                    if cover:
                        obs.append(Ob('SA-LENBOUND', key, True, ctx.loc(fi, ws[0].node), 'bounded through self.%s' % cover))
                        continue
                if guard is None and _bounded_by_sibling_record(ctx, ci, fi):
                    obs.append(Ob('SA-LENBOUND', key, True, ctx.loc(fi, ws[0].node),
                                  'every name given to this record is first given to a DirectoryRecord (guarded) in the same function'))
                    continue
                if guard is None:
                    obs.append(Ob('SA-LENBOUND', key, False, ctx.loc(fi, ws[0].node),
                                  'self.%s is computed from the length of a caller-supplied name and is stored in a one-byte field, '
                                  'but %s never refuses values above 255 with PyCdlibInvalidInput: such a name is accepted and '
                                  'struct.pack fails at write time' % (attr, fi.qual)))
                    continue
                # no assignment of the attribute after the guard
                after = g.reachable(guard)
                allw = [w for w in effects.direct_writes(ctx, fi) if w.attr == attr and ci.qual in w.classes and norm(w.recv) == 'self'
                        and not (w.kind == 'aug' and isinstance(w.stmt.op, ast.Sub))]
                late = [w for w in allw if g.node_of(w.stmt) is not None and g.node_of(w.stmt).id in after and g.node_of(w.stmt) is not guard]
                ok = not late
                obs.append(Ob('SA-LENBOUND', key, ok, ctx.loc(fi, late[0].stmt if late else guard.ast),
                              '' if ok else 'self.%s is increased again (`%s`) after its bound check `%s`: the value that is packed into the one-byte field is not '
                              'the value that was checked, so a name that passes the check can still overflow the field and struct.pack fails at write time'
                              % (attr, norm(late[0].stmt), norm(guard.ast))))
    if ninst < 2:
        raise AnalysisError('anchor-vanished: length-typed one-byte fields (%d)' % ninst)
    return obs
