"""SA-GATE.d1: the d-character predicate accepts exactly the strings over A-Z 0-9 _ (C13, C18).

`_check_d1_characters` is the one place where the character rule of interchange levels 1-3 is enforced;
every acceptance predicate, and the language the manglers are compared against (SA-STR), goes through it.
The rule extracts the *language* the predicate accepts from its code and compares it with the standard's
(ECMA-119 7.4.1 d-characters: A-Z, 0-9, _), in whichever of these forms it is written:

  loop        for c in bytearray(name): if c not in SET: raise      (SET folded to integers)
  all/any     if not all(c in SET for c in bytearray(name)): raise  / if any(c not in SET ...): raise
  set algebra if set(bytearray(name)) - SET: raise   /  if not set(bytearray(name)) <= SET: raise
  regex       if not RE.match|fullmatch|search(name): raise         (pattern parsed with re._parser)

For the regex form the accepted language is computed from the parsed pattern: a starred character class
anchored at both ends.  `$` under match()/search() also matches before a trailing newline, so
`^[A-Z0-9_]*$` accepts b'AB\\n' - the language is then larger than the d-characters and the rule reports it;
`\\Z` or fullmatch() are exact.  A `+` instead of `*` refuses the empty extension of every name without a
dot.  Any other form is undecided: analysis error, never a silent pass.

Second part: both identifier predicates apply the character predicate to the parts the standard restricts
(name and extension of a file identifier, the whole directory identifier) on every path on which the
interchange level is below 4.
"""
import ast

from ..registry import rule, props
from ..report import Ob
from ..model import norm, fold, NotConst, AnalysisError
from ..engine import raises_class
from .. import expand as ex

PRED = 'pycdlib._check_d1_characters'
DCHARS = frozenset(list(range(65, 91)) + list(range(48, 58)) + [95])
LEVEL_TESTS_BELOW_4 = ('interchange_level < 4', 'interchange_level != 4', 'interchange_level <= 3',
                       'interchange_level in (1, 2, 3)', '4 > interchange_level', 'interchange_level in [1, 2, 3]')


def _ints(v):
    if isinstance(v, (bytes, bytearray)):
        return frozenset(v)
    if isinstance(v, (set, frozenset, tuple, list)):
        out = set()
        for x in v:
            if isinstance(x, int):
                out.add(x)
            elif isinstance(x, bytes) and len(x) == 1:
                out.add(x[0])
            else:
                return None
        return frozenset(out)
    return None


def _foldset(ctx, fi, e):
    mi = ctx.m.modules[fi.module]
    try:
        return _ints(fold(e, ctx.m, mi, fi.cls))
    except NotConst:
        return None


def _over_param(e, params):
    """is e `P`, `bytearray(P)`, `bytes(P)`, `iter(P)`, `set(P)`, `set(bytearray(P))` for a parameter P"""
    while isinstance(e, ast.Call) and isinstance(e.func, ast.Name) and e.func.id in ('bytearray', 'bytes', 'set', 'frozenset', 'iter', 'memoryview') and len(e.args) == 1:
        e = e.args[0]
    return isinstance(e, ast.Name) and e.id in params


def _raises_invalid_input(ctx, fi, body):
    return any(isinstance(s, ast.Raise) and s.exc is not None and raises_class(s) == 'PyCdlibInvalidInput' for s in body)


def _regex_language(pattern, method, flags=0):
    """(accepted byte set, list of ways the language differs from SET*) for a compiled bytes pattern"""
    import re
    parser = getattr(re, '_parser', None)
    if parser is None:                      # pragma: no cover  (python < 3.11)
        import sre_parse as parser
    c = getattr(re, '_constants', None)
    if c is None:                           # pragma: no cover
        import sre_constants as c
    p = parser.parse(pattern, flags)
    items = list(p)
    why = []
    if p.state.flags & re.MULTILINE:
        return None, ['the pattern is compiled with MULTILINE: ^ and $ match at every line, any name with a legal last line is accepted']
    if p.state.flags & re.IGNORECASE:
        why.append('the pattern ignores case: lower-case letters are accepted')
    start = end = None
    if items and items[0][0] == c.AT and items[0][1] in (c.AT_BEGINNING, c.AT_BEGINNING_STRING):
        start = items.pop(0)[1]
    if items and items[-1][0] == c.AT and items[-1][1] in (c.AT_END, c.AT_END_STRING):
        end = items.pop()[1]
    if len(items) != 1 or items[0][0] not in (c.MAX_REPEAT, c.MIN_REPEAT, getattr(c, 'POSSESSIVE_REPEAT', None)):
        return None, None
    lo, hi, sub = items[0][1]
    sub = list(sub)
    if len(sub) != 1:
        return None, None
    chars = set()
    if sub[0][0] == c.IN:
        neg = False
        for op, av in sub[0][1]:
            if op == c.NEGATE:
                neg = True
            elif op == c.LITERAL:
                chars.add(av)
            elif op == c.RANGE:
                chars.update(range(av[0], av[1] + 1))
            elif op == c.CATEGORY:
                cat = {c.CATEGORY_DIGIT: set(range(48, 58)),
                       c.CATEGORY_WORD: set(range(48, 58)) | set(range(65, 91)) | set(range(97, 123)) | {95},
                       c.CATEGORY_SPACE: {9, 10, 11, 12, 13, 32}}.get(av)
                if cat is None:
                    return None, None
                chars.update(cat)
            else:
                return None, None
        if neg:
            chars = set(range(256)) - chars
    elif sub[0][0] == c.LITERAL:
        chars.add(sub[0][1])
    elif sub[0][0] == c.ANY:
        chars = set(range(256)) - {10}
    else:
        return None, None
    if p.state.flags & re.IGNORECASE:
        chars |= set(x + 32 for x in chars if 65 <= x <= 90) | set(x - 32 for x in chars if 97 <= x <= 122)
    if hi != c.MAXREPEAT:
        why.append('UNDER: the pattern limits the length to %d' % hi)
    if lo > 0:
        why.append('UNDER: the pattern requires at least %d character(s): the empty string (the extension of a name without a dot, '
                   'the name of a file called ".EXT") is refused although it contains no illegal character' % lo)
    if method == 'search' and start is None:
        why.append('search() without a start anchor accepts any prefix')
    if method in ('match', 'search'):
        if end is None:
            why.append('%s() without an end anchor accepts any string that merely starts with legal characters' % method)
        elif end == c.AT_END:
            why.append('`$` under %s() also matches just before a trailing newline: a string of legal characters followed by b"\\n" is accepted '
                       '(use \\Z or fullmatch())' % method)
    return frozenset(chars), why


def d1_language(ctx):
    """-> (frozenset of accepted byte values, [reasons the accepted language is not SET*], form, location node)"""
    fi = ctx.func(PRED)
    params = [p.lstrip('*') for p in fi.params]
    mi = ctx.m.modules[fi.module]
    body = [s for s in fi.node.body if not (isinstance(s, ast.Expr) and isinstance(s.value, ast.Constant))]
    # loop form
    for s in body:
        if isinstance(s, ast.For) and isinstance(s.target, ast.Name) and _over_param(s.iter, params) and not s.orelse:
            v = s.target.id
            for t in s.body:
                if isinstance(t, ast.If) and not t.orelse and _raises_invalid_input(ctx, fi, t.body) and isinstance(t.test, ast.Compare) and \
                        len(t.test.ops) == 1 and isinstance(t.test.ops[0], ast.NotIn) and norm(t.test.left) == v:
                    cs = _foldset(ctx, fi, t.test.comparators[0])
                    if cs is not None and len(s.body) == 1 and len(body) == 1:
                        return cs, [], 'loop', t
    # single `if <test>: raise`
    if len(body) == 1 and isinstance(body[0], ast.If) and not body[0].orelse and _raises_invalid_input(ctx, fi, body[0].body):
        t = body[0].test
        pol = True                       # raise when t is true
        while isinstance(t, ast.UnaryOp) and isinstance(t.op, ast.Not):
            t, pol = t.operand, not pol
        if isinstance(t, ast.Compare) and len(t.ops) == 1 and isinstance(t.ops[0], (ast.Is, ast.IsNot)) and \
                isinstance(t.comparators[0], ast.Constant) and t.comparators[0].value is None:
            if isinstance(t.ops[0], ast.Is):
                pol = not pol            # `m is None` raise  ==  `not m` raise
            t = t.left
        # all()/any()
        if isinstance(t, ast.Call) and isinstance(t.func, ast.Name) and t.func.id in ('all', 'any') and len(t.args) == 1 and \
                isinstance(t.args[0], (ast.GeneratorExp, ast.ListComp)) and len(t.args[0].generators) == 1:
            ge = t.args[0]
            gen = ge.generators[0]
            if isinstance(gen.target, ast.Name) and _over_param(gen.iter, params) and not gen.ifs and isinstance(ge.elt, ast.Compare) and \
                    len(ge.elt.ops) == 1 and norm(ge.elt.left) == gen.target.id:
                cs = _foldset(ctx, fi, ge.elt.comparators[0])
                op = ge.elt.ops[0]
                if cs is not None:
                    if t.func.id == 'all' and isinstance(op, ast.In) and not pol:
                        return cs, [], 'all', body[0]
                    if t.func.id == 'any' and isinstance(op, ast.NotIn) and pol:
                        return cs, [], 'any', body[0]
        # set algebra
        if isinstance(t, ast.BinOp) and isinstance(t.op, ast.Sub) and _over_param(t.left, params) and isinstance(t.left, ast.Call) and pol:
            cs = _foldset(ctx, fi, t.right)
            if cs is not None:
                return cs, [], 'set difference', body[0]
        if isinstance(t, ast.Compare) and len(t.ops) == 1 and isinstance(t.ops[0], ast.LtE) and _over_param(t.left, params) and \
                isinstance(t.left, ast.Call) and not pol:
            cs = _foldset(ctx, fi, t.comparators[0])
            if cs is not None:
                return cs, [], 'subset', body[0]
        if isinstance(t, ast.Call) and isinstance(t.func, ast.Attribute) and t.func.attr == 'issubset' and len(t.args) == 1 and \
                _over_param(t.func.value, params) and isinstance(t.func.value, ast.Call) and not pol:
            cs = _foldset(ctx, fi, t.args[0])
            if cs is not None:
                return cs, [], 'subset', body[0]
        # regex
        if isinstance(t, ast.Call) and isinstance(t.func, ast.Attribute) and t.func.attr in ('match', 'fullmatch', 'search') and not pol:
            pat = flags = None
            recv = t.func.value
            if isinstance(recv, ast.Name) and recv.id == 're' and len(t.args) >= 2 and isinstance(t.args[1], ast.Name) and t.args[1].id in params:
                pat = t.args[0]
                flags = t.args[2] if len(t.args) > 2 else None
            elif len(t.args) == 1 and isinstance(t.args[0], ast.Name) and t.args[0].id in params:
                d = mi.consts.get(recv.id) if isinstance(recv, ast.Name) else None
                if isinstance(d, ast.Call) and norm(d.func) == 're.compile' and d.args:
                    pat = d.args[0]
                    flags = d.args[1] if len(d.args) > 1 else None
                    for kw in d.keywords:
                        if kw.arg == 'flags':
                            flags = kw.value
            if pat is not None:
                try:
                    pv = fold(pat, ctx.m, mi, fi.cls)
                except NotConst:
                    pv = None
                fv = 0
                if flags is not None:
                    import re
                    fv = None
                    names = [x.strip() for x in norm(flags).split('|')]
                    if all(n.startswith('re.') and hasattr(re, n[3:]) for n in names):
                        fv = 0
                        for n in names:
                            fv |= int(getattr(re, n[3:]))
                if isinstance(pv, (bytes, str)) and fv is not None:
                    cs, why = _regex_language(pv, t.func.attr, fv)
                    if why is not None:
                        return cs, why, 'regex %r' % (pv,), body[0]
    raise AnalysisError('undecided: the form of %s is not one the analysis knows (loop / all / any / set algebra / anchored starred regex)' % PRED)


def _describe(chars):
    return ' '.join('0x%02x' % c if not (32 < c < 127) else chr(c) for c in sorted(chars))


@rule('SA-GATE.d1.total')
@props('C18')
def gate_d1_total(ctx):
    """C18 half: every string over the d-characters is accepted, so what the manglers produce (SA-STR shows it is
    such a string) is never refused by the library."""
    fi = ctx.func(PRED)
    cs, why, form, at = d1_language(ctx)
    loc = ctx.loc(fi, at)
    missing = DCHARS - (cs or frozenset())
    under = [w[7:] for w in (why or ()) if w.startswith('UNDER: ')]
    return [Ob('SA-GATE.d1.total', '%s|accepts every d-character' % PRED, cs is not None and not missing, loc,
               '' if not missing else 'the predicate (%s) refuses the d-characters %s: the manglers produce names the library itself rejects' % (form, _describe(missing))),
            Ob('SA-GATE.d1.total', '%s|accepts every string of d-characters' % PRED, not under, loc, '; '.join(under))]


@rule('SA-GATE.d1')
@props('C13')
def gate_d1(ctx):
    obs = []
    fi = ctx.func(PRED)
    cs, why, form, at = d1_language(ctx)
    loc = ctx.loc(fi, at)
    extra = (cs or frozenset()) - DCHARS
    missing = DCHARS - (cs or frozenset())
    obs.append(Ob('SA-GATE.d1', '%s|accepts no byte outside the d-characters' % PRED, cs is not None and not extra, loc,
                  '' if cs is not None and not extra else 'the predicate (%s) accepts the bytes %s, which are not d-characters (ECMA-119 7.4.1: A-Z 0-9 _): names containing them are '
                  'accepted at levels 1-3 and written to the image' % (form, _describe(extra) if cs is not None else '<any>')))
    obs.append(Ob('SA-GATE.d1', '%s|accepts every d-character' % PRED, cs is not None and not missing, loc,
                  '' if not missing else 'the predicate (%s) refuses the d-characters %s: legal names are refused, and the manglers produce names the library itself rejects' % (form, _describe(missing))))
    obs.append(Ob('SA-GATE.d1', '%s|accepted language is exactly SET*' % PRED, not why, loc,
                  '; '.join(w[7:] if w.startswith('UNDER: ') else w for w in (why or ()))))
    # the identifier predicates apply it to the restricted parts whenever the level is below 4
    need = {'pycdlib._check_iso9660_filename': 2, 'pycdlib._check_iso9660_directory': 1}
    for q, n in sorted(need.items()):
        f = ctx.func(q)
        fparams = [p.lstrip('*') for p in f.params]
        good = []
        for c in ctx.calls(f):
            if c.name != '_check_d1_characters' or len(c.node.args) != 1:
                continue
            st = ctx.enclosing_stmt(f, c.node)
            conds = ex.conditions(ctx, f, st, True)
            bad = [norm(t) if pol else 'not (%s)' % norm(t) for t, pol, _a in conds if not (pol and norm(t) in LEVEL_TESTS_BELOW_4)]
            key = '%s|%s' % (q, norm(c.node))
            obs.append(Ob('SA-GATE.d1', key, not bad, ctx.loc(f, c.node),
                          '' if not bad else 'the character check is only made when %s: names that do not satisfy that condition skip it at levels 1-3' % ' and '.join(bad)))
            if not bad:
                good.append(norm(c.node.args[0]))
        # the checked expressions are the parts of the identifier
        if q.endswith('filename'):
            split = [s for s in f.node.body if isinstance(s, ast.Assign) and isinstance(s.value, ast.Call) and norm(s.value.func) == '_split_iso9660_filename'
                     and isinstance(s.targets[0], ast.Tuple) and len(s.targets[0].elts) == 3]
            if not split:
                raise AnalysisError('anchor-vanished: %s no longer splits the name with _split_iso9660_filename' % q)
            want = [norm(e) for e in split[0].targets[0].elts[:2]]
            reassigned = [n for n in ctx.own_nodes(f) if isinstance(n, ast.Assign) and n is not split[0] and
                          any(norm(t) in want for tt in n.targets for t in (tt.elts if isinstance(tt, ast.Tuple) else [tt]))]
            if reassigned:
                raise AnalysisError('undecided: %s reassigns the name parts before checking them' % q)
        else:
            want = [fparams[0]]
        miss = [w for w in want if w not in good]
        obs.append(Ob('SA-GATE.d1', '%s|checks %s' % (q, ', '.join(want)), not miss, ctx.loc(f, f.node),
                      '' if not miss else '%s does not apply _check_d1_characters to %s at levels 1-3' % (q.split('.')[-1], ', '.join(miss))))
    return obs
