#!/usr/bin/env python
"""
Observation C: a file identifier with a version separator must carry a version
number 1..32767 in its plain decimal form.  '/FOO;' (separator, no version)
and '/FOO;000000001' (the version 1 spelled differently) must be refused with
PyCdlibInvalidInput instead of being recorded as identifiers distinct from
'/FOO;1'.

usage: W3_version_syntax.py <path-to-checkout>
"""
import io
import sys

sys.path.insert(0, sys.argv[1])

import pycdlib  # noqa: E402
from pycdlib import pycdlibexception  # noqa: E402

BAD = ['/FOO;', '/FOO.;', '/FOO.TXT;', '/FOO;000000001', '/FOO;01', '/FOO.TXT;032767',
       '/FOO;0', '/FOO;00', '/FOO;32768', '/FOO;-1', '/FOO;+1', '/FOO;1_0', '/FOO; 1', '/FOO;A']
GOOD = ['/FOO;1', '/FOO.;1', '/FOO.TXT;1', '/FOO.TXT;10', '/FOO.TXT;32767', '/BAR', '/BAR.TXT', '/BAZ.;2']


def main():
    problems = []

    for level in (1, 2, 3, 4):
        for rr in (None, '1.09'):
            kw = {'rr_name': 'foo'} if rr else {}
            for name in BAD:
                iso = pycdlib.PyCdlib()
                iso.new(interchange_level=level, rock_ridge=rr)
                for what, edit in (('add_fp', lambda: iso.add_fp(io.BytesIO(b'abc'), 3, name, **kw)),
                                   ('add_hard_link', lambda: iso.add_hard_link(iso_old_path='/OLD.;1', iso_new_path=name, **kw))):
                    if what == 'add_hard_link':
                        iso.add_fp(io.BytesIO(b'old'), 3, '/OLD.;1', **({'rr_name': 'old'} if rr else {}))
                    try:
                        edit()
                        problems.append('level %d rr=%s: %s(%r) was accepted; root now holds %r' % (
                            level, rr, what, name,
                            [c.file_identifier() for c in iso.list_children(iso_path='/')][2:]))
                        iso.rm_hard_link(iso_path=name)
                    except pycdlibexception.PyCdlibInvalidInput:
                        pass
                    except Exception as e:  # pylint: disable=broad-except
                        problems.append('level %d rr=%s: %s(%r) raised %s: %s' % (level, rr, what, name, type(e).__name__, e))
                iso.close()

            # legal spellings stay accepted and survive a round trip
            iso = pycdlib.PyCdlib()
            iso.new(interchange_level=level, rock_ridge=rr)
            try:
                for i, name in enumerate(GOOD):
                    iso.add_fp(io.BytesIO(b'abc'), 3, name, **({'rr_name': 'n%d' % i} if rr else {}))
                out = io.BytesIO()
                iso.write_fp(out)
                iso.close()
                iso2 = pycdlib.PyCdlib()
                iso2.open_fp(out)
                got = sorted(c.file_identifier() for c in iso2.list_children(iso_path='/'))[2:]
                if got != sorted(n[1:].encode() for n in GOOD):
                    problems.append('level %d rr=%s: legal names do not round trip: %r' % (level, rr, got))
                iso2.close()
            except Exception as e:  # pylint: disable=broad-except
                problems.append('level %d rr=%s: legal name refused: %s: %s' % (level, rr, type(e).__name__, e))

    # The pair that shows the uniqueness problem directly.
    iso = pycdlib.PyCdlib()
    iso.new()
    iso.add_fp(io.BytesIO(b'abc'), 3, '/FOO;1')
    for name in ('/FOO;', '/FOO;000000001', '/FOO;01'):
        try:
            iso.add_fp(io.BytesIO(b'xyz'), 3, name)
            problems.append('%r accepted next to /FOO;1 as a distinct identifier' % name)
        except pycdlibexception.PyCdlibInvalidInput:
            pass
    iso.close()

    if problems:
        print('%d problems, e.g.:' % len(problems))
        print('\n'.join(problems[:12]))
        return 1
    print('OK')
    return 0


if __name__ == '__main__':
    sys.exit(main())
