"""
A completely full El Torito boot catalog cannot be re-opened.  32 calls of
add_eltorito (initial entry + 31 sections = exactly 2048 bytes) are accepted
and written, but on open the parser insists on a terminating all-zero entry,
runs into the next extent and fails with PyCdlibInvalidISO.
"""
import io
import struct
import sys

sys.path.insert(0, sys.argv[1])
import pycdlib  # noqa: E402


def build(count):
    iso = pycdlib.PyCdlib()
    iso.new()
    for i in range(count):
        data = (b'boot image %02d ' % i) * 10
        iso.add_fp(io.BytesIO(data), len(data), '/B%02d.;1' % i)
        iso.add_eltorito('/B%02d.;1' % i, '/BOOT.CAT;1')
    out = io.BytesIO()
    iso.write_fp(out)
    iso.close()
    return out.getvalue()


def main():
    problems = []
    for count in (31, 32):
        img = build(count)
        cat_extent, = struct.unpack_from('<L', img, 17 * 2048 + 71)
        catalog = img[cat_extent * 2048:(cat_extent + 1) * 2048]
        used = 64 * count
        if catalog[used:] != b'\x00' * (2048 - used) or catalog[used - 64] != 0x91:
            problems.append('%d entries: unexpected catalog layout' % count)
            continue
        try:
            iso = pycdlib.PyCdlib()
            iso.open_fp(io.BytesIO(img))
        except pycdlib.pycdlibexception.PyCdlibException as e:
            problems.append('%d boot entries (%d catalog bytes) written by pycdlib cannot be opened: %s: %s'
                            % (count, used, type(e).__name__, e))
            continue
        out = io.BytesIO()
        iso.write_fp(out)
        iso.close()
        img2 = out.getvalue()
        cat_extent2, = struct.unpack_from('<L', img2, 17 * 2048 + 71)
        if img2[cat_extent2 * 2048:(cat_extent2 + 1) * 2048] != catalog:
            problems.append('%d entries: boot catalog changed on open + write' % count)

    if problems:
        for p in problems:
            print(p)
        return 1
    print('OK')
    return 0


if __name__ == '__main__':
    sys.exit(main())
