"""F-12.3: IsoHybrid.parse recovered the disk geometry as psize // ((ecyle + 1) * heads), ignoring (a) the
partition offset that record() subtracts from psize and (b) the two high bits of the ending cylinder kept
in the sector byte.  A hybrid image with part_offset != 0, or larger than 256 cylinders (256 MiB with the
default geometry), therefore came back with a different sectors-per-track value, and open + write changed
the MBR partition entry and the cylinder padding.  usage: F12_3_isohybrid_geometry_parse.py [repo] [--big]"""
import sys, io, os, tempfile, shutil
args = [a for a in sys.argv[1:] if not a.startswith('--')]
sys.path.insert(0, args[0] if args else '/repo')
import pycdlib

BOOT = b'\x00' * 0x40 + b'\xfb\xc0\x78\x70' + b'B' * (2048 - 0x44)
bad = []


class Zeros(io.RawIOBase):
    def __init__(self, n):
        self.n, self.pos = n, 0
    def readable(self): return True
    def seekable(self): return True
    def seek(self, off, whence=0):
        self.pos = off if whence == 0 else (self.pos + off if whence == 1 else self.n + off)
        return self.pos
    def tell(self): return self.pos
    def read(self, size=-1):
        if size < 0: size = self.n - self.pos
        size = max(0, min(size, self.n - self.pos))
        self.pos += size
        return b'\x00' * size


def roundtrip(tag, part_offset, filler_mib, tmp):
    iso = pycdlib.PyCdlib()
    iso.new()
    iso.add_fp(io.BytesIO(BOOT), len(BOOT), '/BOOT.;1')
    iso.add_eltorito('/BOOT.;1', boot_load_size=4)
    if filler_mib:
        iso.add_fp(Zeros(filler_mib << 20), filler_mib << 20, '/BIG.;1')
    iso.add_isohybrid(part_offset=part_offset)
    a = os.path.join(tmp, 'a.iso')
    b = os.path.join(tmp, 'b.iso')
    iso.write(a)
    iso.close()
    iso = pycdlib.PyCdlib()
    iso.open(a)
    iso.write(b)
    iso.close()
    sa, sb = os.path.getsize(a), os.path.getsize(b)
    with open(a, 'rb') as f: ma = f.read(512)
    with open(b, 'rb') as f: mb = f.read(512)
    if sa != sb or ma != mb:
        diff = [i for i in range(512) if ma[i] != mb[i]]
        bad.append('%s: open + write changed the image: size %d -> %d, MBR bytes differing at %s' % (tag, sa, sb, diff))
    os.unlink(a); os.unlink(b)


tmp = tempfile.mkdtemp()
try:
    for off in (0, 4, 16, 63):
        roundtrip('part_offset=%d' % off, off, 0, tmp)
    if '--big' in sys.argv:
        roundtrip('300 MiB image', 0, 300, tmp)
finally:
    shutil.rmtree(tmp)
if bad:
    print('\n'.join(bad)); print('FAIL'); sys.exit(1)
print('OK')
