"""./check Cxx [--tier quick|thorough] [--replay FILE] [--list]"""
import argparse
import json
import os
import sys
import time
import traceback

from .model import AnalysisError
from .engine import Ctx
from .report import Ob, Tables, finish, VERIF
from . import registry

EXPLANATIONS = {}   # filled from properties table below


def run_rules(ctx, rids):
    obs = []
    errors = []
    for rid in rids:
        fn = registry.RULES[rid]
        try:
            res = fn(ctx)
        except AnalysisError as e:
            errors.append('%s: %s' % (rid, e))
            continue
        for ob in res:
            obs.append(ob)
    return obs, errors


def main(argv=None):
    ap = argparse.ArgumentParser(prog='check')
    ap.add_argument('prop')
    ap.add_argument('--tier', default=os.environ.get('VERIF_TIER', 'quick'), choices=['quick', 'thorough'])
    ap.add_argument('--replay', default=None)
    ap.add_argument('--list', action='store_true')
    ap.add_argument('--verbose', '-v', action='store_true')
    args = ap.parse_args(argv)
    t0 = time.time()
    try:
        seed = int(os.environ.get('VERIF_SEED', '0'))
    except ValueError:
        seed = 0
    prop = args.prop
    try:
        registry.load_rules()
        rids = registry.prop_rules(prop)
        if args.replay:
            with open(args.replay) as f:
                rp = json.load(f)
            rids = [r for r in rids if r == rp['rule']] or rids
        if not rids:
            print('ANALYSIS-ERROR no rules registered for %s' % prop)
            return 2
        ctx = Ctx()
        tables = Tables()
        obs, errors = run_rules(ctx, rids)
        if args.replay:
            obs = [o for o in obs if o.rule == rp['rule'] and o.key == rp['key']]
            for o in obs:
                tables.classify(o, prop)
                print('%s %s %s at %s: %s' % (o.status.upper(), o.rule, o.key, o.loc, o.detail))
            if not obs:
                print('instance no longer present: %s %s' % (rp['rule'], rp['key']))
                return 0
            if any(o.status == 'violated' for o in obs):
                print('VIOLATION property=%s replay=%s' % (prop, args.replay))
                return 1
            return 0
        selftest = None
        from . import selftest as st
        selftest = st.run(prop, rids, args.tier, seed, obs)
        from .propdoc import PROPDOC
        meta = {
            'rules': rids,
            'analysed': ctx.analysed(),
            'explanation': PROPDOC.get(prop, {}).get('explanation', ''),
            'assumptions': PROPDOC.get(prop, {}).get('assumptions', []),
        }
        if args.list or args.verbose:
            for o in obs:
                tables.classify(o, prop)
                if args.verbose or o.status != 'discharged':
                    print('%-10s %s %s at %s %s' % (o.status, o.rule, o.key, o.loc, o.detail))
        return finish(prop, args.tier, seed, obs, meta, t0, tables, selftest, errors)
    except AnalysisError as e:
        print('ANALYSIS-ERROR %s' % e)
        return 2
    except Exception:
        traceback.print_exc()
        print('ANALYSIS-ERROR internal error in the analyser (traceback above)')
        return 2


if __name__ == '__main__':
    sys.exit(main())
