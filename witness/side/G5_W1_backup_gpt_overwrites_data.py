"""
add_isohybrid(efi=True): the backup GPT (33 sectors of 512 bytes) is written at
the end of the cylinder padding.  When the padding is smaller than that (here
the ISO size is a multiple of the cylinder size, so it is 0) the backup GPT is
written over the last extents of the ISO and file data read back is corrupt.
"""
import io
import struct
import sys

sys.path.insert(0, sys.argv[1])
import pycdlib  # noqa: E402

BOOT = b'\x00' * 0x40 + b'\xfb\xc0\x78\x70'


def main():
    iso = pycdlib.PyCdlib()
    iso.new()
    iso.add_fp(io.BytesIO(BOOT), len(BOOT), '/ISOLINUX.BIN;1')
    iso.add_eltorito('/ISOLINUX.BIN;1', boot_load_size=4)
    efi = b'EFI' * 100
    iso.add_fp(io.BytesIO(efi), len(efi), '/EFIBOOT.IMG;1')
    iso.add_eltorito('/EFIBOOT.IMG;1', efi=True)
    zdata = bytes(bytearray(range(1, 251))) * 160  # 40000 bytes, no zeros
    iso.add_fp(io.BytesIO(zdata), len(zdata), '/ZDATA.BIN;1')
    # One cylinder is 1 * 4 * 512 = 2048 bytes, so there is no padding.
    iso.add_isohybrid(efi=True, geometry_heads=1, geometry_sectors=4)
    out = io.BytesIO()
    iso.write_fp(out)
    iso.close()
    raw = out.getvalue()

    problems = []
    iso2 = pycdlib.PyCdlib()
    iso2.open_fp(io.BytesIO(raw))
    iso_bytes = iso2.pvd.space_size * 2048
    back = io.BytesIO()
    iso2.get_file_from_iso_fp(back, iso_path='/ZDATA.BIN;1')
    iso2.close()
    if back.getvalue() != zdata:
        problems.append('/ZDATA.BIN;1 read back from the written image differs from what was added')

    backup_lba = struct.unpack_from('<Q', raw, 512 + 32)[0]
    backup_start = (backup_lba - 32) * 512
    if backup_start < iso_bytes:
        problems.append('backup GPT starts at byte %d, inside the ISO (%d bytes)' % (backup_start, iso_bytes))
    if raw[backup_lba * 512:backup_lba * 512 + 8] != b'EFI PART':
        problems.append('no GPT header at the backup LBA %d' % (backup_lba))
    if (backup_lba + 1) * 512 != len(raw):
        problems.append('backup GPT header is not in the last sector of the image')

    if problems:
        print('\n'.join(problems))
        return 1
    print('OK')
    return 0


if __name__ == '__main__':
    sys.exit(main())
