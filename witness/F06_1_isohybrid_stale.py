"""F-06.1: add_isohybrid does not mark the metadata stale: after a consistency point (or in always-consistent
mode) the hybrid MBR is mastered with boot-file address 0 instead of 4 x the boot file's sector."""
import io, struct, sys
sys.path.insert(0, '/repo')
import pycdlib
boot = b'\x00' * 0x40 + b'\xfb\xc0\x78\x70' + b'\x00' * (2048 - 0x44)
res = {}
for mode in ('lazy', 'force_consistency', 'always_consistent'):
    iso = pycdlib.PyCdlib(always_consistent=(mode == 'always_consistent'))
    iso.new()
    iso.add_fp(io.BytesIO(boot), len(boot), '/BOOT.;1')
    iso.add_eltorito('/BOOT.;1', '/BOOT.CAT;1', boot_load_size=4)
    if mode == 'force_consistency':
        iso.force_consistency()
    iso.add_isohybrid()
    out = io.BytesIO(); iso.write_fp(out)
    rba, = struct.unpack_from('<L', out.getvalue(), 432)
    rec = iso.get_record(iso_path='/BOOT.;1')
    res[mode] = (rba, rec.extent_location() * 4)
    iso.close()
print(res)
ok = all(a == b for a, b in res.values())
print('OK' if ok else 'DEFECT')
sys.exit(0 if ok else 1)
