"""F-10.1: num_udf is not counted when UDF file entries are linked at parse time.
The same edit (remove a UDF-linked file) must give the same volume size on a never-closed
object and on a reopened one."""
import io, sys
sys.path.insert(0, '/repo')
import pycdlib

def build():
    iso = pycdlib.PyCdlib()
    iso.new(udf='2.60')
    iso.add_fp(io.BytesIO(b'data'), 4, '/FOO.;1', udf_path='/foo')
    return iso

a = build()
out = io.BytesIO()
a.write_fp(out)
a.rm_file('/FOO.;1')
a.force_consistency()
size_a = a.pvd.space_size

b = pycdlib.PyCdlib()
out.seek(0)
b.open_fp(out)
b.rm_file('/FOO.;1')
b.force_consistency()
size_b = b.pvd.space_size
print('never closed:', size_a, 'reopened:', size_b)
ok = size_a == size_b
print('OK' if ok else 'DEFECT')
sys.exit(0 if ok else 1)
