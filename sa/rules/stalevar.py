"""SA-STALEVAR: a loop variable read inside a *later* loop that does not rebind it.

Decided with reaching definitions on the CFG: a read of `x` at node U is reported
when every definition of `x` reaching U is the target binding of a `for` loop L
such that U is not inside L (the value is whatever the finished loop left
behind), L has no `break` (so it is not a search loop whose result is used
afterwards), and U itself sits inside another loop.  In pycdlib this is the
shape of the hybrid-boot defect: the EFI/Mac partition sizes are taken from the
left-over `entry` of the preceding section loop instead of `enc.entry`.
"""
import ast

from ..registry import rule, props
from ..report import Ob
from .. import cfg as cfgmod


def _has_break(fornode):
    stack = list(fornode.body)
    while stack:
        st = stack.pop()
        if isinstance(st, ast.Break):
            return True
        if isinstance(st, (ast.For, ast.While, ast.FunctionDef, ast.ClassDef)):
            continue   # a break in a nested loop belongs to that loop
        for fld in ('body', 'orelse', 'finalbody'):
            stack.extend(getattr(st, fld, []) or [])
        if isinstance(st, ast.Try):
            for h in st.handlers:
                stack.extend(h.body)
    return False


def stale_uses(ctx, fi):
    g = ctx.cfg(fi)
    params = [p.lstrip('*') for p in fi.params]
    rd = cfgmod.reaching_defs(g, params)
    out = []
    n_reads = 0
    for n in g.nodes:
        IN = rd[n.id]
        if IN is None or not n.loops:
            continue
        uses = set(cfgmod.node_uses(n))
        if not uses:
            continue
        own_defs = set(cfgmod.node_defs(n)) if n.kind == 'iter' else set()
        for name in uses:
            defs = [d for (nm, d) in IN if nm == name]
            if not defs:
                continue
            n_reads += 1
            dn = [g.nodes[d] for d in defs]
            if not all(d.kind == 'iter' for d in dn):
                continue
            loopids = set(l.id for l in n.loops)
            if n.kind == 'iter':
                loopids.add(n.id) if name in own_defs else None
            if any(d.id in loopids for d in dn):
                continue
            if any(_has_break(d.ast) for d in dn):
                continue
            out.append((name, n, dn))
    return out, n_reads


@rule('SA-STALEVAR')
@props('C12')
def check(ctx):
    obs = []
    total_reads = 0
    for fi in ctx.m.functions.values():
        found, n_reads = stale_uses(ctx, fi)
        total_reads += n_reads
        seen = set()
        for name, n, dn in found:
            key = '%s|%s|in-loop:%s' % (fi.qual, name, cfgmod_head(n.loops[-1]))
            if key in seen:
                continue
            seen.add(key)
            obs.append(Ob('SA-STALEVAR', key, False, ctx.loc(fi, n.ast),
                          'name %r is bound only as target of the finished loop(s) at line(s) %s and is read inside a later loop that never rebinds it'
                          % (name, ','.join(str(d.lineno) for d in dn))))
        # one discharged obligation per function that has loop-variable reads inside loops
        if n_reads and not found:
            obs.append(Ob('SA-STALEVAR', fi.qual, True, ctx.loc(fi, fi.node),
                          '%d reads of local names inside loops; none reads a left-over loop target' % n_reads))
    return obs


def cfgmod_head(loopnode):
    from ..model import stmt_head
    return stmt_head(loopnode.stmt)
