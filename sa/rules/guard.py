"""SA-GUARD.layout: the in-place guard is raised by everything that marks the layout stale (C17).

modify_file_in_place() writes a file's bytes and its directory record at the positions the *opened* image
gave them.  It is only safe while the in-memory layout is still the layout of the file on disk, and it says so:
it refuses when a guard attribute of the PyCdlib object is set (`if self._layout_changed: raise
PyCdlibInvalidInput`).  The guard is found in the code, not named here: an attribute tested by a refusal of
modify_file_in_place that is False after _initialize and assigned True elsewhere.

  (1) the refusal dominates every write of modify_file_in_place to the image file and to the record;
  (2) every method that marks the metadata stale (assigns `self._needs_reshuffle = True`, the same computed set
      SA-RESHUFFLE.flag uses) assigns the guard True on every normal path on which a non-zero amount of bytes is
      accounted.  (Until fix 8f3e05d the record position was derived from the cached per-child offsets, which a
      zero-byte edit - hard link, symlink, empty file - shifts; the rule then demanded *every* path, and
      seeded/C17c broke the property.  Since that fix the position is the one the record was found at, a zero-byte
      edit moves no extent, and C17c no longer breaks anything: its demo passes.  Demanding the guard there would
      now be an alarm on code where the property holds, so the zero-amount branch of a test on the method's own
      byte counts is exempt; a guard made conditional on anything else is still reported);
  (3) the guard is lowered only where the object is re-initialised.
"""
import ast

from ..registry import rule, props
from ..report import Ob
from ..model import norm, AnalysisError
from ..engine import raises_class
from .. import cfg as cfgmod
from .. import effects

PC = 'pycdlib.PyCdlib'


def _guards(ctx, fi):
    out = []
    for n in ctx.own_nodes(fi):
        if isinstance(n, ast.If) and not n.orelse and n.body and isinstance(n.body[-1], ast.Raise) and raises_class(n.body[-1]) == 'PyCdlibInvalidInput':
            t = n.test
            if isinstance(t, ast.Attribute) and isinstance(t.value, ast.Name) and t.value.id == 'self':
                ws = effects.writers_of(ctx, PC, t.attr)
                if any(isinstance(w.value, ast.Constant) and w.value.value is True for w in ws) and \
                        any(isinstance(w.value, ast.Constant) and w.value.value is False for w in ws):
                    out.append((t.attr, n))
    return out


@rule('SA-GUARD.layout')
@props('C17')
def guard_layout(ctx):
    obs = []
    pc = ctx.cls(PC)
    mf = pc.methods.get('modify_file_in_place')
    if mf is None:
        raise AnalysisError('anchor-vanished %s.modify_file_in_place' % PC)
    guards = _guards(ctx, mf)
    if not guards:
        raise AnalysisError('anchor-vanished: modify_file_in_place no longer refuses on a layout guard attribute')
    g = ctx.cfg(mf)
    dom = g.dominators()
    for attr, ifnode in guards:
        gn = g.node_of(ifnode)
        # (1) the refusal dominates every write to the file / record mutation
        sinks = []
        for n in ctx.own_nodes(mf):
            if isinstance(n, ast.Call) and isinstance(n.func, ast.Attribute) and (
                    (n.func.attr in ('write', 'seek', 'truncate') and 'cdfp' in norm(n.func.value)) or n.func.attr in ('set_data_length', 'update_fp', 'record')):
                sinks.append(n)
        if len(sinks) < 2:
            raise AnalysisError('anchor-vanished: writes of modify_file_in_place (%d)' % len(sinks))
        bad = [s for s in sinks if gn is None or gn.id not in dom.get(g.node_of(ctx.enclosing_stmt(mf, s)).id, ())]
        obs.append(Ob('SA-GUARD.layout', 'modify_file_in_place|refusal on self.%s precedes every write' % attr, not bad, ctx.loc(mf, bad[0] if bad else ifnode),
                      '' if not bad else '`%s` (line %d) is reached on a path that does not pass the refusal on self.%s' % (norm(bad[0])[:60], bad[0].lineno, attr)))
        # (2) every stale-marker raises the guard on every normal path
        nmark = 0
        for name, f in sorted(pc.methods.items()):
            marks = [n for n in ctx.own_nodes(f) if isinstance(n, ast.Assign) and any(norm(t) == 'self._needs_reshuffle' for t in n.targets) and
                     isinstance(n.value, ast.Constant) and n.value.value is True]
            if not marks:
                continue
            nmark += 1
            fg = ctx.cfg(f)

            fparams = set(p.lstrip('*') for p in f.params) - {'self'}

            def amount_test(node):
                # `if <sum of the byte counts this method was given> > 0` (or != 0, or the bare sum): with nothing
                # added or removed no extent moves, and since the record position comes from the opened image
                # (orig_offset) the in-place write is right without the guard - only the branch with a non-zero
                # amount has to raise it
                if node.kind != 'test':
                    return False
                t = node.ast
                names = set(x.id for x in ast.walk(t) if isinstance(x, ast.Name))
                if not names or not names <= fparams:
                    return False
                if isinstance(t, ast.Compare) and len(t.ops) == 1 and isinstance(t.ops[0], (ast.Gt, ast.NotEq)) and \
                        isinstance(t.comparators[0], ast.Constant) and t.comparators[0].value == 0:
                    return True
                return isinstance(t, (ast.Name, ast.BinOp))

            def tr(node, st, lab):
                if lab in ('exc', 'callexc'):
                    return st
                if lab == 'F' and amount_test(node):
                    return None        # the zero-amount branch is not an obligation
                s = node.stmt
                if node.kind == 'stmt' and isinstance(s, ast.Assign) and any(norm(t) == 'self.' + attr for t in s.targets) and \
                        isinstance(s.value, ast.Constant) and s.value.value is True:
                    return True
                return st
            IN = fg.forward(False, tr, lambda a, b: a and b)
            ok = bool(IN.get(fg.exit.id))
            obs.append(Ob('SA-GUARD.layout', '%s|raises self.%s on every path' % (f.qual, attr), ok, ctx.loc(f, marks[0]),
                          '' if ok else '%s marks the layout stale but has a normal path, not conditioned on a zero byte count, on which self.%s stays False: '
                          'after such an edit extents have moved, modify_file_in_place is accepted and writes the new content and the file entries at sectors that '
                          'belong to other data in the opened file' % (f.qual, attr)))
        if nmark < 2:
            raise AnalysisError('anchor-vanished: methods that assign self._needs_reshuffle = True (%d)' % nmark)
        # (3) lowered only at re-initialisation
        for w in effects.writers_of(ctx, PC, attr):
            if isinstance(w.value, ast.Constant) and w.value.value is True:
                continue
            ok = w.fi.name in ('_initialize', '__init__')
            obs.append(Ob('SA-GUARD.layout', '%s|self.%s = %s' % (w.fi.qual, attr, norm(w.value) if w.value is not None else '?'), ok, ctx.loc(w.fi, w.node),
                          '' if ok else '%s lowers (or computes) the guard outside re-initialisation: in-place modification becomes possible while the layout differs from the file' % w.fi.qual))
    return obs
