"""
modify_file_in_place() is accepted after a not yet written structural change
(e.g. add_fp) on the same object.  It then writes with the in-memory layout
onto the old on-disk layout and corrupts the opened image.
"""
import io
import os
import shutil
import sys
import tempfile

sys.path.insert(0, sys.argv[1])
import pycdlib  # noqa: E402


def build(path):
    iso = pycdlib.PyCdlib()
    iso.new()
    iso.add_fp(io.BytesIO(b'a' * 1000), 1000, '/A.;1')
    iso.add_fp(io.BytesIO(b'b' * 1500), 1500, '/B.;1')
    iso.write(path)
    iso.close()


def read(path, name):
    iso = pycdlib.PyCdlib()
    iso.open(path)
    out = io.BytesIO()
    iso.get_file_from_iso_fp(out, iso_path=name)
    iso.close()
    return out.getvalue()


def main():
    problems = []
    tmpdir = tempfile.mkdtemp()
    try:
        for always_consistent in (False, True):
            path = os.path.join(tmpdir, 'img.iso')
            build(path)
            iso = pycdlib.PyCdlib(always_consistent=always_consistent)
            iso.open(path, 'r+b')
            iso.add_fp(io.BytesIO(b'n' * 100), 100, '/AA.;1')
            new = b'y' * 1400
            refused = False
            try:
                iso.modify_file_in_place(io.BytesIO(new), len(new), '/B.;1')
            except pycdlib.pycdlibexception.PyCdlibInvalidInput:
                refused = True
            iso.close()
            try:
                a = read(path, '/A.;1')
                b = read(path, '/B.;1')
            except Exception as e:  # pylint: disable=broad-except
                problems.append('always_consistent=%s: image no longer opens: %r' % (always_consistent, e))
                continue
            if a != b'a' * 1000:
                problems.append('always_consistent=%s: /A.;1 was damaged' % (always_consistent))
            if refused:
                if b != b'b' * 1500:
                    problems.append('always_consistent=%s: call refused but /B.;1 changed' % (always_consistent))
            elif b != new:
                problems.append('always_consistent=%s: call accepted, /B.;1 reads back %d bytes %r instead of the 1400 new bytes'
                                % (always_consistent, len(b), sorted(set(b))))

        # The plain flow must of course keep working.
        path = os.path.join(tmpdir, 'img2.iso')
        build(path)
        iso = pycdlib.PyCdlib()
        iso.open(path, 'r+b')
        iso.modify_file_in_place(io.BytesIO(b'y' * 1400), 1400, '/B.;1')
        iso.modify_file_in_place(io.BytesIO(b'z' * 1300), 1300, '/B.;1')
        iso.close()
        if read(path, '/B.;1') != b'z' * 1300:
            problems.append('plain modify_file_in_place does not work')
    finally:
        shutil.rmtree(tmpdir)

    if problems:
        print('\n'.join(problems))
        return 1
    print('OK')
    return 0


if __name__ == '__main__':
    sys.exit(main())
