#!/usr/bin/env python
"""
Witness for observation B: modify_file_in_place() on a boot file that carries
an El Torito Boot Info Table must store the new contents *with* a correct
table (PVD sector, file sector, new length, checksum of the new contents),
exactly as write() does, and reads must agree with what is on the image.

usage: W2_modify_in_place_boot_info_table.py <pycdlib checkout>
"""
import io
import os
import shutil
import struct
import sys
import tempfile

sys.path.insert(0, os.path.abspath(sys.argv[1]))
import pycdlib  # noqa: E402

S = 2048


def content(n, seed):
    return (seed * 8 + bytes(bytearray(range(256))) * (n // 256 + 1))[:n]


def csum_of(data):
    rest = data[64:]
    rest = rest + b'\x00' * (-len(rest) % 4)
    return sum(struct.unpack('<%dL' % (len(rest) // 4), rest)) & 0xffffffff


def expected_stored(raw, pvd_sector, file_sector):
    table = struct.pack('<LLLL', pvd_sector, file_sector, len(raw), csum_of(raw)) + b'\x00' * 40
    return raw[:8] + table + raw[64:]


def load_rba(image):
    cat = struct.unpack_from('<L', image, 17 * S + 71)[0]
    return struct.unpack_from('<L', image, cat * S + 32 + 8)[0]


def read(iso, **kwargs):
    out = io.BytesIO()
    iso.get_file_from_iso_fp(out, **kwargs)
    return out.getvalue()


def one(joliet, newlen, problems):
    tag = 'joliet=%s newlen=%d: ' % (joliet, newlen)
    fname = 'b_%s_%d.iso' % (joliet, newlen)
    old = content(3000, b'X')
    iso = pycdlib.PyCdlib()
    iso.new(joliet=3 if joliet else None)
    kw = {'joliet_path': '/b1'} if joliet else {}
    iso.add_fp(io.BytesIO(old), len(old), '/B1.;1', **kw)
    iso.add_fp(io.BytesIO(b'other file\n'), 11, '/OTHER.;1', **({'joliet_path': '/other'} if joliet else {}))
    iso.add_eltorito('/B1.;1', '/BOOT.CAT;1', boot_info_table=True)
    iso.write(fname)
    iso.close()

    with open(fname, 'rb') as infp:
        before = infp.read()
    rba = load_rba(before)
    if before[rba * S:rba * S + 3000] != expected_stored(old, 16, rba):
        problems.append(tag + 'precondition failed: write() did not store the boot file with its table')
        return

    new = content(newlen, b'Z')[::-1]
    iso = pycdlib.PyCdlib()
    iso.open(fname, 'r+b')
    iso.modify_file_in_place(io.BytesIO(new), len(new), '/B1.;1', **kw)
    names = [{'iso_path': '/B1.;1'}]
    if joliet:
        names.append({'joliet_path': '/b1'})
    in_session = [read(iso, **name) for name in names]
    iso.close()

    with open(fname, 'rb') as infp:
        after = infp.read()
    if len(after) != len(before):
        problems.append(tag + 'image size changed')
        return
    if load_rba(after) != rba:
        problems.append(tag + 'load RBA changed')
    want = expected_stored(new, 16, rba)
    stored = after[rba * S:rba * S + len(new)]
    if stored != want:
        got = struct.unpack_from('<LLLL', stored, 8)
        exp = struct.unpack_from('<LLLL', want, 8)
        if stored == new:
            problems.append(tag + 'the image holds the raw new contents, the Boot Info Table is gone (bytes 8..24 decode as %r, expected %r)' % (got, exp))
        else:
            problems.append(tag + 'boot file on the image is wrong: table %r, expected %r; rest equal: %s' % (got, exp, stored[64:] == want[64:]))
    pad = after[rba * S + len(new):(rba + 2) * S]
    if newlen >= 64 and pad.strip(b'\x00'):
        problems.append(tag + 'the rest of the last sector of the file is not zero')
    for index, data in enumerate(in_session):
        if data != want:
            problems.append(tag + 'read number %d in the session that modified the file returns a table %r, expected %r (rest equal: %s)'
                            % (index, struct.unpack_from('<LLLL', data, 8), struct.unpack_from('<LLLL', want, 8), data[64:] == want[64:]))

    # Only the file's sectors, the volume descriptors and directory sectors may differ.
    changed = [sec for sec in range(len(before) // S) if before[sec * S:(sec + 1) * S] != after[sec * S:(sec + 1) * S]]
    iso = pycdlib.PyCdlib()
    iso.open(fname)
    allowed = set([16, rba, rba + 1])
    allowed.add(iso.pvd.root_directory_record().extent_location())
    if joliet:
        allowed.add(iso.joliet_vd.extent_location())
        allowed.add(iso.joliet_vd.root_directory_record().extent_location())
    if [sec for sec in changed if sec not in allowed]:
        problems.append(tag + 'unexpected sectors changed: %r' % ([sec for sec in changed if sec not in allowed]))
    # The reopened image must know about the table and read the same bytes.
    if iso.eltorito_boot_catalog.initial_entry.inode.boot_info_table is None:
        problems.append(tag + 'after reopening, the boot file is no longer recognised as carrying a Boot Info Table')
    for name in names:
        if read(iso, **name) != want:
            problems.append(tag + 'after reopening, reading %r does not return the stored bytes' % (name))
        if iso.get_record(**name).get_data_length() != len(new):
            problems.append(tag + 'after reopening, the length of %r is wrong' % (name))
    if read(iso, iso_path='/OTHER.;1') != b'other file\n':
        problems.append(tag + 'other file changed')
    # Mastering it again must give the table again (at the new place).
    iso.add_directory('/DIR1', **({'joliet_path': '/dir1'} if joliet else {}))
    out = io.BytesIO()
    iso.write_fp(out)
    iso.close()
    again = out.getvalue()
    rba2 = load_rba(again)
    if again[rba2 * S:rba2 * S + len(new)] != expected_stored(new, 16, rba2):
        problems.append(tag + 're-mastered image does not hold the new contents with a correct table')


def main():
    problems = []
    for joliet in (False, True):
        for newlen in (3000, 2049, 4096):
            one(joliet, newlen, problems)

    # A file without a table must be stored untouched (no table invented).
    raw = content(3000, b'Q')
    iso = pycdlib.PyCdlib()
    iso.new()
    iso.add_fp(io.BytesIO(raw), len(raw), '/B1.;1')
    iso.add_eltorito('/B1.;1', '/BOOT.CAT;1')
    iso.write('plain.iso')
    iso.close()
    new = content(2500, b'R')
    iso = pycdlib.PyCdlib()
    iso.open('plain.iso', 'r+b')
    iso.modify_file_in_place(io.BytesIO(new), len(new), '/B1.;1')
    iso.close()
    with open('plain.iso', 'rb') as infp:
        after = infp.read()
    rba = load_rba(after)
    if after[rba * S:rba * S + 2500] != new:
        problems.append('boot file without a Boot Info Table was not stored as given')

    if problems:
        for problem in problems:
            print('PROBLEM: ' + problem)
        return 1
    print('OK')
    return 0


if __name__ == '__main__':
    tmpdir = tempfile.mkdtemp(prefix='w2')
    olddir = os.getcwd()
    os.chdir(tmpdir)
    try:
        ret = main()
    finally:
        os.chdir(olddir)
        shutil.rmtree(tmpdir, ignore_errors=True)
    sys.exit(ret)
