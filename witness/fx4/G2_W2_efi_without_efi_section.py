"""
Observation B: add_isohybrid(efi=True) on an image without an El Torito EFI
(platform 0xef) entry, and add_isohybrid(mac=True) with fewer than two of
them, cannot produce the EFI/Mac partitions.  The call has to be refused with a
documented error and leave the object untouched; it must not be accepted and
then make write_fp() die with a ValueError (or write zeroed partitions).

usage: W2_efi_without_efi_section.py <path-to-checkout>
"""
import io
import struct
import sys
import time

sys.path.insert(0, sys.argv[1])
time.time = lambda: 1700000000.0
import pycdlib  # noqa: E402

BOOT = b'\x00' * 0x40 + b'\xfb\xc0\x78\x70' + b'\x00' * (2048 - 0x44)


def make(num_efi):
    iso = pycdlib.PyCdlib()
    iso.new()
    iso.add_fp(io.BytesIO(BOOT), len(BOOT), '/BOOT.;1')
    iso.add_eltorito('/BOOT.;1', '/BOOT.CAT;1', boot_load_size=4)
    for i in range(num_efi):
        data = bytes(bytearray([0x41 + i])) * 2048
        iso.add_fp(io.BytesIO(data), len(data), '/EFI%d.;1' % (i))
        iso.add_eltorito('/EFI%d.;1' % (i), efi=True)
    return iso


def out(iso):
    fp = io.BytesIO()
    iso.write_fp(fp)
    return fp.getvalue()


def check(label, num_efi, kwargs, problems):
    ref = out(make(num_efi))

    iso = make(num_efi)
    try:
        iso.add_isohybrid(mbr_id=1, **kwargs)
    except pycdlib.pycdlibexception.PyCdlibInvalidInput:
        # Refused; then nothing may have changed.
        try:
            if out(iso) != ref:
                problems.append('%s: refused, but the image written afterwards differs' % (label))
        except Exception as e:  # pylint: disable=broad-except
            problems.append('%s: refused, but write afterwards raises %s: %s' % (label, type(e).__name__, e))
        # ... and it can still be made a plain hybrid.
        iso.add_isohybrid(mbr_id=1)
        if out(iso)[510:512] != b'\x55\xaa':
            problems.append('%s: add_isohybrid() after the refusal does not work' % (label))
        return
    except Exception as e:  # pylint: disable=broad-except
        problems.append('%s: add_isohybrid raises %s: %s' % (label, type(e).__name__, e))
        return

    # Accepted; then the image must be written, with proper partitions.
    try:
        img = out(iso)
    except Exception as e:  # pylint: disable=broad-except
        problems.append('%s: accepted, then write_fp raises %s: %s' % (label, type(e).__name__, e))
        return
    (efi_lba, efi_count) = struct.unpack_from('<LL', img, 446 + 16 + 8)
    if efi_lba == 0 or efi_count == 0:
        problems.append('%s: accepted, EFI MBR partition is %d+%d' % (label, efi_lba, efi_count))
    if kwargs.get('mac'):
        (mac_lba, mac_count) = struct.unpack_from('<LL', img, 446 + 32 + 8)
        if mac_lba == 0 or mac_count == 0:
            problems.append('%s: accepted, Mac MBR partition is %d+%d' % (label, mac_lba, mac_count))


def main():
    problems = []
    check('efi=True, no EFI entry', 0, {'efi': True}, problems)
    check('mac=True, no EFI entry', 0, {'mac': True}, problems)
    check('mac=True, one EFI entry', 1, {'mac': True}, problems)

    # Controls: these have what they need and must keep working.
    for (label, num_efi, kwargs) in (('efi=True, one EFI entry', 1, {'efi': True}),
                                     ('efi=True, two EFI entries', 2, {'efi': True}),
                                     ('mac=True, two EFI entries', 2, {'mac': True}),
                                     ('plain, no EFI entry', 0, {}),
                                     ('plain, one EFI entry', 1, {})):
        iso = make(num_efi)
        try:
            iso.add_isohybrid(mbr_id=1, **kwargs)
            img = out(iso)
            if img[510:512] != b'\x55\xaa':
                problems.append('control %s: no MBR' % (label))
            new = pycdlib.PyCdlib()
            new.open_fp(io.BytesIO(img))
            if new.isohybrid_mbr is None or new.isohybrid_mbr.efi != bool(kwargs) or new.isohybrid_mbr.mac != bool(kwargs.get('mac')):
                problems.append('control %s: not re-opened as the same kind of hybrid' % (label))
            new.close()
        except Exception as e:  # pylint: disable=broad-except
            problems.append('control %s: %s: %s' % (label, type(e).__name__, e))

    if problems:
        print('\n'.join(problems))
        return 1
    print('OK')
    return 0


if __name__ == '__main__':
    sys.exit(main())
