"""F-02.1: DirectoryRecord.remove_child leaves the Rock Ridge index (rr_children) untouched:
a removed file stays reachable by rr_path and shadows a re-added one."""
import io, sys
sys.path.insert(0, '/repo')
import pycdlib

iso = pycdlib.PyCdlib()
iso.new(rock_ridge='1.09')
iso.add_fp(io.BytesIO(b'old'), 3, '/FOO.;1', rr_name='foo')
iso.rm_file('/FOO.;1')
bad = []
try:
    iso.get_record(rr_path='/foo')
    bad.append('removed file still found by rr_path')
except pycdlib.pycdlibexception.PyCdlibInvalidInput:
    pass
iso.add_fp(io.BytesIO(b'newdata'), 7, '/FOO.;1', rr_name='foo')
out = io.BytesIO()
iso.get_file_from_iso_fp(out, rr_path='/foo')
if out.getvalue() != b'newdata':
    bad.append('re-added name reads %r' % out.getvalue())
iso.close()
for x in bad:
    print(x)
print('DEFECT' if bad else 'OK')
sys.exit(1 if bad else 0)
