"""Per-property explanation strings for the evidence files."""
PROPDOC = {}
