"""Engine smoke test used by MANIFEST.setup_cmd: the model builds and calls resolve."""
import sys
from .engine import Ctx
from .model import AnalysisError


def main():
    try:
        c = Ctx()
        a = c.analysed()
    except AnalysisError as e:
        print('ANALYSIS-ERROR', e)
        return 2
    print('sa engine ok: %(modules)d modules, %(functions)d functions, %(resolved_call_sites)d/%(attribute_call_sites)d attribute calls resolved' % a)
    return 0


if __name__ == '__main__':
    sys.exit(main())
