"""
Witness J: pycdlib-genisoimage -R -J on a tree with a symbolic link; the entry
of the link in the Joliet view.  (Not a defect, not repaired: Joliet has no
way to record a symbolic link; see REPORT.txt.)

Usage: python W10_joliet_symlink.py <path-to-checkout>
"""
import os
import subprocess
import sys
import tempfile

sys.path.insert(0, sys.argv[1])

import pycdlib  # pylint: disable=unused-import


def run_tool(checkout, name, args, cwd):
    env = dict(os.environ)
    env['PYTHONPATH'] = checkout
    return subprocess.run([sys.executable, os.path.join(checkout, 'tools', name)] + args,
                          cwd=cwd, env=env, stdout=subprocess.PIPE,
                          stderr=subprocess.STDOUT, universal_newlines=True)


def main():
    checkout = os.path.abspath(sys.argv[1])
    problems = []
    with tempfile.TemporaryDirectory() as tmp:
        src = os.path.join(tmp, 'src')
        os.mkdir(src)
        with open(os.path.join(src, 'target.txt'), 'wb') as outfp:
            outfp.write(b'target\n')
        os.symlink('target.txt', os.path.join(src, 'link'))

        out = os.path.join(tmp, 'out.iso')
        res = run_tool(checkout, 'pycdlib-genisoimage', ['-quiet', '-o', out, '-R', '-J', src], tmp)
        if res.returncode != 0:
            print('pycdlib-genisoimage failed:\n' + res.stdout)
            return 1
        for view in ('rockridge', 'joliet'):
            dest = os.path.join(tmp, view)
            os.mkdir(dest)
            res = run_tool(checkout, 'pycdlib-extract-files',
                           ['-path-type', view, '-extract-to', dest, out], tmp)
            if res.returncode != 0:
                print('pycdlib-extract-files failed:\n' + res.stdout)
                return 1
            link = os.path.join(dest, 'link')
            if not os.path.islink(link):
                if os.path.isfile(link):
                    problems.append('%s view: link is a regular file of %d bytes' % (view, os.path.getsize(link)))
                else:
                    problems.append('%s view: link is missing' % (view))
            elif os.readlink(link) != 'target.txt':
                problems.append('%s view: link points at %s' % (view, os.readlink(link)))

    if problems:
        print('\n'.join(problems))
        return 1
    print('OK')
    return 0


if __name__ == '__main__':
    sys.exit(main())
