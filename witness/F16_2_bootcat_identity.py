"""F-16.2: get_file_from_iso_fp decided "is this the boot catalog?" by comparing the record's name and
(content-)equality of the parent record, so an ordinary file with the same name in a like-named
directory read back as the boot catalog.  usage: F16_2_bootcat_identity.py [repo]"""
import sys, io
sys.path.insert(0, sys.argv[1] if len(sys.argv) > 1 else '/repo')
import pycdlib

def build():
    iso = pycdlib.PyCdlib()
    iso.new(joliet=3)
    for d in ('/A', '/B', '/A/SUB', '/B/SUB'):
        iso.add_directory(d, joliet_path=d.lower())
    boot = b'B' * 2048
    iso.add_fp(io.BytesIO(boot), len(boot), '/A/SUB/BOOT.IMG;1', joliet_path='/a/sub/boot.img')
    iso.add_eltorito('/A/SUB/BOOT.IMG;1', bootcatfile='/A/SUB/BOOT.CAT;1', joliet_bootcatfile='/a/sub/boot.cat')
    other = b'other file that happens to have the same name\n'
    iso.add_fp(io.BytesIO(other), len(other), '/B/SUB/BOOT.CAT;1', joliet_path='/b/sub/boot.cat')
    return iso, other

def read(iso, **kw):
    out = io.BytesIO()
    iso.get_file_from_iso_fp(out, **kw)
    return out.getvalue()

bad = []
iso, other = build()
for stage in ('new', 'reopened'):
    if stage == 'reopened':
        buf = io.BytesIO()
        iso.write_fp(buf)
        iso.close()
        iso = pycdlib.PyCdlib()
        iso.open_fp(buf)
    for kw in ({'iso_path': '/B/SUB/BOOT.CAT;1'}, {'joliet_path': '/b/sub/boot.cat'}):
        if read(iso, **kw) != other:
            bad.append('%s %s: ordinary file reads back as the boot catalog' % (stage, kw))
    for kw in ({'iso_path': '/A/SUB/BOOT.CAT;1'}, {'joliet_path': '/a/sub/boot.cat'}):
        got = read(iso, **kw)
        if len(got) != 2048 or got[:1] != b'\x01' or got[30:32] != b'\x55\xaa':
            bad.append('%s %s: boot catalog not readable under its own name' % (stage, kw))
iso.close()
if bad:
    print('\n'.join(bad)); print('FAIL'); sys.exit(1)
print('OK')
