"""SA-STR: legality of derived names (C18), decided by abstract interpretation (sa/strdom.py).

For input TOP (any non-empty str) and each interchange level 1..3 the results of
truncate_basename, mangle_dir_for_iso9660 and mangle_file_for_iso9660 must lie inside the
language the acceptance predicates admit; that language is extracted from the predicates
themselves (the characters _check_d1_characters admits, the length constants from the
comparison nodes of _check_iso9660_filename / _check_iso9660_directory), so mangler and
checker are compared with each other.  Second obligation: on an input already inside the
legal language every step is the identity.  Level 4 is the identity on any input by
construction (checked: the function returns its argument) and legality then depends on the
input alone - declined.
"""
import ast

from ..registry import rule, props
from ..report import Ob
from ..model import norm, fold, NotConst, AnalysisError
from .. import strdom
from ..strdom import S, T, INF, classify


def _allowed_classes(ctx):
    # the language of the character predicate, in whichever form it is written (see rules/d1.py, which also
    # decides whether that language is exactly the d-characters)
    from .d1 import d1_language
    v, _why, _form, _at = d1_language(ctx)
    if v is None:
        raise AnalysisError('cannot extract the accepted characters of _check_d1_characters')
    chars = set(chr(c) for c in v)
    classes = set()
    for cls, rng in (('U', range(ord('A'), ord('Z') + 1)), ('D', range(ord('0'), ord('9') + 1)), ('_', [ord('_')]),
                     ('L', range(ord('a'), ord('z') + 1)), ('.', [ord('.')]), (';', [ord(';')])):
        if all(chr(c) in chars for c in rng):
            classes.add(cls)
    return classes, chars


_UNKNOWN = object()


def _peval(e, env):
    """value of an expression under env (names -> constants), or _UNKNOWN"""
    if isinstance(e, ast.Constant):
        return e.value
    if isinstance(e, ast.Name):
        return env.get(e.id, _UNKNOWN)
    if isinstance(e, ast.Call) and norm(e) in ("float('inf')", 'float("inf")'):
        return float('inf')
    if isinstance(e, ast.Attribute) and norm(e) in ('math.inf',):
        return float('inf')
    if isinstance(e, ast.Tuple):
        vs = [_peval(x, env) for x in e.elts]
        return _UNKNOWN if any(v is _UNKNOWN for v in vs) else tuple(vs)
    if isinstance(e, ast.IfExp):
        t = _peval(e.test, env)
        if t is _UNKNOWN:
            return _UNKNOWN
        return _peval(e.body if t else e.orelse, env)
    if isinstance(e, ast.UnaryOp) and isinstance(e.op, ast.Not):
        v = _peval(e.operand, env)
        return _UNKNOWN if v is _UNKNOWN else (not v)
    if isinstance(e, ast.BoolOp):
        vs = [_peval(x, env) for x in e.values]
        if isinstance(e.op, ast.And):
            if any(v is not _UNKNOWN and not v for v in vs):
                return False
            return _UNKNOWN if any(v is _UNKNOWN for v in vs) else True
        if any(v is not _UNKNOWN and v for v in vs):
            return True
        return _UNKNOWN if any(v is _UNKNOWN for v in vs) else False
    if isinstance(e, ast.Compare):
        left = _peval(e.left, env)
        res = True
        for op, c in zip(e.ops, e.comparators):
            right = _peval(c, env)
            if left is _UNKNOWN or right is _UNKNOWN:
                return _UNKNOWN
            try:
                r = {ast.Eq: lambda a, b: a == b, ast.NotEq: lambda a, b: a != b, ast.Lt: lambda a, b: a < b, ast.LtE: lambda a, b: a <= b,
                     ast.Gt: lambda a, b: a > b, ast.GtE: lambda a, b: a >= b, ast.In: lambda a, b: a in b, ast.NotIn: lambda a, b: a not in b}[type(op)](left, right)
            except (KeyError, TypeError):
                return _UNKNOWN
            res = res and r
            left = right
        return res
    return _UNKNOWN


def _length_refusals(ctx, fi, level):
    """{name of the measured variable: limit} for `if len(X) > K ...: raise PyCdlibInvalidInput` reached when the
    predicate runs with interchange_level == level (partial evaluation of the tests on the level; K may be a
    literal or a local that the level decides, in statement or conditional-expression form)"""
    from ..engine import raises_class
    out = {}

    def refusal_terms(test, env):
        terms = []
        if isinstance(test, ast.BoolOp) and isinstance(test.op, ast.And):
            # `level == 1 and (len(name) > 8 or ...)`: operands the level decides drop out; what is left refuses alone
            rest = []
            for v in test.values:
                pv = _peval(v, env)
                if pv is _UNKNOWN:
                    rest.append(v)
                elif not pv:
                    return []
            return refusal_terms(rest[0], env) if len(rest) == 1 else []
        if isinstance(test, ast.BoolOp) and isinstance(test.op, ast.Or):
            for v in test.values:
                terms.extend(refusal_terms(v, env))
            return terms
        ts = [test]
        for t in ts:
            if isinstance(t, ast.Compare) and len(t.ops) == 1 and isinstance(t.left, ast.Call) and norm(t.left.func) == 'len' and t.left.args and \
                    isinstance(t.left.args[0], ast.Name):
                k = _peval(t.comparators[0], env)
                if k is _UNKNOWN or isinstance(k, bool) or not isinstance(k, (int, float)):
                    continue
                if isinstance(t.ops[0], ast.Gt):
                    terms.append((t.left.args[0].id, k))
                elif isinstance(t.ops[0], ast.GtE):
                    terms.append((t.left.args[0].id, k - 1))
        return terms

    def walk(body, env):
        for st in body:
            if isinstance(st, ast.Assign) and len(st.targets) == 1 and isinstance(st.targets[0], ast.Name):
                v = _peval(st.value, env)
                if v is _UNKNOWN:
                    env.pop(st.targets[0].id, None)
                else:
                    env[st.targets[0].id] = v
            elif isinstance(st, ast.If):
                t = _peval(st.test, env)
                raises = any(isinstance(x, ast.Raise) and raises_class(x) == 'PyCdlibInvalidInput' for x in st.body)
                if raises and t is not False:
                    for var, k in refusal_terms(st.test, env):
                        if k != float('inf'):
                            out[var] = min(out.get(var, k), k)
                if t is _UNKNOWN:
                    e1, e2 = dict(env), dict(env)
                    walk(st.body, e1)
                    walk(st.orelse, e2)
                    for k in list(env):
                        if e1.get(k, _UNKNOWN) != e2.get(k, _UNKNOWN):
                            env.pop(k)
                    for k in e1:
                        if k not in env and k in e2 and e1[k] == e2[k]:
                            env[k] = e1[k]
                elif t:
                    walk(st.body, env)
                else:
                    walk(st.orelse, env)
            elif isinstance(st, (ast.For, ast.While, ast.With, ast.Try)):
                for nm in [x.id for x in ast.walk(st) if isinstance(x, ast.Name) and isinstance(x.ctx, ast.Store)]:
                    env.pop(nm, None)
    params = [p for p in fi.params]
    lv = params[1] if len(params) > 1 else 'interchange_level'
    walk(fi.node.body, {lv: level})
    return out


def _limits(ctx):
    """length limits per level extracted from the predicates: {(kind, level): limit}"""
    out = {}
    fd = ctx.func('pycdlib._check_iso9660_directory')
    ff = ctx.func('pycdlib._check_iso9660_filename')
    dparam = fd.params[0]
    for level in (1, 2, 3):
        r = _length_refusals(ctx, fd, level)
        if dparam in r:
            out[('dir', level)] = r[dparam]
        r = _length_refusals(ctx, ff, level)
        for var, k in r.items():
            out[('file-' + var, level)] = k
    if ('dir', 1) not in out or ('file-name', 1) not in out or ('file-extension', 1) not in out:
        raise AnalysisError('anchor-vanished: length limits in the ISO9660 acceptance predicates (%s)' % out)
    return out


def _check_value(v, allowed, limit, what):
    """-> '' or reason"""
    if not isinstance(v, S):
        return 'result is not a string the analysis can bound (%r)' % (v,)
    bad = v.chars - allowed
    if bad:
        names = {'L': 'lower-case letters', '.': "'.'", ';': "';'", 'o': 'other ASCII characters', 'x': 'non-ASCII characters'}
        return '%s may contain %s, which the acceptance predicate refuses' % (what, ', '.join(names.get(b, b) for b in sorted(bad)))
    if limit is not None and v.hi > limit:
        return '%s may be %s characters long, the acceptance predicate allows %d (case mapping applied after truncation can lengthen it by a factor of %d)' % (
            what, 'unboundedly many' if v.hi == INF else int(v.hi), limit, strdom.UPPER_EXPANSION)
    return ''


@rule('SA-STR')
@props('C18')
def strrule(ctx):
    obs = []
    allowed, allowed_chars = _allowed_classes(ctx)
    limits = _limits(ctx)
    funcs = {}
    for nm in ('truncate_basename', 'mangle_file_for_iso9660', 'mangle_dir_for_iso9660'):
        funcs[nm] = ctx.func('utils.' + nm)
    top = lambda: S(1, INF, strdom.ALL, 'input')
    for level in (1, 2, 3):
        # directories
        it = strdom.Interp(ctx, funcs)
        r = it.run(funcs['mangle_dir_for_iso9660'], [top(), level])
        why = _check_value(r, allowed, limits.get(('dir', level)), 'the mangled directory name')
        if not why and isinstance(r, S) and r.lo < 1:
            why = 'the mangled directory name may be empty'
        obs.append(Ob('SA-STR', 'utils.mangle_dir_for_iso9660|level %d|legal' % level, not why, ctx.loc(funcs['mangle_dir_for_iso9660'], funcs['mangle_dir_for_iso9660'].node), why))
        for is_dir in (True, False):
            it = strdom.Interp(ctx, funcs)
            r = it.run(funcs['truncate_basename'], [top(), level, is_dir])
            lim = limits.get(('dir', level)) if is_dir else limits.get(('file-name', level))
            why = _check_value(r, allowed, lim, 'the truncated basename')
            obs.append(Ob('SA-STR', 'utils.truncate_basename|level %d|is_dir %s|legal' % (level, is_dir), not why,
                          ctx.loc(funcs['truncate_basename'], funcs['truncate_basename'].node), why))
        # files
        it = strdom.Interp(ctx, funcs)
        r = it.run(funcs['mangle_file_for_iso9660'], [top(), level])
        fi = funcs['mangle_file_for_iso9660']
        if not (isinstance(r, T) and len(r.items) == 2):
            obs.append(Ob('SA-STR', 'utils.mangle_file_for_iso9660|level %d|legal' % level, False, ctx.loc(fi, fi.node), 'result is not a (basename, extension) pair: %r' % (r,)))
            continue
        base, ext = r.items
        why = _check_value(base, allowed, limits.get(('file-name', level)), 'the mangled basename')
        obs.append(Ob('SA-STR', 'utils.mangle_file_for_iso9660|level %d|basename legal' % level, not why, ctx.loc(fi, fi.node), why))
        # extension = E + ';1'
        why = ''
        if not isinstance(ext, S):
            why = 'extension not bounded'
        else:
            e2 = S(max(ext.lo - 2, 0), ext.hi - 2, ext.chars - {';'} if True else ext.chars)
            # the version suffix contributes ';' and '1' (D)
            why = _check_value(e2, allowed | {'D'}, limits.get(('file-extension', level)), 'the mangled extension')
            if not why and ';' not in ext.chars:
                why = 'the version suffix ;1 is missing'
        obs.append(Ob('SA-STR', 'utils.mangle_file_for_iso9660|level %d|extension legal' % level, not why, ctx.loc(fi, fi.node), why))
    # identity on legal input
    for level in (1, 2, 3):
        lim = limits.get(('dir', level))
        legal = S(1, lim if lim is not None else 30, allowed, 'input')
        it = strdom.Interp(ctx, funcs)
        r = it.run(funcs['mangle_dir_for_iso9660'], [legal, level])
        ok = isinstance(r, S) and r.same == 'input'
        if level in (2, 3):
            # the mangler truncates at 31 although the checker would allow 207: identity holds up to 31
            legal = S(1, 31, allowed, 'input')
            r = strdom.Interp(ctx, funcs).run(funcs['mangle_dir_for_iso9660'], [legal, level])
            ok = isinstance(r, S) and r.same == 'input'
        obs.append(Ob('SA-STR', 'utils.mangle_dir_for_iso9660|level %d|identity on legal input' % level, ok,
                      ctx.loc(funcs['mangle_dir_for_iso9660'], funcs['mangle_dir_for_iso9660'].node),
                      '' if ok else 'a directory name that is already legal is altered by the mangler (%r)' % (r,)))
        fl = limits.get(('file-name', level)) or 30
        legal = S(1, fl, allowed, 'input')
        r = strdom.Interp(ctx, funcs).run(funcs['truncate_basename'], [legal, level, False])
        ok = isinstance(r, S) and r.same == 'input'
        obs.append(Ob('SA-STR', 'utils.truncate_basename|level %d|identity on legal input' % level, ok,
                      ctx.loc(funcs['truncate_basename'], funcs['truncate_basename'].node),
                      '' if ok else 'a basename that is already legal is altered (%r)' % (r,)))
    # level 4 files: anything goes except the ';' that separates the version at every level (the acceptance predicate
    # splits the identifier at it): neither part of the mangled name may still contain one
    fi = funcs['mangle_file_for_iso9660']
    r = strdom.Interp(ctx, funcs).run(fi, [top(), 4])
    if isinstance(r, T) and len(r.items) == 2 and all(isinstance(x, S) for x in r.items):
        bad = [nm for nm, x in zip(('name', 'extension'), r.items) if ';' in x.chars]
        obs.append(Ob('SA-STR', 'utils.mangle_file_for_iso9660|level 4|no version separator left', not bad, ctx.loc(fi, fi.node),
                      '' if not bad else 'at level 4 the mangled %s may still contain \';\': the identifier built from it is split at the first \';\' into name and '
                      'version, so the file is refused ("version between 1 and 32767") or silently recorded as another version of a shorter name' % ' and '.join(bad)))
    else:
        obs.append(Ob('SA-STR', 'utils.mangle_file_for_iso9660|level 4|no version separator left', False, ctx.loc(fi, fi.node),
                      'the level 4 result could not be bounded (%r): the replacement of \';\' is no longer visible on every path' % (r,)))
    # level 4: identity on legal input.  The only identifiers that are not legal at level 4 are the single bytes 0x00 and
    # 0x01 (reserved for the dot and dotdot records, ECMA-119 7.6.2), which the manglers may replace.  The abstract
    # inputs cover every other name: all names of two or more characters, and the one-character names outside the
    # class of control / punctuation characters the two reserved bytes belong to.
    legal4 = (('two or more characters', lambda: S(2, INF, strdom.ALL, 'input')),
              ('one character, not a control or punctuation character', lambda: S(1, 1, set(strdom.ALL) - {'o'}, 'input')))
    for nm, mk in (('truncate_basename', lambda a: [a, 4, False]), ('mangle_dir_for_iso9660', lambda a: [a, 4])):
        bad = []
        for label, inp in legal4:
            r = strdom.Interp(ctx, funcs).run(funcs[nm], mk(inp()))
            if not (isinstance(r, S) and r.same == 'input'):
                bad.append(label)
        obs.append(Ob('SA-STR', 'utils.%s|level 4|identity' % nm, not bad, ctx.loc(funcs[nm], funcs[nm].node),
                      '' if not bad else 'at level 4 a legal name must be returned unchanged (not shown for names of %s)' % ' / '.join(bad)))
    return obs


@rule('SA-STR.ext')
@props('C18')
def str_ext(ctx):
    """The mangler keeps every extension the acceptance predicate admits.

    mangle_file_for_iso9660 decides by the length of the extension whether it stays an extension or is folded into the
    base name (and its separator turned into `_`).  That decision has to agree with `_check_iso9660_filename`: an
    extension the predicate accepts at a level - up to 3 characters at level 1; at levels 2 and 3 the predicate sets no
    limit of its own and ECMA-119 7.5.1 allows 30 for name and extension together - must be kept, otherwise a name that is
    already legal (`INDEX.HTML` at level 2) comes back altered, which C18 rules out.  The guard is evaluated, for each
    level and each extension length 1..limit, by constant folding (the test only involves the level, the length and
    constants assigned under tests on the level)."""
    fm = ctx.func('utils.mangle_file_for_iso9660')
    limits = _limits(ctx)
    obs = []
    # the statement that folds the extension away: an If whose one branch assigns valid_ext = '' and mentions a length name
    lenvars = {}
    for n in ctx.own_nodes(fm):
        if isinstance(n, ast.Assign) and len(n.targets) == 1 and isinstance(n.targets[0], ast.Name) and isinstance(n.value, ast.Call) and \
                norm(n.value.func) == 'len' and n.value.args and isinstance(n.value.args[0], ast.Name) and 'ext' in n.value.args[0].id:
            lenvars[n.targets[0].id] = n
    folds = []
    for n in ctx.own_nodes(fm):
        if isinstance(n, ast.If) and any(isinstance(x, ast.Name) and x.id in lenvars for x in ast.walk(n.test)):
            def clears(body):
                return any(isinstance(x, ast.Assign) and any(isinstance(t, ast.Name) and 'ext' in t.id for t in x.targets) and
                           isinstance(x.value, ast.Constant) and x.value.value == '' for st in body for x in [st])
            if clears(n.body) or clears(n.orelse):
                folds.append((n, clears(n.body)))
    if len(folds) != 1 or not lenvars:
        raise AnalysisError('anchor-vanished: the extension-length decision of mangle_file_for_iso9660 (%d candidates)' % len(folds))
    ifnode, folds_when_true = folds[0]
    lv = fm.params[1] if len(fm.params) > 1 else 'iso_level'
    # constants assigned before the decision under tests on the level (e.g. `maxext = 3 if iso_level == 1 else 30`)
    for level in (1, 2, 3):
        env = {lv: level}
        for st in fm.node.body:
            if st.lineno >= ifnode.lineno:
                break
            for x in ast.walk(st):
                if isinstance(x, ast.Assign) and len(x.targets) == 1 and isinstance(x.targets[0], ast.Name) and x.lineno < ifnode.lineno:
                    v = _peval(x.value, env)
                    if v is not _UNKNOWN and isinstance(v, (int, float)) and x.targets[0].id not in lenvars:
                        env.setdefault(x.targets[0].id, v)
        want = limits.get(('file-extension', level)) or 30
        lost = []
        undecided = False
        for n in range(1, int(want) + 1):
            e2 = dict(env)
            for lvn in lenvars:
                e2[lvn] = n
            t = _peval(ifnode.test, e2)
            if t is _UNKNOWN:
                undecided = True
                break
            if bool(t) == folds_when_true:
                lost.append(n)
        if undecided:
            raise AnalysisError('undecided: the extension-length test `%s` of mangle_file_for_iso9660 does not fold for level %d' % (norm(ifnode.test), level))
        obs.append(Ob('SA-STR.ext', 'utils.mangle_file_for_iso9660|level %d|keeps every admissible extension' % level, not lost, ctx.loc(fm, ifnode),
                      '' if not lost else 'at level %d an extension of %s characters is folded into the base name (`%s`), although the acceptance predicate admits extensions up to '
                      '%d characters there: a name that is already legal, such as INDEX.HTML, comes back as INDEX_HTML' % (
                          level, '%d..%d' % (lost[0], lost[-1]) if len(lost) > 1 else str(lost[0]), norm(ifnode.test), want)))
    return obs
