#!/usr/bin/env python
"""
Observation B: a Rock Ridge symbolic link component that is split over
several SL entries, where one slice happens to be exactly '.' or '..', is
recorded as a CURRENT/PARENT flagged component instead of as text.

usage: W2_symlink_dot_slice.py <path-to-checkout>
"""
import io
import struct
import sys

sys.path.insert(0, sys.argv[1])

import pycdlib  # noqa: E402 pylint: disable=wrong-import-position

SECTOR = 2048


def records(img, extent, length):
    """Yield (ident, flags, extent, length, system_use) for a directory."""
    data = img[extent * SECTOR:extent * SECTOR + length]
    pos = 0
    while pos < len(data):
        reclen = data[pos]
        if reclen == 0:
            pos = (pos // SECTOR + 1) * SECTOR
            continue
        rec = data[pos:pos + reclen]
        ext, = struct.unpack_from('<L', rec, 2)
        dlen, = struct.unpack_from('<L', rec, 10)
        idlen = rec[32]
        ident = rec[33:33 + idlen]
        su = 33 + idlen + (1 - idlen % 2)
        yield ident, rec[25], ext, dlen, rec[su:]
        pos += reclen


def susp(img, area):
    """Yield (signature, payload) of all SUSP entries, following CE."""
    while area is not None:
        nxt = None
        pos = 0
        while pos + 4 <= len(area):
            sig = area[pos:pos + 2]
            elen = area[pos + 2]
            if elen < 4:
                break
            body = area[pos + 4:pos + elen]
            if sig == b'CE':
                blk, = struct.unpack_from('<L', body, 0)
                off, = struct.unpack_from('<L', body, 8)
                clen, = struct.unpack_from('<L', body, 16)
                nxt = img[blk * SECTOR + off:blk * SECTOR + off + clen]
            elif sig == b'ST':
                break
            else:
                yield sig, body
            pos += elen
        area = nxt


def read_symlink(img, su):
    """
    Decode the SL entries of one system use area the way RRIP 4.1.3
    describes it.  Returns (target, list of complaints).
    """
    complaints = []
    comps = []   # (flags, data)
    sl_seen = 0
    last_sl_continues = False
    for sig, body in susp(img, su):
        if sig != b'SL':
            continue
        if sl_seen and not last_sl_continues:
            complaints.append('SL entry follows an SL entry without CONTINUE flag')
        sl_seen += 1
        last_sl_continues = bool(body[0] & 1)
        pos = 1
        while pos + 2 <= len(body):
            flags = body[pos]
            clen = body[pos + 1]
            comps.append((flags, body[pos + 2:pos + 2 + clen]))
            pos += 2 + clen
    if last_sl_continues:
        complaints.append('last SL entry has the CONTINUE flag')

    target = b''
    prev_continue = False
    for index, (flags, data) in enumerate(comps):
        special = flags & 0x0e
        if special and data:
            complaints.append('component %d: flags 0x%x with %d bytes of content' % (index, flags, len(data)))
        if special and (flags & 1):
            complaints.append('component %d: CURRENT/PARENT/ROOT component (flags 0x%x) is marked as continued' % (index, flags))
        if special and prev_continue:
            complaints.append('component %d: CURRENT/PARENT/ROOT component (flags 0x%x) continues a text component' % (index, flags))
        if special == 2:
            text = b'.'
        elif special == 4:
            text = b'..'
        elif special == 8:
            text = b'/'
        else:
            text = data
        target += text
        prev_continue = bool(flags & 1)
        if not prev_continue and special != 8 and index != len(comps) - 1:
            target += b'/'
    return target, complaints


def main():
    # A component is cut where the room in the directory record (first SL
    # entry) or in an SL entry (250 bytes of component area) ends.  Pad the
    # target so that the cut falls right before or after a dot.
    targets = [
        './../x/.././y',            # real special components stay special
        '/a/./../b',
    ]
    # Put hidden-file style names behind fillers of every length, so that
    # some of them are cut right after the leading dot(s).
    for fill in range(365, 390):
        # for some of these the last slice is exactly '.' or '..'
        targets.append('x' * fill + '.')
        targets.append('x' * fill + '..')
    for fill in range(100, 140):
        targets.append('f' * fill + '/.hidden')
        targets.append('f' * fill + '/..data')

    iso = pycdlib.PyCdlib()
    iso.new(rock_ridge='1.09')
    for index, target in enumerate(targets):
        iso.add_symlink('/S%03d.;1' % index, 's%03d' % index, target)
    out = io.BytesIO()
    iso.write_fp(out)
    iso.close()
    img = out.getvalue()

    problems = []
    root_ext, = struct.unpack_from('<L', img, 16 * SECTOR + 156 + 2)
    root_len, = struct.unpack_from('<L', img, 16 * SECTOR + 156 + 10)
    found = {}
    for ident, _flags, _ext, _dlen, su in list(records(img, root_ext, root_len))[2:]:
        found[ident.decode()] = read_symlink(img, su)
    for index, target in enumerate(targets):
        got, complaints = found['S%03d.;1' % index]
        label = target if len(target) < 30 else '%s...(%d bytes)...%s' % (target[:3], len(target), target[-10:])
        if got != target.encode():
            problems.append('%s: independent reader sees target %r' % (label, got[-20:] if len(got) > 30 else got))
        for complaint in complaints:
            problems.append('%s: %s' % (label, complaint))

    # What the library itself reads back.
    iso = pycdlib.PyCdlib()
    iso.open_fp(io.BytesIO(img))
    for index, target in enumerate(targets):
        rec = iso.get_record(iso_path='/S%03d.;1' % index)
        got = rec.rock_ridge.symlink_path()
        if got != target.encode():
            problems.append('%s: pycdlib itself reads back %r' % (target[-12:], got[-20:]))
    iso.close()

    if problems:
        for problem in problems:
            print(problem)
        return 1
    print('OK')
    return 0


if __name__ == '__main__':
    sys.exit(main())
