"""SA-PAIR.rr_ce_slot: every Rock Ridge record that is linked into a directory gets its continuation slot (C01, C04, C08).

A directory record whose Rock Ridge entries do not fit carries a CE entry; where that continuation area
lives (block, offset) is decided by PyCdlib._update_rr_ce_entry(rec), which also accounts for a new
continuation block.  A record that is linked with _add_child_to_dr(rec) but never passed to
_update_rr_ce_entry keeps block 0 / offset 0: its continuation data is mastered at the start of the image (or on
top of another record's).  For each `_add_child_to_dr(X)` whose X was created in the same function by
new_file / new_dir / new_symlink with a Rock Ridge version argument that is not the constant '' the rule
requires a later `_update_rr_ce_entry(X)` in that function."""
import ast

from ..registry import rule, props
from ..report import Ob
from ..model import norm, AnalysisError

CREATORS = {'new_file': 'rock_ridge', 'new_dir': 'rock_ridge', 'new_symlink': 'rock_ridge'}


@rule('SA-PAIR.rr_ce_slot')
@props('C01', 'C04', 'C08')
def rr_ce_slot(ctx):
    obs = []
    n = 0
    drc = ctx.cls('dr.DirectoryRecord')
    for fi in ctx.m.pkg_functions():
        adds = [c for c in ctx.calls(fi) if c.name == '_add_child_to_dr' and c.node.args and isinstance(c.node.args[0], ast.Name)]
        if not adds:
            continue
        for a in adds:
            var = a.node.args[0].id
            # creation of var in this function
            rr_arg = None
            creator = None
            for c in ctx.calls(fi):
                if c.name in CREATORS and isinstance(c.node.func, ast.Attribute) and isinstance(c.node.func.value, ast.Name) and \
                        c.node.func.value.id == var and c.node.lineno < a.node.lineno:
                    callee = drc.methods.get(c.name)
                    if callee is None:
                        continue
                    params = [p for p in callee.params[1:]]
                    if 'rock_ridge' in params:
                        i = params.index('rock_ridge')
                        rr_arg = c.node.args[i] if i < len(c.node.args) else None
                        for kw in c.node.keywords:
                            if kw.arg == 'rock_ridge':
                                rr_arg = kw.value
                        creator = c
            if creator is None:
                continue          # not created here (dot/dotdot helpers, parameters)
            if isinstance(rr_arg, ast.Constant) and rr_arg.value == '':
                continue          # Joliet records: no Rock Ridge at all
            n += 1
            slot = [c for c in ctx.calls(fi) if c.name == '_update_rr_ce_entry' and c.node.args and isinstance(c.node.args[0], ast.Name)
                    and c.node.args[0].id == var and c.node.lineno > a.node.lineno]
            ok = bool(slot)
            obs.append(Ob('SA-PAIR.rr_ce_slot', '%s|%s' % (fi.qual, norm(a.node)), ok, ctx.loc(fi, a.node),
                          '' if ok else '`%s` is created with Rock Ridge (%s) and linked with _add_child_to_dr, but never handed to _update_rr_ce_entry: if its Rock Ridge '
                          'entries need a continuation area (long name / symlink target), the CE entry keeps block 0, offset 0 and the continuation data is written '
                          'over the start of the image or over another record\'s area' % (var, norm(creator.node.func))))
    if n < 4:
        raise AnalysisError('anchor-vanished: Rock Ridge records linked with _add_child_to_dr (%d)' % n)
    return obs
