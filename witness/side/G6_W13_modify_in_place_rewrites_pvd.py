"""
Every modify_file_in_place() regenerates the whole Primary Volume Descriptor
sector instead of only the fields that change: the volume modification date is
replaced and the 653 reserved bytes at the end of the descriptor are zeroed,
even when the size of the volume stays the same.
"""
import io
import os
import shutil
import sys
import tempfile
import time

sys.path.insert(0, sys.argv[1])
import pycdlib  # noqa: E402


def main():
    tmpdir = tempfile.mkdtemp()
    try:
        path = os.path.join(tmpdir, 'img.iso')
        iso = pycdlib.PyCdlib()
        iso.new()
        iso.add_fp(io.BytesIO(b'a' * 1000), 1000, '/A.;1')
        iso.write(path)
        iso.close()
        with open(path, 'r+b') as fp:
            # Some mastering tools keep data in the reserved tail of the PVD.
            fp.seek(16 * 2048 + 1395)
            fp.write(b'R' * 653)
        with open(path, 'rb') as fp:
            before = fp.read()

        time.sleep(1.1)
        iso = pycdlib.PyCdlib()
        iso.open(path, 'r+b')
        iso.modify_file_in_place(io.BytesIO(b'x' * 1000), 1000, '/A.;1')
        iso.close()
        with open(path, 'rb') as fp:
            after = fp.read()
    finally:
        shutil.rmtree(tmpdir)

    pvd_before = before[16 * 2048:17 * 2048]
    pvd_after = after[16 * 2048:17 * 2048]
    changed = [i for i in range(2048) if pvd_before[i] != pvd_after[i]]
    if changed:
        print('replacing a 1000 byte file by another 1000 bytes changed %d bytes of the PVD (offsets %d..%d)'
              % (len(changed), changed[0], changed[-1]))
        return 1
    print('OK')
    return 0


if __name__ == '__main__':
    sys.exit(main())
