"""
Reading a boot file that carries an El Torito boot info table from an image
that has not been written yet (new(); add_fp(); add_eltorito(...,
boot_info_table=True); get_file_from_iso_fp()) raises AttributeError, because
the table needs extent locations that were not assigned yet.
"""
import io
import sys

sys.path.insert(0, sys.argv[1])
import pycdlib  # noqa: E402


def main():
    problems = []
    for always_consistent in (False, True):
        content = b'boot' * 30
        iso = pycdlib.PyCdlib(always_consistent=always_consistent)
        iso.new()
        iso.add_fp(io.BytesIO(content), len(content), '/BOOT.;1')
        iso.add_eltorito('/BOOT.;1', '/BOOT.CAT;1', boot_info_table=True)
        iso.add_fp(io.BytesIO(b'x' * 5000), 5000, '/AAA.;1')
        before = io.BytesIO()
        try:
            iso.get_file_from_iso_fp(before, iso_path='/BOOT.;1')
        except pycdlib.pycdlibexception.PyCdlibException as e:
            problems.append('always_consistent=%s: %r' % (always_consistent, e))
            iso.close()
            continue
        except Exception as e:  # pylint: disable=broad-except
            problems.append('always_consistent=%s: get_file_from_iso_fp before write: %s: %s'
                            % (always_consistent, type(e).__name__, e))
            iso.close()
            continue

        # What we got must be what ends up in the written image.
        out = io.BytesIO()
        iso.write_fp(out)
        extent = iso.get_record(iso_path='/BOOT.;1').extent_location()
        iso.close()
        ondisk = out.getvalue()[extent * 2048:extent * 2048 + len(content)]
        if before.getvalue() != ondisk:
            problems.append('always_consistent=%s: data read before write differs from the written image'
                            % (always_consistent))
        if ondisk[:8] != content[:8] or ondisk[64:] != content[64:] or ondisk[8:64] == content[8:64]:
            problems.append('always_consistent=%s: written boot file is not the source with a boot info table'
                            % (always_consistent))

    if problems:
        print('\n'.join(problems))
        return 1
    print('OK')
    return 0


if __name__ == '__main__':
    sys.exit(main())
