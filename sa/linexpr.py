"""Linear integer expressions over opaque terms: structural comparison that is
insensitive to reordering / re-association / temporaries (after substitution)."""
import ast

from .model import norm, fold, NotConst


class Lin:
    __slots__ = ('terms', 'const')

    def __init__(self, terms=None, const=0):
        self.terms = {k: v for k, v in (terms or {}).items() if v != 0}
        self.const = const

    def __add__(self, o):
        t = dict(self.terms)
        for k, v in o.terms.items():
            t[k] = t.get(k, 0) + v
        return Lin(t, self.const + o.const)

    def scale(self, c):
        return Lin({k: v * c for k, v in self.terms.items()}, self.const * c)

    def __sub__(self, o):
        return self + o.scale(-1)

    def __eq__(self, o):
        return isinstance(o, Lin) and self.terms == o.terms and self.const == o.const

    def __hash__(self):
        return hash((frozenset(self.terms.items()), self.const))

    def is_const(self):
        return not self.terms

    def __repr__(self):
        parts = []
        for k in sorted(self.terms):
            v = self.terms[k]
            parts.append(('%s' % k) if v == 1 else ('%d*%s' % (v, k)))
        if self.const or not parts:
            parts.append(str(self.const))
        return ' + '.join(parts)


def lin(node, subst=None, folder=None):
    """AST expression -> Lin.  subst: {name: ast expr} local copy propagation.
    folder(node) may return a python int for constant subexpressions (or raise NotConst)."""
    subst = subst or {}

    def go(n, depth=0):
        if depth > 30:
            return Lin({norm(n): 1})
        if isinstance(n, ast.Constant) and isinstance(n.value, int) and not isinstance(n.value, bool):
            return Lin(None, n.value)
        if folder is not None:
            try:
                v = folder(n)
                if isinstance(v, int) and not isinstance(v, bool):
                    return Lin(None, v)
            except NotConst:
                pass
        if isinstance(n, ast.Name) and n.id in subst:
            return go(subst[n.id], depth + 1)
        if isinstance(n, ast.UnaryOp) and isinstance(n.op, ast.USub):
            return go(n.operand, depth + 1).scale(-1)
        if isinstance(n, ast.UnaryOp) and isinstance(n.op, ast.UAdd):
            return go(n.operand, depth + 1)
        if isinstance(n, ast.BinOp):
            if isinstance(n.op, ast.Add):
                return go(n.left, depth + 1) + go(n.right, depth + 1)
            if isinstance(n.op, ast.Sub):
                return go(n.left, depth + 1) - go(n.right, depth + 1)
            if isinstance(n.op, ast.Mult):
                a = go(n.left, depth + 1)
                b = go(n.right, depth + 1)
                if a.is_const():
                    return b.scale(a.const)
                if b.is_const():
                    return a.scale(b.const)
                ta, tb = sorted([repr(a), repr(b)])
                return Lin({'(%s)*(%s)' % (ta, tb): 1})
            if isinstance(n.op, (ast.FloorDiv, ast.Mod, ast.LShift, ast.RShift, ast.BitAnd, ast.BitOr)):
                a = go(n.left, depth + 1)
                b = go(n.right, depth + 1)
                sym = {ast.FloorDiv: '//', ast.Mod: '%', ast.LShift: '<<', ast.RShift: '>>',
                       ast.BitAnd: '&', ast.BitOr: '|'}[type(n.op)]
                return Lin({'(%r)%s(%r)' % (a, sym, b): 1})
        if isinstance(n, ast.Call):
            # normalise arguments of calls too
            fn = norm(n.func)
            args = [repr(go(a, depth + 1)) for a in n.args]
            if fn in ('min', 'max'):
                args = sorted(args)
            kws = ['%s=%r' % (k.arg, go(k.value, depth + 1)) for k in n.keywords]
            return Lin({'%s(%s)' % (fn, ', '.join(args + kws)): 1})
        return Lin({norm(n): 1})

    return go(node)


def cmp_canon(test, subst=None, folder=None):
    """Canonical form of an integer comparison `a OP b`:  ('>=', Lin) meaning Lin >= 0,
    or ('==', Lin) / ('!=', Lin).  Returns None if not a simple comparison."""
    if not (isinstance(test, ast.Compare) and len(test.ops) == 1):
        return None
    a = lin(test.left, subst, folder)
    b = lin(test.comparators[0], subst, folder)
    op = test.ops[0]
    if isinstance(op, ast.Gt):       # a > b  <=> a - b - 1 >= 0
        return ('>=', a - b + Lin(None, -1))
    if isinstance(op, ast.GtE):
        return ('>=', a - b)
    if isinstance(op, ast.Lt):       # a < b <=> b - a - 1 >= 0
        return ('>=', b - a + Lin(None, -1))
    if isinstance(op, ast.LtE):
        return ('>=', b - a)
    if isinstance(op, ast.Eq):
        d = a - b
        # sign-normalise
        return ('==', _signnorm(d))
    if isinstance(op, ast.NotEq):
        return ('!=', _signnorm(a - b))
    return None


def _signnorm(d):
    if d.terms:
        k = sorted(d.terms)[0]
        if d.terms[k] < 0:
            return d.scale(-1)
    elif d.const < 0:
        return d.scale(-1)
    return d
