"""
Witness D: extracting the Rock Ridge view of a tree deeper than 8 levels with
pycdlib-extract-files must reproduce the source tree and nothing else (no
'rr_moved' directory).

Usage: python W4_extract_rr_moved.py <path-to-checkout>
"""
import os
import subprocess
import sys
import tempfile

sys.path.insert(0, sys.argv[1])

import pycdlib  # pylint: disable=unused-import


def run_tool(checkout, name, args, cwd):
    env = dict(os.environ)
    env['PYTHONPATH'] = checkout
    return subprocess.run([sys.executable, os.path.join(checkout, 'tools', name)] + args,
                          cwd=cwd, env=env, stdout=subprocess.PIPE,
                          stderr=subprocess.STDOUT, universal_newlines=True)


def snapshot(top):
    result = {}
    for dirpath, dirnames, filenames in os.walk(top):
        for name in dirnames + filenames:
            full = os.path.join(dirpath, name)
            rel = os.path.relpath(full, top)
            if os.path.islink(full):
                result[rel] = ('link', os.readlink(full))
            elif os.path.isdir(full):
                result[rel] = ('dir', None)
            else:
                with open(full, 'rb') as infp:
                    result[rel] = ('file', infp.read())
    return result


def compare(src, got, what, problems):
    want = snapshot(src)
    have = snapshot(got)
    for rel in sorted(set(want) - set(have)):
        problems.append('%s: %s is missing from the extracted tree' % (what, rel))
    for rel in sorted(set(have) - set(want)):
        problems.append('%s: %s (%s) is extracted but not in the source' % (what, rel, have[rel][0]))
    for rel in sorted(set(have) & set(want)):
        if have[rel] != want[rel]:
            problems.append('%s: %s differs' % (what, rel))


def main():
    checkout = os.path.abspath(sys.argv[1])
    problems = []
    with tempfile.TemporaryDirectory() as tmp:
        src = os.path.join(tmp, 'src')
        deep = os.path.join(src, 'd1', 'd2', 'd3', 'd4', 'd5', 'd6', 'd7', 'd8', 'd9', 'd10')
        os.makedirs(deep)
        with open(os.path.join(deep, 'deep.txt'), 'wb') as outfp:
            outfp.write(b'deep\n')
        with open(os.path.join(src, 'd1', 'd2', 'd3', 'd4', 'd5', 'd6', 'd7', 'seven.txt'), 'wb') as outfp:
            outfp.write(b'seven\n')
        with open(os.path.join(src, 'top.txt'), 'wb') as outfp:
            outfp.write(b'top\n')
        os.symlink('d1/d2', os.path.join(src, 'link'))

        for name, hide in (('plain', []), ('hidden', ['-hide-rr-moved'])):
            out = os.path.join(tmp, name + '.iso')
            res = run_tool(checkout, 'pycdlib-genisoimage', ['-quiet', '-o', out, '-R'] + hide + [src], tmp)
            if res.returncode != 0:
                print('pycdlib-genisoimage failed:\n' + res.stdout)
                return 1
            dest = os.path.join(tmp, name + '.out')
            os.mkdir(dest)
            res = run_tool(checkout, 'pycdlib-extract-files',
                           ['-path-type', 'rockridge', '-extract-to', dest, out], tmp)
            if res.returncode != 0:
                print('pycdlib-extract-files failed:\n' + res.stdout)
                return 1
            compare(src, dest, 'genisoimage -R %s' % (' '.join(hide)), problems)

    if problems:
        print('\n'.join(problems))
        return 1
    print('OK')
    return 0


if __name__ == '__main__':
    sys.exit(main())
