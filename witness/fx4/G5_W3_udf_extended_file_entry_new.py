"""
Witness for observation C: a UDF Extended File Entry made with new() must be
complete, so that it can be recorded, and its creation time (like its access,
modification and attribute times) must denote the instant it was made at.

Usage: W3_udf_extended_file_entry_new.py <path-to-checkout>
"""
import calendar
import os
import sys
import time

sys.path.insert(0, sys.argv[1])

import pycdlib.udf  # noqa: E402  pylint: disable=wrong-import-position

ZONES = ('UTC0', 'EST5EDT,M3.2.0,M11.1.0', 'ACST-9:30ACDT,M10.1.0,M4.1.0/3',
         '<+0545>-5:45')


def instant(stamp):
    """Seconds since the epoch that a UDFTimestamp denotes."""
    return calendar.timegm((stamp.year, stamp.month, stamp.day, stamp.hour,
                            stamp.minute, stamp.second, 0, 0, 0)) - stamp.tz * 60


def check(file_type, length, problems, label):
    before = int(time.time())
    entry = pycdlib.udf.UDFExtendedFileEntry()
    entry.new(file_type, length, 2048)
    after = int(time.time())

    for name in ('access_time', 'mod_time', 'creation_time', 'attr_time'):
        stamp = getattr(entry, name, None)
        if stamp is None:
            problems.append('%s: new(%r) did not set %s' % (label, file_type, name))
        elif not before <= instant(stamp) <= after:
            problems.append('%s: new(%r) set %s to instant %d, made between %d and %d'
                            % (label, file_type, name, instant(stamp), before, after))

    try:
        rec = entry.record()
    except Exception as exc:  # pylint: disable=broad-except
        problems.append('%s: record() after new(%r) raised %r' % (label, file_type, exc))
        return

    tag = pycdlib.udf.UDFTag()
    tag.parse(rec, 0)
    again = pycdlib.udf.UDFExtendedFileEntry()
    again.parse(rec, 0, tag)
    for name in ('access_time', 'mod_time', 'creation_time', 'attr_time'):
        if getattr(entry, name, None) is None:
            continue
        if getattr(again, name).record() != getattr(entry, name).record():
            problems.append('%s: %s changed when the new(%r) entry was recorded and parsed'
                            % (label, name, file_type))
    if again.info_len != entry.info_len or again.obj_size != entry.info_len:
        problems.append('%s: lengths of the new(%r) entry came back as %d/%d, expected %d'
                        % (label, file_type, again.info_len, again.obj_size, entry.info_len))
    if again.record() != rec:
        problems.append('%s: the recorded new(%r) entry does not parse and record back to itself'
                        % (label, file_type))


def main():
    problems = []
    for zone in ZONES:
        os.environ['TZ'] = zone
        time.tzset()
        check('file', 5, problems, zone)
        check('dir', 2048, problems, zone)
        if problems:
            break

    if problems:
        print('a new UDF Extended File Entry is incomplete:')
        for problem in problems:
            print('  ' + problem)
        return 1

    print('OK')
    return 0


if __name__ == '__main__':
    sys.exit(main())
