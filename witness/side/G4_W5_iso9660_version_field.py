"""
The version of an ISO9660 file identifier is checked with int(): a
non-numeric version ('/BAR.;A') escapes as ValueError instead of
PyCdlibInvalidInput, and versions that int() happens to tolerate ('1_0',
' 1', '+1', '1<newline>') are accepted and recorded in the image.
"""
import io
import sys

sys.path.insert(0, sys.argv[1])

import pycdlib  # noqa: E402 pylint: disable=wrong-import-position


def main():
    problems = []

    for path in ('/BAR.;A', '/BAZ.;1_0', '/BAY.; 1', '/BAX.;+1', '/BAS.;1\n',
                 '/BAW.;0', '/BAV.;32768', '/BAQ.;-1'):
        iso = pycdlib.PyCdlib()
        iso.new()
        try:
            iso.add_fp(io.BytesIO(b'a'), 1, path)
            out = io.BytesIO()
            iso.write_fp(out)
            ident = path[1:].encode()
            problems.append('%r accepted%s' % (path, ' and recorded in the image' if ident in out.getvalue() else ''))
        except pycdlib.pycdlibexception.PyCdlibInvalidInput:
            pass
        except Exception as exc:  # pylint: disable=broad-except
            problems.append('%r raised %s (%s) instead of PyCdlibInvalidInput' % (path, type(exc).__name__, exc))
        iso.close()

    # Legal versions (and the tolerated missing version) must still work.
    iso = pycdlib.PyCdlib()
    iso.new()
    for path in ('/A.;1', '/B.;32767', '/C.;17', '/D.', '/E'):
        try:
            iso.add_fp(io.BytesIO(b'a'), 1, path)
        except Exception as exc:  # pylint: disable=broad-except
            problems.append('%r refused: %s: %s' % (path, type(exc).__name__, exc))
    iso.write_fp(io.BytesIO())
    iso.close()

    if problems:
        for problem in problems:
            print(problem)
        return 1
    print('OK')
    return 0


if __name__ == '__main__':
    sys.exit(main())
