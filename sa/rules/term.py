"""SA-TERM: every loop reachable from PyCdlib._open_fp matches a progress idiom.

`while` loops are classified in tables/loops.json (confirmed by reading); the checker re-verifies
on every run the structural facts each idiom claims:

 counter      every cycle of the loop passes an update of the counter (var += P / var -= P /
              var = var +- P) whose step P is proven positive, and all other updates of the counter
              move it in the same direction by a non-negative amount.  Positivity arguments:
                const                    P folds to a constant > 0
                guard:<test>             a test `P == 0` (or `not P`) in the loop dominates the update and
                                         the update is reachable only through its false edge
                callee_min:<function>    P is the (tuple element of the) result of that function, every
                                         return of which has a lower bound >= 1 (lower-bound evaluator)
                sector_pad               P = K - (X % K)
                min_of_nonempty_slice    P = min(len(S[var:]), const) and the loop test is var < len(S)
                min_with_counter         P = min(var, const>0) and the loop test is var > 0
                nonneg                   only allowed next to a positive update on every cycle
 bisect       mid = (lo + hi) // 2 with lo = mid + 1 / hi = mid on the two branches
 read-until-short   each cycle reads a constant positive number of bytes and a test on the length of
              what was read leaves the loop
 clear-lowest-bit   x &= x - 1 under `while x`
 worklist     a queue of objects built from on-disc pointers: the append must be guarded by a visited
              set (membership test dominating the append, and an add to the same set)
 consume-until-exception / not-image-driven   reviewed entries with the stated reason; the first is
              tied to SA-EXC covering the exception kind, the second to the constant argument that
              keeps the path unreachable from open.

`for` loops must iterate over a container they do not grow.
"""
import ast

from ..registry import rule, props
from ..report import Ob, load_json
from ..model import norm, fold, NotConst, AnalysisError, stmt_head
from ..engine import raises_class
from .. import cfg as cfgmod
from .. import lenalg

TABLE = load_json('tables/loops.json', None)
ROOT = 'pycdlib.PyCdlib._open_fp'


def _loops(ctx, fi):
    out = []
    for node in ctx.own_nodes(fi):
        if isinstance(node, (ast.While, ast.For)):
            out.append(node)
    out.sort(key=lambda n: (n.lineno, n.col_offset))
    return out


def _updates(loop, var):
    """(stmt, op, step expr) for updates of var inside loop"""
    out = []
    for s in ast.walk(loop):
        if isinstance(s, ast.AugAssign) and isinstance(s.target, ast.Name) and s.target.id == var:
            if isinstance(s.op, ast.Add):
                out.append((s, '+', s.value))
            elif isinstance(s.op, ast.Sub):
                out.append((s, '-', s.value))
            else:
                out.append((s, '?', s.value))
        elif isinstance(s, ast.Assign) and len(s.targets) == 1 and isinstance(s.targets[0], ast.Name) and s.targets[0].id == var:
            v = s.value
            if isinstance(v, ast.BinOp) and isinstance(v.left, ast.Name) and v.left.id == var and isinstance(v.op, (ast.Add, ast.Sub)):
                out.append((s, '+' if isinstance(v.op, ast.Add) else '-', v.right))
            else:
                out.append((s, '?', v))
    return out


_INPROGRESS = set()


def lower_bound(ctx, fi, expr, depth=0, nonneg_funcs=()):
    """A sound lower bound of an int expression (None = unknown).  Names: minimum over all
    assignments in the function (a fixpoint of the monotone system built from + and * of
    non-negative terms; a name met again while it is being evaluated contributes +inf, i.e. the
    greatest fixpoint, which every run-time value dominates by induction on execution order);
    attributes / len(): 0 (lengths and unsigned on-disc fields)."""
    if depth > 12:
        return None
    try:
        v = lenalg.folder(ctx, fi)(expr)
        if isinstance(v, int) and not isinstance(v, bool):
            return v
    except NotConst:
        pass
    if isinstance(expr, ast.BinOp) and isinstance(expr.op, ast.Add):
        a, b = lower_bound(ctx, fi, expr.left, depth + 1, nonneg_funcs), lower_bound(ctx, fi, expr.right, depth + 1, nonneg_funcs)
        return a + b if a is not None and b is not None else None
    if isinstance(expr, ast.BinOp) and isinstance(expr.op, ast.Mult):
        a, b = lower_bound(ctx, fi, expr.left, depth + 1, nonneg_funcs), lower_bound(ctx, fi, expr.right, depth + 1, nonneg_funcs)
        return a * b if a is not None and b is not None and a >= 0 and b >= 0 else None
    if isinstance(expr, ast.BinOp) and isinstance(expr.op, ast.Mod):
        b = lower_bound(ctx, fi, expr.right, depth + 1, nonneg_funcs)
        return 0 if b is not None and b > 0 else None
    if isinstance(expr, ast.Attribute):
        return 0       # lengths / counts parsed from unsigned fields
    if isinstance(expr, ast.Call):
        if isinstance(expr.func, ast.Name) and expr.func.id == 'len':
            return 0
        callees, kind = ctx.t._resolve(expr, fi)
        if kind in ('func', 'method') and len(callees) == 1:
            c = callees[0]
            if c.qual in nonneg_funcs:
                return 0
            return return_lower_bound(ctx, c, None, depth + 1, nonneg_funcs)
        return None
    if isinstance(expr, ast.Name):
        key = (fi.qual, expr.id)
        if key in _INPROGRESS:
            return float('inf')
        _INPROGRESS.add(key)
        try:
            return _name_lower_bound(ctx, fi, expr, depth, nonneg_funcs)
        finally:
            _INPROGRESS.discard(key)
    return None


def _name_lower_bound(ctx, fi, expr, depth, nonneg_funcs):
    if True:
        params = [p.lstrip('*') for p in fi.params]
        vals = []
        for n in ctx.own_nodes(fi):
            if isinstance(n, ast.Assign):
                for t in n.targets:
                    if isinstance(t, ast.Name) and t.id == expr.id:
                        vals.append(('e', n.value))
                    elif isinstance(t, ast.Tuple):
                        for i, e in enumerate(t.elts):
                            if isinstance(e, ast.Name) and e.id == expr.id:
                                vals.append(('t', (n.value, i)))
            elif isinstance(n, ast.AugAssign) and isinstance(n.target, ast.Name) and n.target.id == expr.id:
                if isinstance(n.op, ast.Add):
                    vals.append(('a', n.value))
                else:
                    return None
        if expr.id in params:
            return 0 if not vals else None    # sizes / lengths passed in
        if not vals:
            return None
        lbs = []
        for k, v in vals:
            if k == 'e':
                lbs.append(lower_bound(ctx, fi, v, depth + 1, nonneg_funcs))
            elif k == 'a':
                x = lower_bound(ctx, fi, v, depth + 1, nonneg_funcs)
                if x is None or x < 0:
                    return None
            else:
                call, i = v
                if isinstance(call, ast.Call):
                    callees, kind = ctx.t._resolve(call, fi)
                    if kind in ('func', 'method') and len(callees) == 1:
                        lbs.append(return_lower_bound(ctx, callees[0], i, depth + 1, nonneg_funcs))
                        continue
                lbs.append(0 if isinstance(call, ast.Call) and norm(call.func).startswith('struct.unpack') else None)
        if any(x is None for x in lbs) or not lbs:
            return None
        return min(lbs)
    return None


def return_lower_bound(ctx, fi, index, depth=0, nonneg_funcs=()):
    """lower bound over all return statements of fi (of tuple element `index` if given)"""
    rets = [n for n in ctx.own_nodes(fi) if isinstance(n, ast.Return)]
    if not rets:
        return None
    lbs = []
    for r in rets:
        v = r.value
        if v is None:
            return None
        if index is not None:
            if isinstance(v, ast.Tuple) and index < len(v.elts):
                v = v.elts[index]
            else:
                return None
        lbs.append(lower_bound(ctx, fi, v, depth + 1, nonneg_funcs))
    if any(x is None for x in lbs):
        return None
    return min(lbs)


def _cycle_must_pass(ctx, fi, g, head, good_nodes):
    """every path from the loop head's true edge back to the head passes a node in good_nodes"""
    good = set(n.id for n in good_nodes)

    def transfer(n, st, lab):
        if n.id in good:
            return True
        return st
    # start states: successors of head via 'T'
    IN = {n.id: None for n in g.nodes}
    work = []
    for m, lab in head.succ:
        if lab == 'T':
            IN[m.id] = False
            work.append(m)
    while work:
        n = work.pop()
        st = IN[n.id]
        out = True if n.id in good else st
        for m, lab in n.succ:
            if m is head:
                if not out:
                    return False
                continue
            old = IN[m.id]
            new = out if old is None else (old and out)
            if new != old:
                IN[m.id] = new
                work.append(m)
    return True


def _in_loop_nodes(g, head):
    return [n for n in g.nodes if head in n.loops]


def _resolve_in_loop(loop, e):
    if isinstance(e, ast.Name):
        for n in ast.walk(loop):
            if isinstance(n, ast.Assign) and len(n.targets) == 1 and isinstance(n.targets[0], ast.Name) and n.targets[0].id == e.id:
                return n.value
    return e


def _is_const(ctx, fi, a):
    try:
        lenalg.folder(ctx, fi)(a)
        return True
    except NotConst:
        return False


def _pos_const(ctx, fi, a):
    """a literal or a module/class constant with a positive integer value"""
    try:
        v = lenalg.folder(ctx, fi)(a)
        return isinstance(v, int) and not isinstance(v, bool) and v > 0
    except NotConst:
        return False


def _renaming(table_text, actual_text):
    """{name in table_text: name in actual_text} if the two statements are equal up to a consistent renaming of plain
    names (attributes, constants and structure must agree), else None"""
    try:
        a, b = ast.parse(table_text), ast.parse(actual_text)
    except SyntaxError:
        return None
    ren = {}
    rev = {}
    na, nb = list(ast.walk(a)), list(ast.walk(b))
    if len(na) != len(nb):
        return None
    for x, y in zip(na, nb):
        if type(x) is not type(y):
            return None
        if isinstance(x, ast.Name):
            if x.id == 'self' or y.id == 'self':
                if x.id != y.id:
                    return None
                continue
            if ren.setdefault(x.id, y.id) != y.id or rev.setdefault(y.id, x.id) != x.id:
                return None
        elif isinstance(x, ast.Attribute):
            if x.attr != y.attr:
                return None
        elif isinstance(x, ast.Constant):
            if x.value != y.value:
                return None
    return ren


def check_counter(ctx, fi, g, loop, head, ent, nonneg_funcs):
    var = ent['var']
    ups = _updates(loop, var)
    prog = ent['progress']
    problems = []
    positive_nodes = []
    dirs = set()
    dom = None
    for st, op, step in ups:
        txt = norm(st)
        why = prog.get(txt)
        if why is None:
            # the same statement with its locals renamed: match by shape and carry the renaming into the reason
            for k, w in prog.items():
                ren = _renaming(k, txt)
                if ren is not None and ren.get(var, var) == var:
                    why = w
                    if why.startswith('guard:'):
                        import re as _re
                        why = 'guard:' + _re.sub(r'\b(%s)\b' % '|'.join(map(_re.escape, ren)), lambda m_: ren[m_.group(1)], why[6:]) if ren else why
                    break
        if why is None:
            problems.append('update `%s` of the loop counter is not classified' % txt)
            continue
        dirs.add(op)
        node = g.node_of(st)
        ok = False
        if why == 'const':
            try:
                v = lenalg.folder(ctx, fi)(step)
                ok = isinstance(v, int) and v > 0
            except NotConst:
                ok = False
            if not ok:
                problems.append('step of `%s` is not a positive constant' % txt)
        elif why.startswith('guard:'):
            gt = why[6:]
            if dom is None:
                dom = g.dominators()
            found = False
            for d in dom[node.id]:
                dn = g.nodes[d]
                if dn.kind == 'test' and head in dn.loops and norm(dn.ast) == gt and norm(step) in gt:
                    # the update must not be reachable from the guard's true edge without passing the head
                    tsucc = [m for m, lab in dn.succ if lab == 'T']
                    reach = set()
                    stack = list(tsucc)
                    while stack:
                        x = stack.pop()
                        if x.id in reach or x is head:
                            continue
                        reach.add(x.id)
                        stack.extend(m for m, _ in x.succ)
                    if node.id not in reach:
                        found = True
            ok = found
            if not ok:
                problems.append('step of `%s` can be zero: no dominating `%s` guard that leaves or takes another progress path' % (txt, gt))
        elif why.startswith('callee_min:'):
            q = why[len('callee_min:'):]
            callee = ctx.m.functions.get(q)
            if callee is None:
                raise AnalysisError('anchor-vanished %s (loops table)' % q)
            # the step must really come from that callee
            srcs = set()
            if isinstance(step, ast.Call):
                cs, kind = ctx.t._resolve(step, fi)
                srcs |= set(c.qual for c in cs) if kind in ('func', 'method') else set()
                idx = None
            elif isinstance(step, ast.Name):
                idx = None
                for n in ast.walk(loop):
                    if isinstance(n, ast.Assign) and isinstance(n.value, ast.Call):
                        for t in n.targets:
                            if isinstance(t, ast.Name) and t.id == step.id:
                                cs, kind = ctx.t._resolve(n.value, fi)
                                srcs |= set(c.qual for c in cs) if kind in ('func', 'method') else set()
                            elif isinstance(t, ast.Tuple):
                                for i, e in enumerate(t.elts):
                                    if isinstance(e, ast.Name) and e.id == step.id:
                                        cs, kind = ctx.t._resolve(n.value, fi)
                                        srcs |= set(c.qual for c in cs) if kind in ('func', 'method') else set()
                                        idx = i
            if srcs != {q}:
                problems.append('step of `%s` comes from %s, not from %s' % (txt, sorted(srcs), q))
            else:
                lb = return_lower_bound(ctx, callee, idx, 0, nonneg_funcs)
                ok = lb is not None and lb >= 1
                if not ok:
                    problems.append('%s may return %s: the loop would not advance' % (q, 'a value < 1' if lb is not None else 'a value without a provable lower bound'))
        elif why == 'sector_pad':
            e = _resolve_in_loop(loop, step)
            ok = isinstance(e, ast.BinOp) and isinstance(e.op, ast.Sub) and isinstance(e.right, ast.BinOp) and \
                isinstance(e.right.op, ast.Mod) and norm(e.right.right) == norm(e.left)
            if not ok:
                problems.append('step of `%s` is not of the form K - (x %% K)' % txt)
        elif why == 'min_of_nonempty_slice':
            e = _resolve_in_loop(loop, step)
            ok = isinstance(e, ast.Call) and norm(e.func) == 'min' and any(
                isinstance(a, ast.Call) and norm(a.func) == 'len' and isinstance(a.args[0], ast.Subscript) and
                isinstance(a.args[0].slice, ast.Slice) and a.args[0].slice.lower is not None and norm(a.args[0].slice.lower) == var
                and a.args[0].slice.upper is None and ('%s < len(%s)' % (var, norm(a.args[0].value))) == norm(loop.test)
                for a in e.args) and all(not isinstance(a, (ast.Constant, ast.Name)) or (isinstance(a, ast.Name) and a.id == var) or _pos_const(ctx, fi, a) or
                                         not _is_const(ctx, fi, a) for a in e.args)
            if not ok:
                problems.append('step of `%s` is not min(len(S[%s:]), positive const) under `%s < len(S)`' % (txt, var, var))
        elif why == 'min_with_counter':
            e = _resolve_in_loop(loop, step)
            ok = isinstance(e, ast.Call) and norm(e.func) == 'min' and any(isinstance(a, ast.Name) and a.id == var for a in e.args) and \
                all((isinstance(a, ast.Name) and a.id == var) or _pos_const(ctx, fi, a) for a in e.args) and \
                norm(loop.test) == '%s > 0' % var
            if not ok:
                problems.append('step of `%s` is not min(%s, positive const) under `%s > 0`' % (txt, var, var))
        elif why == 'nonneg':
            continue
        else:
            problems.append('unknown positivity argument %r' % why)
        if ok:
            positive_nodes.append(node)
    if '?' in dirs or len(dirs - {'?'}) > 1:
        problems.append('the counter %s is moved in both directions / reassigned inside the loop' % var)
    for txt in prog:
        actual = [norm(s) for s, _, _ in ups]
        if txt not in actual and not any(_renaming(txt, a) is not None for a in actual):
            problems.append('table entry `%s` no longer present (anchor)' % txt)
    if not problems and not _cycle_must_pass(ctx, fi, g, head, positive_nodes):
        problems.append('a cycle of the loop does not pass any update of `%s` with a proven positive step' % var)
    return problems


def check_bisect(ctx, fi, g, loop, head, ent):
    lo, hi, mid = ent['lo'], ent['hi'], ent['mid']
    if norm(loop.test) != '%s < %s' % (lo, hi):
        return ['loop test is not %s < %s' % (lo, hi)]
    mids = [n for n in ast.walk(loop) if isinstance(n, ast.Assign) and norm(n.targets[0]) == mid]
    ok = mids and all(norm(m.value) in ('(%s + %s) // 2' % (lo, hi), '(%s + %s) // 2' % (hi, lo)) for m in mids)
    probs = []
    if not ok:
        probs.append('%s is not (%s + %s) // 2' % (mid, lo, hi))
    for n in ast.walk(loop):
        if isinstance(n, ast.Assign) and len(n.targets) == 1 and isinstance(n.targets[0], ast.Name):
            if n.targets[0].id == lo and norm(n.value) != '%s + 1' % mid:
                probs.append('%s = %s does not move past the midpoint' % (lo, norm(n.value)))
            if n.targets[0].id == hi and norm(n.value) != mid:
                probs.append('%s = %s' % (hi, norm(n.value)))
    ups = [n for n in g.nodes if head in n.loops and n.kind == 'stmt' and isinstance(n.ast, ast.Assign) and
           isinstance(n.ast.targets[0], ast.Name) and n.ast.targets[0].id in (lo, hi)]
    if not probs and not _cycle_must_pass(ctx, fi, g, head, ups):
        probs.append('a cycle narrows neither %s nor %s' % (lo, hi))
    return probs


def _short_read_test(ctx, fi, t, var, size):
    if not (isinstance(t, ast.Compare) and len(t.ops) == 1 and isinstance(t.ops[0], (ast.NotEq, ast.Lt)) and norm(t.left) == 'len(%s)' % var):
        return False
    c = t.comparators[0]
    if norm(c) == size:
        return True
    try:
        return str(lenalg.folder(ctx, fi)(c)) == size
    except NotConst:
        return False


def check_read_until_short(ctx, fi, g, loop, head, ent):
    var, size = ent['read_var'], ent['size']
    reads = []
    for n in g.nodes:
        if head in n.loops and n.kind == 'stmt' and isinstance(n.ast, ast.Assign) and norm(n.ast.targets[0]) == var and \
                isinstance(n.ast.value, ast.Call) and isinstance(n.ast.value.func, ast.Attribute) and n.ast.value.func.attr == 'read':
            reads.append(n)
    probs = []
    if not reads:
        return ['no `%s = <fp>.read(...)` in the loop' % var]
    for r in reads:
        a = r.ast.value.args
        same = bool(a) and norm(a[0]) == size
        if a and not same:
            try:
                same = str(lenalg.folder(ctx, fi)(a[0])) == size
            except NotConst:
                same = False
        if not same:
            probs.append('read size %s is not the constant %s' % (norm(a[0]) if a else None, size))
        try:
            if int(size) <= 0:
                probs.append('non-positive read size')
        except ValueError:
            probs.append('read size not constant')
    exits = []
    for n in g.nodes:
        if head in n.loops and n.kind == 'test' and _short_read_test(ctx, fi, n.ast, var, size):
            tb = [m for m, lab in n.succ if lab == 'T']
            if tb and (isinstance(tb[0].ast, (ast.Break, ast.Raise, ast.Return))):
                exits.append(n)
    if not exits:
        probs.append('no test `len(%s) != %s` that leaves the loop on a short read' % (var, size))
    elif not _cycle_must_pass(ctx, fi, g, head, exits):
        probs.append('a cycle does not pass the short-read test')
    if not probs and not _cycle_must_pass(ctx, fi, g, head, reads):
        probs.append('a cycle does not read')
    return probs


def check_worklist(ctx, fi, g, loop, head, ent):
    q = ent['queue']
    appends = []
    for n in g.nodes:
        if head in n.loops:
            for e in cfgmod.node_exprs(n):
                for sub in ast.walk(e):
                    if isinstance(sub, ast.Call) and isinstance(sub.func, ast.Attribute) and sub.func.attr in ('append', 'extend', 'appendleft') \
                            and norm(sub.func.value) == q:
                        appends.append((n, sub))
    if not appends:
        return []
    dom = g.dominators()
    probs = []
    for n, call in appends:
        guarded = False
        wrong = []
        for d in dom[n.id]:
            dn = g.nodes[d]
            if dn.kind == 'test' and head in dn.loops:
                for sub in ast.walk(dn.ast):
                    if isinstance(sub, ast.Compare) and isinstance(sub.ops[0], (ast.In, ast.NotIn)):
                        seen = norm(sub.comparators[0])
                        tested = norm(sub.left)
                        # the same set must be added to inside the loop, and with the very value that is tested:
                        # a guard that remembers something else never fires on the second visit
                        for m in g.nodes:
                            if head in m.loops:
                                for e in cfgmod.node_exprs(m):
                                    for s2 in ast.walk(e):
                                        if isinstance(s2, ast.Call) and isinstance(s2.func, ast.Attribute) and s2.func.attr == 'add' \
                                                and norm(s2.func.value) == seen and len(s2.args) == 1:
                                            if norm(s2.args[0]) == tested:
                                                guarded = True
                                            else:
                                                wrong.append((tested, seen, norm(s2.args[0])))
        if not guarded and wrong:
            probs.append('the visited-set guard of the work list tests `%s in %s` but records `%s`: what is remembered is not what is tested, so a '
                         'directory reached a second time (a cycle on disc) is not recognised and the walk never ends' % wrong[0])
        elif not guarded:
            probs.append('`%s` grows the work list from on-disc pointers without a visited-set guard: a directory whose child points back '
                         'at it (or at an ancestor) is walked for ever, allocating without bound' % norm(call))
    return probs


@rule('SA-TERM')
@props('C15')
def term(ctx):
    if TABLE is None:
        raise AnalysisError('tables/loops.json missing')
    root = ctx.func(ROOT)
    R = ctx.reachable_from([root])
    nonneg = set(TABLE.get('nonneg_functions', {}))
    index = {}
    for ent in TABLE['loops']:
        index[(ent['func'], ent['test'], ent.get('index', 0))] = ent
    used = set()
    obs = []
    undecided = []
    nwhile = nfor = 0
    for q in sorted(R):
        fi = ctx.m.functions[q]
        loops = _loops(ctx, fi)
        if not loops:
            continue
        g = ctx.cfg(fi)
        counts = {}
        for loop in loops:
            head = g.node_of(loop)
            if isinstance(loop, ast.For):
                nfor += 1
                it = norm(loop.iter)
                grows = []
                base = loop.iter
                while isinstance(base, ast.Call) and base.args and isinstance(base.func, ast.Name) and base.func.id in ('enumerate', 'reversed', 'sorted', 'list', 'iter', 'zip'):
                    if base.func.id in ('sorted', 'list'):
                        base = None
                        break
                    base = base.args[0]
                if base is not None and not (isinstance(base, ast.Call)):
                    bt = norm(base)
                    for st_ in loop.body:
                        for sub in ast.walk(st_):
                            if isinstance(sub, ast.Call) and isinstance(sub.func, ast.Attribute) and sub.func.attr in ('append', 'extend', 'insert', 'appendleft') \
                                    and norm(sub.func.value) == bt:
                                grows.append(sub)
                key = '%s|for %s in %s' % (q, norm(loop.target), it[:60])
                obs.append(Ob('SA-TERM', key, not grows, ctx.loc(fi, loop),
                              '' if not grows else 'the loop body grows the container it iterates over (%s)' % norm(grows[0])))
                continue
            nwhile += 1
            t = norm(loop.test)
            i = counts.get(t, 0)
            counts[t] = i + 1
            ent = index.get((q, t, i))
            key = '%s|while %s#%d' % (q, t, i)
            if ent is None:
                # the test text changed: try the table entries of this function that match no loop any more
                for k2, e2 in index.items():
                    if k2[0] == q and k2 not in used and not any(k2 == (q, norm(l.test), 0) for l in loops if isinstance(l, ast.While)):
                        try:
                            if e2['idiom'] == 'counter' and not check_counter(ctx, fi, g, loop, head, e2, nonneg):
                                ent = e2
                            elif e2['idiom'] == 'bisect' and not check_bisect(ctx, fi, g, loop, head, e2):
                                ent = e2
                            elif e2['idiom'] == 'read-until-short' and not check_read_until_short(ctx, fi, g, loop, head, e2):
                                ent = e2
                            elif e2['idiom'] == 'worklist' and norm(loop.test) == e2.get('queue') and not check_worklist(ctx, fi, g, loop, head, e2):
                                ent = e2
                        except (AnalysisError, KeyError):
                            ent = None
                        if ent is not None:
                            used.add(k2)
                            break
                if ent is not None:
                    obs.append(Ob('SA-TERM', key, True, ctx.loc(fi, loop), 'matches the tabulated idiom of this function (loop test rewritten)'))
                    continue
                why = _auto_counter(ctx, fi, g, loop, head)
                if why is not None and _auto_bisect(ctx, fi, g, loop, head):
                    why = None
                if why is None:
                    obs.append(Ob('SA-TERM', key, True, ctx.loc(fi, loop), 'bounded counter / bisection loop (recognised automatically)'))
                else:
                    undecided.append('%s (%s)' % (key, why))
                continue
            used.add((q, t, i))
            idiom = ent['idiom']
            if idiom == 'counter':
                probs = check_counter(ctx, fi, g, loop, head, ent, nonneg)
            elif idiom == 'bisect':
                probs = check_bisect(ctx, fi, g, loop, head, ent)
            elif idiom == 'read-until-short':
                probs = check_read_until_short(ctx, fi, g, loop, head, ent)
            elif idiom == 'worklist':
                probs = check_worklist(ctx, fi, g, loop, head, ent)
            elif idiom == 'clear-lowest-bit':
                v = ent['var']
                ups = [n for n in g.nodes if head in n.loops and n.kind == 'stmt' and isinstance(n.ast, ast.AugAssign)
                       and norm(n.ast) == '%s &= %s - 1' % (v, v)]
                probs = [] if (norm(loop.test) == v and ups and _cycle_must_pass(ctx, fi, g, head, ups)) else ['not the x &= x - 1 idiom']
            elif idiom == 'consume-until-exception':
                what = ent.get('read') or ent.get('advance')
                nodes = [n for n in g.nodes if head in n.loops and any(what in norm(e) for e in cfgmod.node_exprs(n))]
                term_ = ent.get('or_terminator')
                if term_:
                    # an alternative branch that does not consume but hands the loop test a value that ends it (reason in the table)
                    nodes += [n for n in g.nodes if head in n.loops and n.kind == 'stmt' and n.stmt is not None and norm(n.stmt) == term_]
                probs = [] if nodes and _cycle_must_pass(ctx, fi, g, head, nodes) else ['a cycle does not pass `%s`' % what]
            elif idiom == 'chain-walk':
                # while x.A is not None: x = x.A   - follows a chain that only this code extends, at its end, with a
                # record that is being added (table: reason); re-verified: the shape of the loop, and that every
                # non-None writer of A assigns a parameter object of the writing function to the end of such a walk
                v, a = ent['var'], ent['attr']
                ups = [n for n in g.nodes if head in n.loops and n.kind == 'stmt' and isinstance(n.ast, ast.Assign)
                       and norm(n.ast) == '%s = %s.%s' % (v, v, a)]
                probs = []
                if norm(loop.test) != '%s.%s is not None' % (v, a) or not ups or not _cycle_must_pass(ctx, fi, g, head, ups):
                    probs.append('not the `while x.%s is not None: x = x.%s` walk' % (a, a))
                from .. import effects
                for w in effects.writers_of(ctx, ent['class'], a):
                    if isinstance(w.value, ast.Constant) and w.value.value is None:
                        continue
                    params = [p.lstrip('*') for p in w.fi.params]
                    if not (isinstance(w.value, ast.Name) and w.value.id in params and w.fi.qual in ent['writers']):
                        probs.append('%s.%s is also written by %s (`%s`): the chain is no longer only extended with the record being added' % (
                            ent['class'], a, w.fi.qual, norm(w.stmt)[:60]))
            elif idiom == 'not-image-driven':
                probs = _check_not_image_driven(ctx, R, fi)
            else:
                probs = ['unknown idiom %r' % idiom]
            obs.append(Ob('SA-TERM', key, not probs, ctx.loc(fi, loop), '; '.join(probs)))
    for k, ent in index.items():
        if k not in used:
            # a tabulated loop whose test text changed: fine as long as its function is still analysed and every `while`
            # of it has been decided some other way (automatic idioms); otherwise the anchor is gone
            if k[0] in R and not any(u.startswith(k[0] + '|') for u in undecided):
                continue
            raise AnalysisError('anchor-vanished: loop %s `%s`#%d of the loops table is no longer reachable from open' % k)
    if undecided:
        # a loop that is not in the table and is not a plain bounded counter: termination is not decided either way
        # (neither a violation nor a pass: the check says it cannot decide)
        raise AnalysisError('undecided: `while` loop(s) reachable from open() with no established progress argument: ' + '; '.join(undecided))
    if nwhile < 15 or nfor < 30:
        raise AnalysisError('anchor-vanished: %d while / %d for loops reachable from open' % (nwhile, nfor))
    return obs


def _auto_counter(ctx, fi, g, loop, head):
    """None if `loop` is `while V < E` / `V <= E` (or > / >= downwards) over a local V that every cycle moves
    by a constant of the right sign, V and the names of E not being assigned elsewhere in the loop; else the reason."""
    t = loop.test
    if isinstance(t, ast.BoolOp) and isinstance(t.op, ast.And):
        # a conjunction ends as soon as one conjunct does: one bounded-counter conjunct suffices
        whys = []
        for v_ in t.values:
            fake = ast.While(test=v_, body=loop.body, orelse=[])
            ast.copy_location(fake, loop)
            w = _auto_counter(ctx, fi, g, fake, head)
            if w is None:
                return None
            whys.append(w)
        return whys[0]
    if not (isinstance(t, ast.Compare) and len(t.ops) == 1 and isinstance(t.left, ast.Name)):
        return 'test is not `name <cmp> bound`'
    v = t.left.id
    op = t.ops[0]
    unit_only = False
    if isinstance(op, (ast.Lt, ast.LtE)):
        sign = 1
    elif isinstance(op, (ast.Gt, ast.GtE)):
        sign = -1
    elif isinstance(op, ast.NotEq) and isinstance(t.comparators[0], ast.Call) and norm(t.comparators[0].func) == 'len' and t.comparators[0].args:
        # `i != len(X)` ends for steps of exactly 1 from a start that is an index into X (0, or a bisect over X)
        sign, unit_only = 1, True
        cont = norm(t.comparators[0].args[0])
        from .. import expand as ex
        inside = set(id(x) for x in ast.walk(loop))
        outer = [x for x in ctx.own_nodes(fi) if isinstance(x, ast.Assign) and id(x) not in inside and
                 any(isinstance(tg_, ast.Name) and tg_.id == v for tg_ in x.targets) and x.lineno < loop.lineno]
        if len(outer) != 1:
            return 'counter of a `!= len(...)` test has no single initialisation before the loop'
        st0 = ex.expand(ctx, fi, outer[0].value, outer[0])
        ok0 = (isinstance(st0, ast.Constant) and st0.value == 0) or \
            (isinstance(st0, ast.Call) and norm(st0.func) in ('bisect.bisect_left', 'bisect.bisect_right', 'bisect.bisect') and st0.args and norm(st0.args[0]) == cont)
        if not ok0:
            return 'counter of a `!= len(...)` test does not provably start at an index of that container'
    else:
        return 'comparison is not an ordering'
    bound_names = set(x.id for x in ast.walk(t.comparators[0]) if isinstance(x, ast.Name))
    if v in bound_names:
        return 'bound mentions the counter'
    steps = []
    for n in ast.walk(loop):
        if isinstance(n, (ast.Assign, ast.AugAssign, ast.For)):
            tg = n.targets if isinstance(n, ast.Assign) else [n.target]
            names = [nm for x in tg for nm in cfgmod.target_names(x)]
            if any(nm in bound_names for nm in names):
                return 'bound is modified inside the loop'
            if v in names:
                ok = isinstance(n, ast.AugAssign) and isinstance(n.value, ast.Constant) and isinstance(n.value.value, int) and n.value.value > 0 and \
                    ((isinstance(n.op, ast.Add) and sign == 1) or (isinstance(n.op, ast.Sub) and sign == -1)) and (not unit_only or n.value.value == 1)
                if not ok:
                    return 'counter is assigned by `%s`' % norm(n)[:40]
                steps.append(n)
    if not steps:
        return 'counter never moves'
    nodes = [g.node_of(st) for st in steps]
    nodes = [n for n in nodes if n is not None]
    if not nodes or not _cycle_must_pass(ctx, fi, g, head, nodes):
        return 'a cycle through the body does not move the counter'
    return None


def _auto_bisect(ctx, fi, g, loop, head):
    """`while A < B:` with M = (A + B) // 2, A = M + 1 / B = M on every cycle (names taken from the loop itself)"""
    t = loop.test
    if not (isinstance(t, ast.Compare) and len(t.ops) == 1 and isinstance(t.ops[0], ast.Lt) and isinstance(t.left, ast.Name) and
            isinstance(t.comparators[0], ast.Name)):
        return False
    lo, hi = t.left.id, t.comparators[0].id
    mids = [n for n in ast.walk(loop) if isinstance(n, ast.Assign) and len(n.targets) == 1 and isinstance(n.targets[0], ast.Name) and
            norm(n.value) in ('(%s + %s) // 2' % (lo, hi), '(%s + %s) // 2' % (hi, lo))]
    if len(mids) != 1:
        return False
    mid = mids[0].targets[0].id
    return not check_bisect(ctx, fi, g, loop, head, {'lo': lo, 'hi': hi, 'mid': mid})


def _check_not_image_driven(ctx, R, fi):
    """the function is reached from open() only via DirectoryRecord constructors called with a
    constant empty Rock Ridge version"""
    probs = []
    drc = ctx.cls('dr.DirectoryRecord')
    for q in R:
        f = ctx.m.functions[q]
        if f.cls is drc or f.module == 'rockridge':
            continue
        for c in ctx.calls(f):
            for cal in c.callees:
                if cal.cls is drc and cal.name in ('new_file', 'new_dir', 'new_symlink', 'new_dot', 'new_dotdot', 'new_root'):
                    params = cal.params[1:]
                    if 'rock_ridge' in params:
                        i = params.index('rock_ridge')
                        a = c.node.args[i] if i < len(c.node.args) else None
                        if not (isinstance(a, ast.Constant) and a.value == ''):
                            probs.append('%s calls %s with a non-constant Rock Ridge version on the open() path' % (q, cal.name))
    return probs
