#!/usr/bin/env python
"""
Observation E3: more than 1000 names that mangle to the same ISO9660 name
in one directory: pycdlib-genisoimage only logs the files it finds no free
name for and leaves them out of every view, Rock Ridge included.

usage: W7_genisoimage_many_collisions.py <path-to-checkout>
"""
import os
import subprocess
import sys
import tempfile

CHECKOUT = os.path.abspath(sys.argv[1])
sys.path.insert(0, CHECKOUT)


def run_tool(tool, args):
    """Run a tool of the checkout; returns (exit code, output)."""
    env = dict(os.environ)
    env['PYTHONPATH'] = CHECKOUT
    proc = subprocess.run([sys.executable, os.path.join(CHECKOUT, 'tools', tool)] + args,
                          stdout=subprocess.PIPE, stderr=subprocess.STDOUT, env=env,
                          universal_newlines=True, check=False)
    return proc.returncode, proc.stdout


def snapshot(top):
    """The tree below top as {relative path: ('d',) | ('l', target) | ('f', contents)}."""
    result = {}
    for root, dirs, files in os.walk(top):
        for name in dirs + files:
            full = os.path.join(root, name)
            rel = os.path.relpath(full, top)
            if os.path.islink(full):
                result[rel] = ('l', os.readlink(full))
            elif os.path.isdir(full):
                result[rel] = ('d',)
            else:
                with open(full, 'rb') as infp:
                    result[rel] = ('f', infp.read())
    return result


def last_line(output):
    lines = [line for line in output.splitlines() if line.strip()]
    return lines[-1] if lines else ''


def extract(tmp, image, view):
    """Extract one view of the image; returns (snapshot or None, message)."""
    dest = os.path.join(tmp, 'x_' + view)
    os.makedirs(dest)
    code, output = run_tool('pycdlib-extract-files', ['-path-type', view, '-extract-to', dest, image])
    if code != 0:
        return None, last_line(output)
    return snapshot(dest), ''


def main():
    problems = []
    with tempfile.TemporaryDirectory() as tmp:
        src = os.path.join(tmp, 'src')
        os.makedirs(os.path.join(src, 'sub'))
        for number in range(1003):
            with open(os.path.join(src, 'photo_2020_%04d.jpg' % number), 'wb') as outfp:
                outfp.write(b'picture %d\n' % number)
        # directories run out of names in the same way
        for number in range(1002):
            os.makedirs(os.path.join(src, 'sub', 'directory_%04d' % number))
        want = snapshot(src)

        image = os.path.join(tmp, 'out.iso')
        code, output = run_tool('pycdlib-genisoimage', ['-R', '-o', image, src])
        if code != 0:
            problems.append('pycdlib-genisoimage -R failed (exit %d): %s' % (code, last_line(output)))
        else:
            got, message = extract(tmp, image, 'rockridge')
            if got is None:
                problems.append('extracting the Rock Ridge view failed: %s' % message)
            else:
                missing = sorted(set(want) - set(got))
                if missing:
                    problems.append('pycdlib-genisoimage exited with 0, but the Rock Ridge view lacks %d of %d entries, e.g. %s'
                                    % (len(missing), len(want), missing[0]))
                elif got != want:
                    problems.append('Rock Ridge view differs from the source tree')
            got, message = extract(tmp, image, 'iso')
            if got is None:
                problems.append('extracting the ISO9660 view failed: %s' % message)
            else:
                files = [entry[1] for entry in got.values() if entry[0] == 'f']
                wanted_files = [entry[1] for entry in want.values() if entry[0] == 'f']
                if sorted(files) != sorted(wanted_files):
                    problems.append('ISO9660 view has %d files, the source tree %d' % (len(files), len(wanted_files)))
                dirs = [rel for rel, entry in got.items() if entry[0] == 'd']
                wanted_dirs = [rel for rel, entry in want.items() if entry[0] == 'd']
                if len(dirs) != len(wanted_dirs):
                    problems.append('ISO9660 view has %d directories, the source tree %d' % (len(dirs), len(wanted_dirs)))
                for rel in got:
                    name = os.path.basename(rel).split(';')[0]
                    base, _, ext = name.partition('.')
                    if len(base) > 8 or len(ext) > 3:
                        problems.append('ISO9660 view: %s is not a level 1 name' % rel)

    if problems:
        for problem in problems:
            print(problem)
        return 1
    print('OK')
    return 0


if __name__ == '__main__':
    sys.exit(main())
