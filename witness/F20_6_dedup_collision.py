"""F-20.6: -scan-for-duplicates declares two files identical on equal size and equal 32-bit
murmur3 hash.  Two different 8-byte files with colliding hashes end up sharing contents."""
import os, subprocess, sys, tempfile, shutil
A = bytes.fromhex('839bd12873280000'); B = bytes.fromhex('fb5141b090a10000')
d = tempfile.mkdtemp(prefix='pycdlib-dedup-')
try:
    src = os.path.join(d, 'src'); os.mkdir(src)
    open(os.path.join(src, 'a'), 'wb').write(A); open(os.path.join(src, 'b'), 'wb').write(B)
    iso = os.path.join(d, 'x.iso')
    r = subprocess.run(['/venv/bin/python', '/repo/tools/pycdlib-genisoimage', '-quiet', '-scan-for-duplicates', '-o', iso, src],
                       env=dict(os.environ, PYTHONPATH='/repo'), capture_output=True, text=True)
    if r.returncode != 0:
        print(r.stderr[-500:])
    sys.path.insert(0, '/repo'); import pycdlib, io
    i = pycdlib.PyCdlib(); i.open(iso)
    got = {}
    for name in ('/A.;1', '/B.;1'):
        o = io.BytesIO(); i.get_file_from_iso_fp(o, iso_path=name); got[name] = o.getvalue()
    i.close()
finally:
    shutil.rmtree(d, ignore_errors=True)
print(got)
ok = got['/A.;1'] == A and got['/B.;1'] == B
print('OK' if ok else 'DEFECT')
sys.exit(0 if ok else 1)
