"""Validate-before-mutate engine (SA-VBM / SA-VBW): interprocedural may-analysis of
"persistent writes that may already have happened" against the refusals that may escape.

Roots of a write, relative to the function it occurs in:
   SELF        the receiver of the method
   P<i>        the i-th parameter (not counting self)
   EXT         an object that existed before the call whatever the freshness of the receiver
               (reached through a *borrowed* field such as DirectoryRecord.parent, a global, or a
               local bound to something other than a fresh construction)
   (writes to objects constructed in the function and not yet published are dropped)

Summary of a function:  normal  = roots that may have been written when it returns normally
                        events  = {(raise key, roots written before that raise, origin)} for every
                                  PyCdlibInvalidInput raise that may escape it
At a call site the callee's roots are rebound to the roots of receiver / arguments in the caller.
Writes to *derived* state (anything written by the recomputation pass) are not persistent writes.
"""
import ast

from .model import norm, type_classes, stmt_head
from .engine import raises_class, raise_message
from . import cfg as cfgmod
from . import effects

TRACKED = 'PyCdlibInvalidInput'
CATCHERS = {'PyCdlibInvalidInput', 'PyCdlibException', 'Exception', 'BaseException'}


def _contains(outer, inner):
    for sub in ast.walk(outer):
        if sub is inner:
            return True
    return False


class VBM:
    def __init__(self, ctx, is_mutation=None, tracked=(TRACKED,)):
        self.ctx = ctx
        self.tracked = set(tracked)
        self.is_mutation = is_mutation
        self.derived = self._derived_attrs()
        self.borrowed = self._borrowed_fields()
        self.returns_fresh = {}
        self.returns_fresh_tuple = {}   # qual -> per-element freshness of a returned tuple
        from .constexec import ConstExec
        self.ce = ConstExec(ctx, tracked)
        from .report import load_json
        self.assertions = set((a['func'], a['msg'][:80]) for a in load_json('tables/vbm_assertions.json', {'assertions': []})['assertions'])
        self.summ = {}        # qual -> (normal frozenset, events frozenset)
        self._cfgs = {}
        self._first_writer = {}

    def _assertion_via_param(self, f, raise_node):
        """`raise X(msg)` with msg a parameter of a helper: an assertion if every caller passes a literal message
        that is tabulated as an assertion of that caller (helper extracted from several assertion sites)"""
        exc = raise_node.exc
        if not (isinstance(exc, ast.Call) and len(exc.args) == 1 and isinstance(exc.args[0], ast.Name)):
            return False
        params = [p.lstrip('*') for p in f.params]
        if exc.args[0].id not in params:
            return False
        idx = params.index(exc.args[0].id)
        if f.cls is not None and params and params[0] == 'self':
            idx -= 1
        sites = self.ctx.callers().get(f.qual, [])
        if not sites:
            return False
        for caller, call in sites:
            args = call.node.args
            a = args[idx] if 0 <= idx < len(args) else None
            if a is None:
                for kw in call.node.keywords:
                    if kw.arg == exc.args[0].id:
                        a = kw.value
            if not (isinstance(a, ast.Constant) and isinstance(a.value, str)):
                return False
            if (caller.qual, a.value[:80]) not in self.assertions:
                return False
        return True

    # ------------------------------------------------------------------ setup
    def _derived_attrs(self):
        ctx = self.ctx
        root = ctx.func('pycdlib.PyCdlib._reshuffle_extents')
        R = ctx.reachable_from([root])
        D = set()
        for q in R:
            fi = ctx.m.functions[q]
            for w in effects.direct_writes(ctx, fi):
                if w.kind in ('assign',) and isinstance(w.node, ast.Attribute):
                    for c in w.classes:
                        D.add((c, w.attr))
        # the stale flag is bookkeeping of the lazy scheme itself
        D.add(('pycdlib.PyCdlib', '_needs_reshuffle'))
        # edit-maintained state that the pass also touches is *not* derived
        for keep in (('headervd.PrimaryOrSupplementaryVD', 'space_size'),):
            D.discard(keep)
        return D

    def _borrowed_fields(self):
        """(class, field) whose stores assign something that is not a fresh construction"""
        ctx = self.ctx
        out = set()
        for fi in ctx.m.pkg_functions():
            if fi.cls is None:
                continue
            for w in effects.direct_writes(ctx, fi):
                if w.kind != 'assign' or w.value is None or norm(w.recv) != 'self':
                    continue
                v = w.value
                fresh = isinstance(v, (ast.Constant, ast.List, ast.Dict, ast.Set, ast.Tuple, ast.ListComp, ast.JoinedStr, ast.BinOp, ast.Compare, ast.BoolOp, ast.UnaryOp))
                if isinstance(v, ast.Call):
                    cs, kind = ctx.t._resolve(v, fi)
                    if kind == 'ctor' or kind in ('builtin', 'external'):
                        fresh = True
                    elif kind in ('func', 'method') and cs and all(self._returns_value_type(c) for c in cs):
                        fresh = True
                if isinstance(v, ast.Name):
                    # a parameter or a local bound to an existing object
                    t = ctx.t.expr_type(v, fi)
                    if not type_classes(t):
                        fresh = True     # ints, bytes, ...
                    elif v.id in self._simple_fresh_locals(fi):
                        fresh = True
                if isinstance(v, ast.Attribute):
                    t = ctx.t.expr_type(v, fi)
                    if not type_classes(t):
                        fresh = True
                if not fresh:
                    out.add((fi.cls.qual, w.attr))
        return out

    def _simple_fresh_locals(self, fi):
        c = getattr(self, '_sfl', None)
        if c is None:
            c = self._sfl = {}
        if fi.qual not in c:
            ok = {}
            for n in self.ctx.own_nodes(fi):
                if isinstance(n, ast.Assign):
                    for t in n.targets:
                        if isinstance(t, ast.Name):
                            fresh = False
                            if isinstance(n.value, ast.Call):
                                cs, kind = self.ctx.t._resolve(n.value, fi)
                                fresh = kind == 'ctor'
                            ok[t.id] = ok.get(t.id, True) and fresh
            params = set(p.lstrip('*') for p in fi.params)
            c[fi.qual] = set(k for k, v in ok.items() if v and k not in params)
        return c[fi.qual]

    def _locally_owned(self, fi, attr):
        """in fi, every assignment of self.<attr> is a fresh construction"""
        c = getattr(self, '_lo', None)
        if c is None:
            c = self._lo = {}
        key = (fi.qual, attr)
        if key not in c:
            vals = []
            for w in effects.direct_writes(self.ctx, fi):
                if w.attr == attr and w.kind == 'assign' and norm(w.recv) == 'self' and isinstance(w.node, ast.Attribute):
                    vals.append(w.value)
            ok = bool(vals)
            for v in vals:
                fresh = False
                if isinstance(v, ast.Call):
                    cs, kind = self.ctx.t._resolve(v, fi)
                    fresh = kind == 'ctor'
                elif isinstance(v, ast.Name) and v.id in self._simple_fresh_locals(fi):
                    fresh = True
                ok = ok and fresh
            c[key] = ok
        return c[key]

    def _returns_value_type(self, fi):
        rt = fi.rtype
        return rt is not None and not type_classes(rt) and rt[0] in ('prim',)

    # ---------------------------------------------------------------- roots
    def root_of(self, fi, expr, fresh_locals, depth=0):
        """root of the object `expr` denotes, in fi's vocabulary; 'FRESH' for unpublished fresh objects"""
        if depth > 10:
            return 'EXT'
        if isinstance(expr, ast.Name):
            params = [p.lstrip('*') for p in fi.params]
            if fi.cls is not None and not fi.is_static and params and expr.id == params[0]:
                return 'SELF'
            if expr.id in fresh_locals:
                return 'FRESH'
            if expr.id in params:
                i = params.index(expr.id) - (1 if (fi.cls is not None and not fi.is_static) else 0)
                return 'P%d' % i
            return 'EXT'
        if isinstance(expr, ast.Attribute):
            base = self.root_of(fi, expr.value, fresh_locals, depth + 1)
            bt = self.ctx.t.expr_type(expr.value, fi)
            for c in type_classes(bt):
                if (c, expr.attr) in self.borrowed:
                    if isinstance(expr.value, ast.Name) and expr.value.id == 'self' and self._locally_owned(fi, expr.attr):
                        continue
                    return 'EXT'
            return base
        if isinstance(expr, ast.Subscript):
            return self.root_of(fi, expr.value, fresh_locals, depth + 1)
        if isinstance(expr, ast.Call):
            cs, kind = self.ctx.t._resolve(expr, fi)
            if kind == 'ctor':
                return 'FRESH'
            return 'EXT'
        return 'EXT'

    def fresh_locals(self, fi):
        """locals all of whose bindings are constructor calls (or calls to functions returning fresh objects)"""
        cnt = {}
        ok = {}
        copies = []
        for n in self.ctx.own_nodes(fi):
            tg = []
            val = None
            if isinstance(n, ast.Assign):
                tg = n.targets
                val = n.value
            elif isinstance(n, (ast.For, ast.comprehension)):
                for nm in cfgmod.target_names(n.target):
                    ok[nm] = False
                continue
            elif isinstance(n, ast.With):
                for it in n.items:
                    if it.optional_vars is not None:
                        for nm in cfgmod.target_names(it.optional_vars):
                            ok[nm] = False
                continue
            for t in tg:
                if isinstance(t, ast.Name):
                    fresh = False
                    if isinstance(val, ast.Name):
                        copies.append((t.id, val.id))
                        continue
                    if isinstance(val, ast.Call):
                        cs, kind = self.ctx.t._resolve(val, fi)
                        if kind == 'ctor':
                            fresh = True
                        elif kind in ('func', 'method') and cs and all(self.returns_fresh.get(c.qual) for c in cs):
                            fresh = True
                    if isinstance(val, ast.Constant) and val.value is None:
                        continue      # x = None placeholder before the construction
                    ok[t.id] = ok.get(t.id, True) and fresh
                else:
                    # (a, b, n) = self._helper(...): element-wise freshness of a helper that returns a tuple
                    # of its own constructions
                    elems = None
                    if isinstance(t, (ast.Tuple, ast.List)) and isinstance(val, ast.Call) and all(isinstance(x, ast.Name) for x in t.elts):
                        cs, kind = self.ctx.t._resolve(val, fi)
                        if kind in ('func', 'method') and cs:
                            tups = [self.returns_fresh_tuple.get(c.qual) for c in cs]
                            if all(tp is not None and len(tp) == len(t.elts) for tp in tups):
                                elems = [all(tp[i] for tp in tups) for i in range(len(t.elts))]
                    if elems is not None:
                        for x, fr in zip(t.elts, elems):
                            ok[x.id] = ok.get(x.id, True) and fr
                    else:
                        for nm in cfgmod.target_names(t):
                            ok[nm] = False
        params = set(p.lstrip('*') for p in fi.params)
        # x = y copies: x is fresh iff all its sources are
        for _ in range(4):
            for dst, src in copies:
                srcfresh = ok.get(src, False) and src not in params
                ok[dst] = ok.get(dst, True) and srcfresh
        return set(k for k, v in ok.items() if v and k not in params)

    def _compute_returns_fresh(self, funcs):
        changed = True
        for f in funcs:
            self.returns_fresh.setdefault(f.qual, False)
        while changed:
            changed = False
            for fi in funcs:
                if self.returns_fresh[fi.qual]:
                    continue
                fl = self.fresh_locals(fi)
                rets = [n for n in self.ctx.own_nodes(fi) if isinstance(n, ast.Return) and n.value is not None]
                if rets and all(isinstance(r.value, ast.Name) and r.value.id in fl for r in rets):
                    self.returns_fresh[fi.qual] = True
                    changed = True
                elif rets and all(isinstance(r.value, ast.Tuple) and len(r.value.elts) == len(rets[0].value.elts) for r in rets):
                    tp = tuple(all(isinstance(r.value.elts[i], ast.Name) and r.value.elts[i].id in fl for r in rets)
                               for i in range(len(rets[0].value.elts)))
                    if any(tp) and self.returns_fresh_tuple.get(fi.qual) != tp:
                        self.returns_fresh_tuple[fi.qual] = tp
                        changed = True

    # ------------------------------------------------------------- analysis
    def _node_writes(self, fi, fresh):
        """CFG-statement -> set of roots written directly at that statement"""
        out = {}
        for w in effects.direct_writes(self.ctx, fi):
            if isinstance(w.node, ast.Name):
                continue
            if not isinstance(w.node, (ast.Attribute, ast.Subscript, ast.Call)):
                continue
            # plain local rebinding is not a write to an object
            if w.kind == 'assign' and isinstance(w.node, ast.Attribute) is False and not isinstance(w.node, (ast.Subscript, ast.Call)):
                continue
            if w.classes and all((c, w.attr) in self.derived for c in w.classes):
                continue
            if self.is_mutation is not None and not self.is_mutation(w):
                continue
            r = self.root_of(fi, w.recv, fresh)
            if r == 'FRESH':
                continue
            st = w.stmt
            out.setdefault(id(st), set()).add(r)
        return out

    def _map_root(self, fi, call, callee, r, fresh):
        if r == 'EXT':
            return 'EXT'
        if r == 'SELF':
            if isinstance(call.func, ast.Attribute):
                # constructor call Cls(...) has no receiver: object is fresh
                cs, kind = self.ctx.t._resolve(call, fi)
                if kind == 'ctor':
                    return 'FRESH'
                return self.root_of(fi, call.func.value, fresh)
            cs, kind = self.ctx.t._resolve(call, fi)
            if kind == 'ctor':
                return 'FRESH'
            return 'EXT'
        if r.startswith('P'):
            i = int(r[1:])
            params = callee.params[1:] if (callee.cls is not None and not callee.is_static) else callee.params
            if i < len(call.args):
                a = call.args[i]
                if isinstance(a, ast.Starred):
                    return 'EXT'
                t = self.ctx.t.expr_type(a, fi)
                if isinstance(a, ast.Constant):
                    return 'FRESH'
                return self.root_of(fi, a, fresh)
            if i < len(params):
                pn = params[i]
                for kw in call.keywords:
                    if kw.arg == pn:
                        if isinstance(kw.value, ast.Constant):
                            return 'FRESH'
                        return self.root_of(fi, kw.value, fresh)
            return 'FRESH'     # default value
        return 'EXT'

    def analyse(self, funcs, max_iter=12):
        ctx = self.ctx
        self._compute_returns_fresh(funcs)
        for f in funcs:
            self.summ[f.qual] = (frozenset(), frozenset())
        fresh_of = {f.qual: self.fresh_locals(f) for f in funcs}
        nodew = {f.qual: self._node_writes(f, fresh_of[f.qual]) for f in funcs}
        calls_of = {}
        for f in funcs:
            m = {}
            for c in ctx.calls(f):
                tg = [x for x in c.callees if x.qual in self.summ]
                if c.kind == 'ctor':
                    tg = [x for x in c.callees if x.qual in self.summ]
                if tg:
                    st = ctx.enclosing_stmt(f, c.node)
                    m.setdefault(id(c.node), (c, tg))
            calls_of[f.qual] = m
        for it in range(max_iter):
            changed = False
            for f in funcs:
                new = self._analyse_one(f, fresh_of[f.qual], nodew[f.qual], calls_of[f.qual])
                if new != self.summ[f.qual]:
                    self.summ[f.qual] = new
                    changed = True
            if not changed:
                break
        return self.summ

    def _build_cfg(self, f, calls):
        def raising(callnode):
            ent = calls.get(id(callnode))
            if not ent:
                return None
            c, tg = ent
            if any(self.summ[x.qual][1] for x in tg):
                return [TRACKED]
            return None
        return cfgmod.CFG(f.node, raising_calls=raising)

    def _analyse_one(self, f, fresh, nodew, calls):
        g = self._build_cfg(f, calls)
        ctx = self.ctx
        node_calls = {}
        for n in g.nodes:
            lst = []
            for e in cfgmod.node_exprs(n):
                for sub in ast.walk(e):
                    if isinstance(sub, ast.Call) and id(sub) in calls:
                        lst.append(calls[id(sub)])
            # evaluation order: arguments before the call that takes them (post-order = by end position)
            lst.sort(key=lambda x: (x[0].node.end_lineno or 0, x[0].node.end_col_offset or 0))
            node_calls[n.id] = lst
        events = set()
        first_writer = {}

        def call_effects(n, state):
            """returns (state after all calls of node n, events raised by those calls)"""
            evs = []
            cur = set(state)
            for c, tg in node_calls[n.id]:
                for callee in tg:
                    normal, cev = self.summ[callee.qual]
                    feas = None
                    if cev:
                        feas = self.ce.feasible_raises(callee, self.ce.args_from_call(f, c.node, callee))
                    for (key, roots, origin) in cev:
                        if feas is not None and '*' not in feas and key not in feas:
                            continue       # unreachable for the literal arguments of this call (constant facts)
                        mapped = set()
                        for r in roots:
                            mr = self._map_root(f, c.node, callee, r, fresh)
                            if mr != 'FRESH':
                                mapped.add(mr)
                        org = origin if mapped else None
                        evs.append((key, frozenset(cur | mapped), org, c))
                    for r in normal:
                        mr = self._map_root(f, c.node, callee, r, fresh)
                        if mr != 'FRESH':
                            old_fw = first_writer.get(mr)
                            if old_fw is None or n.lineno < old_fw[0].lineno:
                                first_writer[mr] = (n, 'call ' + norm(c.node.func))
                            cur.add(mr)
            return cur, evs

        def transfer(n, state, lab):
            if state is None:
                return None
            if lab == 'callexc':
                # the callee refused: what it had written before refusing, plus what we had before the call
                cur0, evs = call_effects(n, state)
                out = set(state)
                for key, roots, origin, c in evs:
                    out |= set(roots)
                return frozenset(out)
            cur, evs = call_effects(n, state)
            w = nodew.get(id(n.stmt)) if n.kind == 'stmt' else None
            if w:
                for r in w:
                    old_fw = first_writer.get(r)
                    if old_fw is None or n.lineno < old_fw[0].lineno:
                        first_writer[r] = (n, norm(n.stmt)[:70])
                cur = cur | w
            return frozenset(cur)

        IN = g.forward(frozenset(), transfer, lambda a, b: a | b)
        # which raise / call nodes let the exception escape to raise_exit?
        escaping = set(p.id for p, lab in g.raise_exit.pred)
        for n in g.nodes:
            st = IN[n.id]
            if st is None or n.id not in escaping:
                continue
            labs = set(lab for m, lab in n.succ if m is g.raise_exit)
            if n.kind == 'stmt' and isinstance(n.ast, ast.Raise) and 'exc' in labs:
                cls = raises_class(n.ast)
                if cls in self.tracked and ((f.qual, raise_message(n.ast)[:80]) in self.assertions or self._assertion_via_param(f, n.ast)):
                    continue        # consistency assertion (tables/vbm_assertions.json), not a refusal
                if cls in self.tracked:
                    cur, evs = call_effects(n, st)
                    key = (f.qual, cls, raise_message(n.ast)[:80])
                    roots = frozenset(cur)
                    origin = None
                    if roots:
                        fw = sorted(((first_writer[r][0].lineno, first_writer[r][1]) for r in roots if r in first_writer))
                        origin = (f.qual, fw[0][1] if fw else '?', stmt_head(n.ast)[:240], getattr(n.ast, 'lineno', 0))
                    events.add((key, roots, origin))
                elif cls is None and n.ast.exc is None:
                    # bare re-raise inside a handler: whatever the calls of the guarded body may have raised
                    par = ctx.parents(f)
                    cur_ = n.ast
                    handler = None
                    while cur_ is not None:
                        cur_ = par.get(id(cur_))
                        if isinstance(cur_, ast.ExceptHandler):
                            handler = cur_
                            break
                    if handler is not None:
                        tr = par.get(id(handler))
                        names = cfgmod._handler_classes(handler)
                        if isinstance(tr, ast.Try) and (names is None or names & CATCHERS):
                            for bn in g.nodes:
                                if bn.stmt is None or not any(bn.stmt is x or _contains(x, bn.stmt) for x in tr.body):
                                    continue
                                for c, tg in node_calls[bn.id]:
                                    for callee in tg:
                                        for (key, roots, origin) in self.summ[callee.qual][1]:
                                            mapped = set()
                                            for r in roots:
                                                mr = self._map_root(f, c.node, callee, r, fresh)
                                                if mr != 'FRESH':
                                                    mapped.add(mr)
                                            allr = frozenset(set(st) | mapped)
                                            org = origin if mapped else None
                                            if allr and org is None:
                                                own = sorted(((first_writer[r][0].lineno, first_writer[r][1]) for r in allr if r in first_writer))
                                                org = (f.qual, own[0][1] if own else '?', stmt_head(bn.stmt)[:240], getattr(bn.stmt, 'lineno', 0))
                                            events.add((key, allr, org))
            if 'callexc' in labs:
                cur, evs = call_effects(n, st)
                for key, roots, origin, c in evs:
                    if roots and origin is None:
                        # the split between mutation and refusal is in this function
                        own = sorted(((first_writer[r][0].lineno, first_writer[r][1]) for r in roots if r in first_writer))
                        origin = (f.qual, own[0][1] if own else '?', stmt_head(g.nodes[n.id].stmt)[:240] if n.stmt is not None else norm(c.node)[:240], getattr(n.stmt if n.stmt is not None else c.node, 'lineno', 0))
                    events.add((key, roots, origin))
        normal = IN[g.exit.id] or frozenset()
        # calls at the last nodes are included through transfer of their nodes -> exit edge
        return (frozenset(normal), frozenset(events))


    # ------------------------------------------------------- constant facts
    def _infeasible_for_literals(self, callee, call, key):
        """The raise site `key` of callee is guarded by tests over parameters that fold to the
        non-raising branch for the literal arguments of this call (constant folding only)."""
        from .model import fold, NotConst
        params = callee.params[1:] if (callee.cls is not None and not callee.is_static) else list(callee.params)
        env = {}
        for i, a in enumerate(call.args):
            if i < len(params) and isinstance(a, ast.Constant):
                env[params[i]] = a.value
        for kw in call.keywords:
            if kw.arg in params and isinstance(kw.value, ast.Constant):
                env[kw.arg] = kw.value.value
        # defaults
        a = callee.node.args
        defaults = a.defaults
        pos = [x.arg for x in a.posonlyargs + a.args]
        for nm, d in zip(pos[len(pos) - len(defaults):], defaults):
            if nm not in env and isinstance(d, ast.Constant):
                given = False
                if nm in params:
                    idx = params.index(nm)
                    given = idx < len(call.args) or any(kw.arg == nm for kw in call.keywords)
                if not given:
                    env[nm] = d.value
        if not env:
            return False
        cache = self._cfgs.get(callee.qual)
        if cache is None:
            g = cfgmod.CFG(callee.node)
            cache = self._cfgs[callee.qual] = (g, g.dominators())
        g, dom = cache
        mi = self.ctx.m.modules[callee.module]
        found = False
        for n in g.nodes:
            if n.kind == 'stmt' and isinstance(n.ast, ast.Raise) and raises_class(n.ast) == key[1] and raise_message(n.ast)[:80] == key[2]:
                found = True
                # tests dominating n and the branch taken towards n
                feasible = True
                for d in dom[n.id]:
                    t = g.nodes[d]
                    if t.kind != 'test':
                        continue
                    # which branch leads to n? n reachable only via one of the labels
                    via = set()
                    for m, lab in t.succ:
                        if m.id == n.id or m.id in dom[n.id] or self._reaches(g, m, n, t):
                            via.add(lab)
                    if len(via) != 1:
                        continue
                    try:
                        v = fold(t.ast, self.ctx.m, mi, callee.cls, env)
                    except NotConst:
                        continue
                    except Exception:
                        continue
                    need = list(via)[0] == 'T'
                    if bool(v) != need:
                        feasible = False
                        break
                if feasible:
                    return False
        return found

    def _reaches(self, g, start, target, avoid):
        seen = set()
        stack = [start]
        while stack:
            x = stack.pop()
            if x.id in seen or x is avoid:
                continue
            if x is target:
                return True
            seen.add(x.id)
            stack.extend(m for m, _ in x.succ)
        return False
