"""
On an object that was created with new() (also after write_fp()),
get_file_from_iso_fp() returns a boot file with the El Torito boot info table
patched into bytes 8..63, while open_file_from_iso().read() returns the
unpatched source bytes.  After reopening the written image both agree.
"""
import io
import sys

sys.path.insert(0, sys.argv[1])
import pycdlib  # noqa: E402


def main():
    content = b'boot' * 30
    iso = pycdlib.PyCdlib()
    iso.new()
    iso.add_fp(io.BytesIO(content), len(content), '/BOOT.;1')
    iso.add_eltorito('/BOOT.;1', '/BOOT.CAT;1', boot_info_table=True)
    written = io.BytesIO()
    iso.write_fp(written)
    extent = iso.get_record(iso_path='/BOOT.;1').extent_location()
    ondisk = written.getvalue()[extent * 2048:extent * 2048 + len(content)]

    via_get = io.BytesIO()
    iso.get_file_from_iso_fp(via_get, iso_path='/BOOT.;1')
    with iso.open_file_from_iso(iso_path='/BOOT.;1') as infp:
        via_open = infp.read()
    iso.close()

    problems = []
    if via_get.getvalue() != ondisk:
        problems.append('get_file_from_iso_fp() differs from the written image')
    if via_open != ondisk:
        problems.append('open_file_from_iso().read() differs from the written image: bytes 8..24 are %r, image has %r'
                        % (via_open[8:24], ondisk[8:24]))
    if problems:
        print('\n'.join(problems))
        return 1
    print('OK')
    return 0


if __name__ == '__main__':
    sys.exit(main())
