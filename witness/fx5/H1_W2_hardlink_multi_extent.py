#!/usr/bin/env python
# Witness B: add_hard_link() to a file that is recorded in several extents
# (several consecutive directory records of the same name, ISO9660 level 3)
# must link the whole file, not only its first extent.
#
# usage: W2_hardlink_multi_extent.py <pycdlib checkout>
import io
import os
import shutil
import struct
import sys
import tempfile

sys.path.insert(0, sys.argv[1])
import pycdlib  # noqa: E402

BS = 2048


def pattern(tag, n):
    out = b''
    i = 0
    while len(out) < n:
        out += ('%s%06d|' % (tag, i)).encode('ascii')
        i += 1
    return out[:n]


PART1 = pattern('one', 4096)
MIDDLE = pattern('mid', 3000)
PART2 = pattern('two', 2748)
EXPECTED = PART1 + PART2


def dir_records(image, vd_extent):
    # yields (offset, identifier) for the records of the root directory of
    # the volume descriptor at vd_extent
    vd = vd_extent * BS
    ext = struct.unpack_from('<L', image, vd + 156 + 2)[0]
    length = struct.unpack_from('<L', image, vd + 156 + 10)[0]
    off = ext * BS
    end = off + length
    while off < end:
        rlen = image[off]
        if rlen == 0:
            off = (off // BS + 1) * BS
            continue
        len_fi = image[off + 32]
        yield off, bytes(image[off + 33:off + 33 + len_fi])
        off += rlen


def make_image(path):
    # Master /DATA.BIN;1, /MIDD.BIN;1, /ZZZZ.BIN;1 (records of equal size, data
    # stored in that order), then turn the three records into
    #   DATA.BIN;1 (multi-extent flag, first extent)
    #   DATA.BIN;1 (second extent = the former ZZZZ.BIN;1)
    #   MIDD.BIN;1
    # so /DATA.BIN;1 consists of two extents that are not adjacent.
    iso = pycdlib.PyCdlib()
    iso.new(interchange_level=3, joliet=3)
    iso.add_fp(io.BytesIO(PART1), len(PART1), '/DATA.BIN;1')
    iso.add_fp(io.BytesIO(MIDDLE), len(MIDDLE), '/MIDD.BIN;1')
    iso.add_fp(io.BytesIO(PART2), len(PART2), '/ZZZZ.BIN;1')
    out = io.BytesIO()
    iso.write_fp(out)
    iso.close()
    image = bytearray(out.getvalue())
    recs = dict((name, off) for off, name in dir_records(image, 16))
    d, m, z = recs[b'DATA.BIN;1'], recs[b'MIDD.BIN;1'], recs[b'ZZZZ.BIN;1']
    rlen = image[d]
    assert image[m] == rlen and image[z] == rlen and m == d + rlen and z == m + rlen
    rec_d = bytearray(image[d:d + rlen])
    rec_m = bytearray(image[m:m + rlen])
    rec_z = bytearray(image[z:z + rlen])
    rec_d[25] |= 0x80
    rec_z[33:33 + 10] = b'DATA.BIN;1'
    image[d:d + rlen] = rec_d
    image[m:m + rlen] = rec_z
    image[z:z + rlen] = rec_m
    with open(path, 'wb') as f:
        f.write(image)


def read_all(iso, **kwargs):
    out = io.BytesIO()
    iso.get_file_from_iso_fp(out, **kwargs)
    return out.getvalue()


def check(problems, what, got, want):
    if got != want:
        problems.append('%s: got %d bytes%s, expected %d' % (what, len(got), '' if len(got) != len(want) else ' (wrong content)', len(want)))


def main():
    problems = []
    tmp = tempfile.mkdtemp()
    try:
        img = os.path.join(tmp, 'multi.iso')
        make_image(img)

        iso = pycdlib.PyCdlib()
        iso.open(img)
        check(problems, 'precondition: /DATA.BIN;1', read_all(iso, iso_path='/DATA.BIN;1'), EXPECTED)

        iso.add_hard_link(iso_old_path='/DATA.BIN;1', iso_new_path='/LINK.BIN;1')
        iso.add_hard_link(iso_old_path='/DATA.BIN;1', joliet_new_path='/link.bin')
        check(problems, 'ISO9660 hard link /LINK.BIN;1', read_all(iso, iso_path='/LINK.BIN;1'), EXPECTED)
        check(problems, 'Joliet hard link /link.bin', read_all(iso, joliet_path='/link.bin'), EXPECTED)
        with iso.open_file_from_iso(iso_path='/LINK.BIN;1') as f:
            check(problems, 'open_file_from_iso(/LINK.BIN;1)', f.read(), EXPECTED)
        check(problems, '/DATA.BIN;1 after linking', read_all(iso, iso_path='/DATA.BIN;1'), EXPECTED)
        check(problems, '/MIDD.BIN;1 after linking', read_all(iso, iso_path='/MIDD.BIN;1'), MIDDLE)

        out = io.BytesIO()
        iso.write_fp(out)
        iso.close()

        iso = pycdlib.PyCdlib()
        iso.open_fp(io.BytesIO(out.getvalue()))
        check(problems, 'reopened: /LINK.BIN;1', read_all(iso, iso_path='/LINK.BIN;1'), EXPECTED)
        check(problems, 'reopened: Joliet /link.bin', read_all(iso, joliet_path='/link.bin'), EXPECTED)
        check(problems, 'reopened: /DATA.BIN;1', read_all(iso, iso_path='/DATA.BIN;1'), EXPECTED)
        check(problems, 'reopened: /MIDD.BIN;1', read_all(iso, iso_path='/MIDD.BIN;1'), MIDDLE)
        # The links share the data with the original.
        image = out.getvalue()
        extents = {}
        for off, name in dir_records(bytearray(image), 16):
            extents.setdefault(name, []).append(struct.unpack_from('<L', image, off + 2)[0])
        if extents.get(b'LINK.BIN;1') != extents.get(b'DATA.BIN;1'):
            problems.append('reopened: extents of /LINK.BIN;1 %s differ from those of /DATA.BIN;1 %s' % (extents.get(b'LINK.BIN;1'), extents.get(b'DATA.BIN;1')))

        # Removing the link again leaves the original whole.
        iso.rm_hard_link(iso_path='/LINK.BIN;1')
        iso.rm_hard_link(joliet_path='/link.bin')
        out2 = io.BytesIO()
        iso.write_fp(out2)
        iso.close()
        iso = pycdlib.PyCdlib()
        iso.open_fp(io.BytesIO(out2.getvalue()))
        check(problems, 'link removed: /DATA.BIN;1', read_all(iso, iso_path='/DATA.BIN;1'), EXPECTED)
        names = sorted(c.file_identifier() for c in iso.list_children(iso_path='/'))
        if b'LINK.BIN;1' in names:
            problems.append('link removed: /LINK.BIN;1 still listed')
        iso.close()
    finally:
        shutil.rmtree(tmp)

    if problems:
        for p in problems:
            print(p)
        return 1
    print('OK')
    return 0


if __name__ == '__main__':
    sys.exit(main())
