# -*- coding: utf-8 -*-
"""
rm_directory(udf_path=...) compares the UTF-8 name with the stored (latin-1 or
UTF-16) identifier, so a UDF directory with a non-ASCII name that add_directory
accepted cannot be removed; and it never checks that the target is a directory,
so on a file it drops the name, subtracts two blocks and writes a broken image.
"""
import io
import struct
import sys

sys.dont_write_bytecode = True
sys.path.insert(0, sys.argv[1])
import pycdlib  # noqa: E402  pylint: disable=wrong-import-position


def image_problems(iso, what):
    out = io.BytesIO()
    iso.write_fp(out)
    img = out.getvalue()
    declared, = struct.unpack_from('<L', img, 16 * 2048 + 80)
    if len(img) != declared * 2048:
        return ['%s: PVD declares %d sectors, image has %.2f' % (what, declared, len(img) / 2048.0)]
    return []


def udf_names(iso, path):
    return sorted(c.file_identifier() for c in iso.list_children(udf_path=path) if c is not None)


def main():
    problems = []

    # Part 1: directories with non-ASCII names (latin-1 and UTF-16 storage).
    for name in (u'/déjà', u'/中文'):
        iso = pycdlib.PyCdlib()
        iso.new(udf='2.60')
        before = iso.pvd.space_size
        iso.add_directory('/DIR1', udf_path=name)
        try:
            iso.rm_directory('/DIR1', udf_path=name)
        except pycdlib.pycdlibexception.PyCdlibException as exc:
            problems.append('rm_directory(udf_path=%r) failed: %s' % (name, exc))
        else:
            if udf_names(iso, '/'):
                problems.append('%r still listed after rm_directory' % (name,))
            if iso.pvd.space_size != before:
                problems.append('%r: space size %d after add+rm, %d before' % (name, iso.pvd.space_size, before))
            problems.extend(image_problems(iso, repr(name)))
        iso.close()

    # Part 2: rm_directory on a file must be refused and change nothing.
    iso = pycdlib.PyCdlib()
    iso.new(udf='2.60')
    iso.add_fp(io.BytesIO(b'x'), 1, '/FOO.;1', udf_path='/foo')
    before = iso.pvd.space_size
    try:
        iso.rm_directory(udf_path='/foo')
    except pycdlib.pycdlibexception.PyCdlibInvalidInput:
        pass
    else:
        problems.append('rm_directory(udf_path=<a file>) was accepted')
    if udf_names(iso, '/') != [b'foo']:
        problems.append('file /foo vanished from the UDF listing: %r' % (udf_names(iso, '/'),))
    if iso.pvd.space_size != before:
        problems.append('rm_directory on a file changed the space size from %d to %d' % (before, iso.pvd.space_size))
    problems.extend(image_problems(iso, 'after rm_directory on a file'))
    iso.close()

    if problems:
        for problem in problems:
            print(problem)
        return 1
    print('OK')
    return 0


if __name__ == '__main__':
    sys.exit(main())
