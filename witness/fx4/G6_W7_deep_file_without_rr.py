#!/usr/bin/env python3
"""
Witness for observation F (notes item 6): without Rock Ridge a file (or a
symlink) inside a directory that is 7 levels deep cannot get an ISO9660 path
(the library refuses it with "Directory levels too deep").
pycdlib-genisoimage must report and skip such an entry, as it does for a
directory that is too deep, instead of dying; the rest of the tree must
round-trip.

  python W7_deep_file_without_rr.py <path-to-checkout>
"""
import os
import shutil
import subprocess
import sys
import tempfile

CHECKOUT = os.path.abspath(sys.argv[1])
sys.path.insert(0, CHECKOUT)

import pycdlib  # noqa: E402,F401  pylint: disable=wrong-import-position,unused-import


def tool(name, *args):
    """Run one of the tools of the checkout; returns (exit code, stdout, stderr)."""
    env = dict(os.environ)
    env['PYTHONPATH'] = CHECKOUT
    proc = subprocess.run([sys.executable, os.path.join(CHECKOUT, 'tools', name)] + list(args),
                          env=env, stdout=subprocess.PIPE, stderr=subprocess.PIPE,
                          universal_newlines=True, check=False)
    return proc.returncode, proc.stdout, proc.stderr


def last_line(text):
    lines = text.strip().splitlines()
    return lines[-1] if lines else ''


def make_tree(root, files):
    """files: relative path -> bytes (file), (target,) (symlink) or None (directory)."""
    os.makedirs(root)
    for rel, content in files.items():
        full = os.path.join(root, rel)
        if content is None:
            os.makedirs(full, exist_ok=True)
            continue
        os.makedirs(os.path.dirname(full), exist_ok=True)
        if isinstance(content, tuple):
            os.symlink(content[0], full)
        else:
            with open(full, 'wb') as outfp:
                outfp.write(content)


def tree(root):
    """relative path -> 'dir', ('link', target) or the file contents."""
    out = {}
    for dirpath, dirnames, filenames in os.walk(root):
        for name in dirnames + filenames:
            full = os.path.join(dirpath, name)
            rel = os.path.relpath(full, root)
            if os.path.islink(full):
                out[rel] = ('link', os.readlink(full))
            elif os.path.isdir(full):
                out[rel] = 'dir'
            else:
                with open(full, 'rb') as infp:
                    out[rel] = infp.read()
    return out


def diff_trees(want, got):
    problems = []
    for rel in sorted(set(want) - set(got)):
        problems.append('missing from the extracted tree: %s' % (rel))
    for rel in sorted(set(got) - set(want)):
        problems.append('not in the source tree: %s' % (rel))
    for rel in sorted(set(got) & set(want)):
        if got[rel] != want[rel]:
            problems.append('%s differs: source %r, extracted %r' % (rel, want[rel][:80], got[rel][:80]))
    return problems


def build(tmp, files, opts):
    """Build tmp/out.iso from a fresh tmp/src; returns (src, isoname, exit code, stderr)."""
    src = os.path.join(tmp, 'src')
    make_tree(src, files)
    isoname = os.path.join(tmp, 'out.iso')
    ret, _, err = tool('pycdlib-genisoimage', '-quiet', *(list(opts) + ['-o', isoname, src]))
    return src, isoname, ret, err


def extract(tmp, isoname, view):
    """Extract one view to a fresh directory; returns (dest, exit code, stderr)."""
    dest = os.path.join(tmp, 'dest_' + view)
    os.makedirs(dest)
    ret, _, err = tool('pycdlib-extract-files', '-path-type', view, '-extract-to', dest, isoname)
    return dest, ret, err


def run(check):
    tmp = tempfile.mkdtemp()
    try:
        problems = check(tmp)
    finally:
        shutil.rmtree(tmp, ignore_errors=True)
    if problems:
        for problem in problems:
            print(problem)
        return 1
    print('OK')
    return 0


def check(tmp):
    problems = []
    files = {'1/2/3/4/5/6/7/f.txt': b'deep\n', '1/2/3/4/5/6/g.txt': b'fine\n', 'h.txt': b'top\n'}
    for opts, view in ((['-J'], 'joliet'), (['-udf'], 'udf')):
        sub = os.path.join(tmp, view)
        os.makedirs(sub)
        thesefiles = dict(files)
        if view == 'udf':
            thesefiles['1/2/3/4/5/6/7/l'] = ('f.txt',)
        src = os.path.join(sub, 'src')
        make_tree(src, thesefiles)
        isoname = os.path.join(sub, 'out.iso')
        ret, out, err = tool('pycdlib-genisoimage', *(opts + ['-o', isoname, src]))
        if ret != 0:
            problems.append('%s: pycdlib-genisoimage failed: %s' % (opts, last_line(err)))
            continue
        want = tree(src)
        for rel in ('1/2/3/4/5/6/7/f.txt', '1/2/3/4/5/6/7/l'):
            if rel in want:
                del want[rel]
                if not [line for line in out.splitlines() if os.path.join(src, rel) in line and 'too deep' in line]:
                    problems.append('%s: %s was left out without a message' % (opts, rel))
        dest, ret, err = extract(sub, isoname, view)
        if ret != 0:
            problems.append('%s: pycdlib-extract-files failed: %s' % (opts, last_line(err)))
        problems.extend('%s: %s' % (opts, p) for p in diff_trees(want, tree(dest)))
    return problems


if __name__ == '__main__':
    sys.exit(run(check))
