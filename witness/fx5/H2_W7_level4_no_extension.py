#!/usr/bin/env python
"""
Observation F (second half): at interchange level 4 a name is legal as it is,
so the derived ISO9660 identifier has to equal the source name: 'foo' for
'foo' (not 'foo.'), and 'foo.' for 'foo.'.  The Rock Ridge facade and
pycdlib-genisoimage have to agree on the derived identifiers.

usage: W7_level4_no_extension.py <path-to-checkout>
"""
import io
import os
import shutil
import subprocess
import sys
import tempfile

sys.path.insert(0, sys.argv[1])

import pycdlib  # noqa: E402

NAMES = ['foo', 'bar.', 'baz.txt', 'a.b.c', 'x..', '.hid', 'UP', 'UP2.;']


def idents(iso):
    ret = {}
    for c in iso.list_children(iso_path='/'):
        if c.is_dot() or c.is_dotdot():
            continue
        ret[c.rock_ridge.name().decode('utf-8')] = c.file_identifier().decode('utf-8')
    return ret


def main():
    problems = []

    # the helper, joined the way both callers document it: an empty extension
    # means that there is no dot to put back
    for name in NAMES:
        base, ext = pycdlib.utils.mangle_file_for_iso9660(name, 4)
        joined = base if ext == '' else base + '.' + ext
        want = name.replace(';', '_')
        if joined != want:
            problems.append('mangle_file_for_iso9660(%r, 4) = %r joins to %r, not %r' % (name, (base, ext), joined, want))

    # the Rock Ridge facade
    iso = pycdlib.PyCdlib()
    iso.new(interchange_level=4, rock_ridge='1.09')
    facade = iso.get_rock_ridge_facade()
    for name in NAMES:
        facade.add_fp(io.BytesIO(name.encode('utf-8')), len(name.encode('utf-8')), '/' + name, 0o100444)
    out = io.BytesIO()
    iso.write_fp(out)
    iso.close()
    iso2 = pycdlib.PyCdlib()
    iso2.open_fp(out)
    facade_idents = idents(iso2)
    for name in NAMES:
        data = io.BytesIO()
        iso2.get_rock_ridge_facade().get_file_from_iso_fp(data, '/' + name)
        if data.getvalue() != name.encode('utf-8'):
            problems.append('facade: content of %r is %r' % (name, data.getvalue()))
    iso2.close()
    for name in NAMES:
        want = name.replace(';', '_')
        if facade_idents.get(name) != want:
            problems.append('Rock Ridge facade: %r gets the ISO9660 identifier %r, not %r' % (name, facade_idents.get(name), want))

    # pycdlib-genisoimage
    tmpdir = tempfile.mkdtemp()
    try:
        tree = os.path.join(tmpdir, 'tree')
        os.mkdir(tree)
        for name in NAMES:
            with open(os.path.join(tree, name), 'wb') as outfp:
                outfp.write(name.encode('utf-8'))
        outiso = os.path.join(tmpdir, 'out.iso')
        env = dict(os.environ)
        env['PYTHONPATH'] = sys.argv[1]
        proc = subprocess.run([sys.executable, os.path.join(sys.argv[1], 'tools', 'pycdlib-genisoimage'),
                               '-iso-level', '4', '-R', '-o', outiso, tree],
                              env=env, stdout=subprocess.PIPE, stderr=subprocess.STDOUT, check=False)
        if proc.returncode != 0:
            problems.append('pycdlib-genisoimage failed: %s' % proc.stdout.decode('utf-8', 'replace')[-400:])
        else:
            iso3 = pycdlib.PyCdlib()
            iso3.open(outiso)
            tool_idents = idents(iso3)
            iso3.close()
            for name in NAMES:
                want = name.replace(';', '_')
                if tool_idents.get(name) != want:
                    problems.append('pycdlib-genisoimage: %r gets the ISO9660 identifier %r, not %r' % (name, tool_idents.get(name), want))
                if tool_idents.get(name) != facade_idents.get(name):
                    problems.append('%r: facade derives %r, pycdlib-genisoimage derives %r' % (name, facade_idents.get(name), tool_idents.get(name)))
    finally:
        shutil.rmtree(tmpdir)

    if problems:
        print('\n'.join(problems))
        return 1
    print('OK')
    return 0


if __name__ == '__main__':
    sys.exit(main())
