"""Sensitivity self-test: seeded faults must be reported, passing twins must stay silent.
(catalogue filled in sa/mutants.py)"""


def run(prop, rids, tier, seed):
    try:
        from . import mutants
    except ImportError:
        return None
    return mutants.run(prop, rids, tier, seed)
