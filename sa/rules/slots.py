"""SA-EXC.slot_init: a slot that the builder of a class fills in is also filled in by its parser (C15).

The record classes have `__slots__` and two ways to come into being: `new*()` (the library builds the structure) and
`parse()` (open() reads it from an image).  A slot that is assigned by every `new*` method but neither by `__init__`
nor on any path of `parse()` (including the methods of the same object that parse calls) does not exist on a parsed
object: the first read - and every slot listed here is read somewhere outside the builders - raises AttributeError,
which is not one of the exceptions open() and the calls after it are documented to raise.  The tests build images with
the library and read them back, so they see only the combinations the builder produces; a structure that the parser
accepts but the builder never emits (a long allocation descriptor) reaches the read with the slot missing.

Decided: the set comparison  slots(new*) - slots(__init__) - slots(parse and its self-calls) = {}  for every class that
has both kinds of constructor, restricted to slots with a reader outside the builders.  Not decided: that the value
the parser stores is the right one.
"""
import ast

from ..registry import rule, props
from ..report import Ob
from ..model import AnalysisError


def _self_stores(ctx, fn):
    out = set()
    for n in ctx.own_nodes(fn):
        if isinstance(n, ast.Attribute) and isinstance(n.ctx, ast.Store) and isinstance(n.value, ast.Name) and n.value.id == 'self':
            out.add(n.attr)
    return out


def _self_calls(ctx, fn, ci):
    out = set()
    for n in ctx.own_nodes(fn):
        if isinstance(n, ast.Call) and isinstance(n.func, ast.Attribute) and isinstance(n.func.value, ast.Name) and \
                n.func.value.id == 'self' and n.func.attr in ci.methods:
            out.add(n.func.attr)
    return out


def _closure_stores(ctx, ci, name):
    seen, work, out = set(), [name], set()
    while work:
        m = work.pop()
        if m in seen or m not in ci.methods:
            continue
        seen.add(m)
        out |= _self_stores(ctx, ci.methods[m])
        work.extend(_self_calls(ctx, ci.methods[m], ci))
    return out


@rule('SA-EXC.slot_init')
@props('C15')
def slot_init(ctx):
    obs = []
    nclasses = 0
    for cq, ci in sorted(ctx.m.classes.items()):
        if not ci.slots or ci.module.startswith('tool_'):
            continue
        news = [k for k in ci.methods if k == 'new' or k.startswith('new_')]
        if 'parse' not in ci.methods or not news:
            continue
        nclasses += 1
        init = _closure_stores(ctx, ci, '__init__')
        parsed = _closure_stores(ctx, ci, 'parse')
        built = None
        for k in news:
            s = _closure_stores(ctx, ci, k)
            built = s if built is None else (built & s)
        missing = sorted(s for s in (built or ()) if s in ci.slots and s not in init and s not in parsed)
        # keep those that somebody reads outside the builders
        read = {}
        if missing:
            builders = set()
            for k in news:
                builders.add(ci.methods[k].qual)
            for fi in ctx.m.pkg_functions():
                if fi.qual in builders:
                    continue
                for n in ctx.own_nodes(fi):
                    if isinstance(n, ast.Attribute) and isinstance(n.ctx, ast.Load) and n.attr in missing:
                        from ..model import type_classes
                        cl = type_classes(ctx.t.expr_type(n.value, fi))
                        if cq in cl or (not cl and not (isinstance(n.value, ast.Name) and n.value.id == 'self' and fi.cls is not ci)):
                            read.setdefault(n.attr, []).append('%s line %d' % (fi.qual, n.lineno))
        bad = [s for s in missing if s in read]
        obs.append(Ob('SA-EXC.slot_init', '%s|every slot the builder sets is set by the parser' % cq, not bad, ctx.loc(ci.methods['parse'], ci.methods['parse'].node),
                      '' if not bad else 'slot%s %s of %s %s assigned by %s but not by __init__ or parse(): a parsed object has no such attribute, and '
                      '%s reads it (AttributeError, not a documented exception, out of open() or a later call on an image the builder would not have produced)'
                      % ('s' if len(bad) > 1 else '', ', '.join(bad), cq.split('.')[-1], 'are' if len(bad) > 1 else 'is', '/'.join(news), read[bad[0]][0])))
    if nclasses < 40:
        raise AnalysisError('anchor-vanished: classes with __slots__, parse() and new*() (%d)' % nclasses)
    return obs
