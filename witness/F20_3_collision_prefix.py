"""F-20.3: two source files whose names mangle to the same identifier ('a' and 'A'): the renamed one
is built from a prefix cut out of the joined name and carries a second ';' -> the tool aborts."""
import os, subprocess, sys, tempfile, shutil
d = tempfile.mkdtemp(prefix='pycdlib-coll-')
try:
    src = os.path.join(d, 'src'); os.mkdir(src)
    open(os.path.join(src, 'a'), 'w').write('1'); open(os.path.join(src, 'A'), 'w').write('2')
    iso = os.path.join(d, 'x.iso')
    r = subprocess.run(['/venv/bin/python', '/repo/tools/pycdlib-genisoimage', '-quiet', '-o', iso, src],
                       env=dict(os.environ, PYTHONPATH='/repo'), capture_output=True, text=True)
    print('exit', r.returncode, r.stderr.strip().splitlines()[-1:])
    names = []
    if r.returncode == 0:
        sys.path.insert(0, '/repo'); import pycdlib
        i = pycdlib.PyCdlib(); i.open(iso)
        names = sorted(c.file_identifier() for c in i.list_children(iso_path='/') if not c.is_dot() and not c.is_dotdot())
        i.close()
        print(names)
finally:
    shutil.rmtree(d, ignore_errors=True)
ok = r.returncode == 0 and len(names) == 2 and len(set(names)) == 2
print('OK' if ok else 'DEFECT')
sys.exit(0 if ok else 1)
