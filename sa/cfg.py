"""Statement-granular control-flow graph for one function, plus the generic
analyses the rules need: dominators, reachability, forward may/must dataflow,
reaching definitions.

Node kinds:
  entry, exit (normal return / fall off the end), raise (exceptional exit),
  stmt   a simple statement (Assign, AugAssign, Expr, Return, Raise, Assert, Pass, Delete, ...)
  test   the test of an If / While (node.ast is the test expression, node.stmt the compound)
  iter   the head of a For loop (binds the target; edges 'T' into the body, 'F' when exhausted)
  with   the context-manager entry of a With item
  handler  the entry of an except clause
Edge labels: '' (fallthrough), 'T', 'F', 'exc' (explicit raise / assert failure), 'back'.
"""
import ast


class Node:
    __slots__ = ('id', 'kind', 'ast', 'stmt', 'succ', 'pred', 'loops')

    def __init__(self, nid, kind, node=None, stmt=None):
        self.id = nid
        self.kind = kind
        self.ast = node
        self.stmt = stmt if stmt is not None else node
        self.succ = []
        self.pred = []
        self.loops = ()

    @property
    def lineno(self):
        return getattr(self.ast, 'lineno', None) or getattr(self.stmt, 'lineno', 0)

    def __repr__(self):
        return '<N%d %s L%s>' % (self.id, self.kind, self.lineno)


class CFG:
    def __init__(self, fnode, raising_calls=None, exc_classes=None):
        """fnode: ast.FunctionDef.  raising_calls(callnode) -> iterable of exception class
        names the call may let escape (optional; used to add exceptional edges at calls)."""
        self.fnode = fnode
        self.nodes = []
        self.entry = self._new('entry')
        self.exit = self._new('exit')
        self.raise_exit = self._new('raise')
        self.raising_calls = raising_calls
        self.unknown = []
        self.stmt_nodes = {}     # id(ast stmt) -> first Node of that statement
        ctx = _Ctx()
        ends = self._block(fnode.body, [(self.entry, '')], ctx)
        for n, lab in ends:
            self._edge(n, self.exit, lab)

    # ------------------------------------------------------------- building
    def _new(self, kind, node=None, stmt=None):
        n = Node(len(self.nodes), kind, node, stmt)
        self.nodes.append(n)
        return n

    def _edge(self, a, b, lab=''):
        a.succ.append((b, lab))
        b.pred.append((a, lab))

    def _connect(self, preds, n):
        for p, lab in preds:
            self._edge(p, n, lab)

    def _block(self, stmts, preds, ctx):
        for st in stmts:
            if not preds:
                # unreachable code still gets nodes (so that rules see it) but no in-edges
                pass
            preds = self._stmt(st, preds, ctx)
        return preds

    def _raise_to(self, n, ctx, lab='exc', exc_name=None):
        """Connect an exceptional edge from n to the innermost enclosing handlers
        (all of them, conservatively, plus onward propagation unless a handler
        catches everything)."""
        for lvl in reversed(ctx.handlers):
            caught_all = False
            for hnode, classes in lvl:
                self._edge(n, hnode, lab)
                if classes is None or 'Exception' in classes or 'BaseException' in classes:
                    caught_all = True
                elif exc_name is not None and exc_name in classes:
                    caught_all = True
                elif exc_name is not None and exc_name.startswith('PyCdlib') and 'PyCdlibException' in classes:
                    caught_all = True
            if caught_all:
                return
        self._edge(n, self.raise_exit, lab)

    def _stmt(self, st, preds, ctx):
        if isinstance(st, ast.If):
            t = self._new('test', st.test, st)
            self.stmt_nodes[id(st)] = t
            t.loops = tuple(ctx.loops)
            self._connect(preds, t)
            self._call_exc(t, st.test, ctx)
            a = self._block(st.body, [(t, 'T')], ctx)
            b = self._block(st.orelse, [(t, 'F')], ctx) if st.orelse else [(t, 'F')]
            return a + b
        if isinstance(st, ast.While):
            t = self._new('test', st.test, st)
            self.stmt_nodes[id(st)] = t
            t.loops = tuple(ctx.loops)
            self._connect(preds, t)
            self._call_exc(t, st.test, ctx)
            ctx.loops.append(t)
            ctx.breaks.append([])
            ctx.conts.append(t)
            body_end = self._block(st.body, [(t, 'T')], ctx)
            for n, lab in body_end:
                self._edge(n, t, 'back' if not lab else lab)
            brk = ctx.breaks.pop()
            ctx.conts.pop()
            ctx.loops.pop()
            out = [(t, 'F')]
            if isinstance(st.test, ast.Constant) and st.test.value is True:
                out = []
            if st.orelse:
                out = self._block(st.orelse, out, ctx)
            return out + brk
        if isinstance(st, (ast.For, ast.AsyncFor)):
            t = self._new('iter', st, st)
            self.stmt_nodes[id(st)] = t
            t.loops = tuple(ctx.loops)
            self._connect(preds, t)
            self._call_exc(t, st.iter, ctx)
            ctx.loops.append(t)
            ctx.breaks.append([])
            ctx.conts.append(t)
            body_end = self._block(st.body, [(t, 'T')], ctx)
            for n, lab in body_end:
                self._edge(n, t, 'back' if not lab else lab)
            brk = ctx.breaks.pop()
            ctx.conts.pop()
            ctx.loops.pop()
            out = [(t, 'F')]
            if st.orelse:
                out = self._block(st.orelse, out, ctx)
            return out + brk
        if isinstance(st, (ast.With, ast.AsyncWith)):
            cur = preds
            first = None
            for it in st.items:
                w = self._new('with', it, st)
                w.loops = tuple(ctx.loops)
                if first is None:
                    first = w
                self._connect(cur, w)
                self._call_exc(w, it.context_expr, ctx)
                cur = [(w, '')]
            self.stmt_nodes[id(st)] = first
            return self._block(st.body, cur, ctx)
        if isinstance(st, ast.Try):
            hnodes = []
            for h in st.handlers:
                hn = self._new('handler', h, st)
                hn.loops = tuple(ctx.loops)
                classes = _handler_classes(h)
                hnodes.append((hn, classes))
            fin_entry = None
            ctx.handlers.append(hnodes)
            t0 = self._new('stmt', st, st)   # marker node for the try
            t0.kind = 'try'
            t0.loops = tuple(ctx.loops)
            self.stmt_nodes[id(st)] = t0
            self._connect(preds, t0)
            body_end = self._block(st.body, [(t0, '')], ctx)
            ctx.handlers.pop()
            if st.orelse:
                body_end = self._block(st.orelse, body_end, ctx)
            outs = list(body_end)
            for (hn, _), h in zip(hnodes, st.handlers):
                outs += self._block(h.body, [(hn, '')], ctx)
            if st.finalbody:
                outs = self._block(st.finalbody, outs, ctx)
            return outs
        # simple statements
        n = self._new('stmt', st, st)
        n.loops = tuple(ctx.loops)
        self.stmt_nodes[id(st)] = n
        self._connect(preds, n)
        if isinstance(st, ast.Return):
            self._call_exc(n, st, ctx)
            self._edge(n, self.exit, '')
            return []
        if isinstance(st, ast.Raise):
            exc_name = None
            if st.exc is not None:
                f = st.exc.func if isinstance(st.exc, ast.Call) else st.exc
                exc_name = f.attr if isinstance(f, ast.Attribute) else (f.id if isinstance(f, ast.Name) else None)
            self._raise_to(n, ctx, 'exc', exc_name)
            return []
        if isinstance(st, ast.Break):
            if ctx.breaks:
                ctx.breaks[-1].append((n, ''))
            return []
        if isinstance(st, ast.Continue):
            if ctx.conts:
                self._edge(n, ctx.conts[-1], 'back')
            return []
        if isinstance(st, ast.Assert):
            self._raise_to(n, ctx, 'exc', 'AssertionError')
            return [(n, '')]
        if isinstance(st, (ast.FunctionDef, ast.AsyncFunctionDef, ast.ClassDef, ast.Import,
                           ast.ImportFrom, ast.Global, ast.Nonlocal, ast.Pass, ast.Assign,
                           ast.AugAssign, ast.AnnAssign, ast.Expr, ast.Delete)):
            if not isinstance(st, (ast.FunctionDef, ast.AsyncFunctionDef, ast.ClassDef)):
                self._call_exc(n, st, ctx)
            return [(n, '')]
        self.unknown.append(type(st).__name__)
        return [(n, '')]

    def _call_exc(self, n, expr, ctx):
        """Exceptional edges for calls inside expr whose callees may raise."""
        if self.raising_calls is None:
            return
        for sub in ast.walk(expr):
            if isinstance(sub, ast.Call):
                names = self.raising_calls(sub)
                if names:
                    for nm in names:
                        self._raise_to(n, ctx, 'callexc', nm)
                    return

    # ------------------------------------------------------------- analyses
    def reachable(self, start=None, forward=True, skip_labels=()):
        start = start or self.entry
        seen = {start.id}
        stack = [start]
        while stack:
            n = stack.pop()
            for m, lab in (n.succ if forward else n.pred):
                if lab in skip_labels:
                    continue
                if m.id not in seen:
                    seen.add(m.id)
                    stack.append(m)
        return seen

    def dominators(self, post=False, exits=None):
        """dom[n] = set of node ids that dominate n (post: post-dominate w.r.t. `exits`,
        default the normal exit only)."""
        nodes = self.nodes
        if not post:
            roots = [self.entry]
            preds = lambda n: [p for p, _ in n.pred]
        else:
            roots = exits if exits is not None else [self.exit]
            preds = lambda n: [s for s, _ in n.succ]
        allids = set(n.id for n in nodes)
        dom = {n.id: set(allids) for n in nodes}
        for r in roots:
            dom[r.id] = {r.id}
        rootids = set(r.id for r in roots)
        changed = True
        order = nodes if not post else list(reversed(nodes))
        while changed:
            changed = False
            for n in order:
                if n.id in rootids:
                    continue
                ps = preds(n)
                if not ps:
                    new = set(allids)   # unreachable: vacuous
                else:
                    it = iter(ps)
                    new = set(dom[next(it).id])
                    for p in it:
                        new &= dom[p.id]
                new.add(n.id)
                if new != dom[n.id]:
                    dom[n.id] = new
                    changed = True
        return dom

    def forward(self, init, transfer, join, edge_filter=None, start=None):
        """Generic forward dataflow.  transfer(node, in_state, label) -> out state for the
        edge with that label (states must be hashable-comparable values, e.g. frozenset).
        Returns IN states by node id (None = unreachable)."""
        IN = {n.id: None for n in self.nodes}
        s = start or self.entry
        IN[s.id] = init
        work = [s]
        while work:
            n = work.pop()
            st = IN[n.id]
            for m, lab in n.succ:
                if edge_filter is not None and not edge_filter(n, m, lab):
                    continue
                out = transfer(n, st, lab)
                if out is None:
                    continue
                old = IN[m.id]
                new = out if old is None else join(old, out)
                if new != old:
                    IN[m.id] = new
                    work.append(m)
        return IN

    def node_of(self, stmt):
        return self.stmt_nodes.get(id(stmt))


class _Ctx:
    def __init__(self):
        self.loops = []
        self.breaks = []
        self.conts = []
        self.handlers = []


def _handler_classes(h):
    if h.type is None:
        return None
    ts = h.type.elts if isinstance(h.type, ast.Tuple) else [h.type]
    out = set()
    for t in ts:
        if isinstance(t, ast.Attribute):
            out.add(t.attr)
        elif isinstance(t, ast.Name):
            out.add(t.id)
    return out


# ---------------------------------------------------------------------------
# definitions / uses of local names at statement level
# ---------------------------------------------------------------------------
def node_exprs(n):
    """The expression ASTs evaluated *at* CFG node n (not the bodies of compound statements)."""
    if n.kind in ('entry', 'exit', 'raise', 'try'):
        return []
    if n.kind == 'test':
        return [n.ast]
    if n.kind == 'iter':
        return [n.ast.iter]
    if n.kind == 'with':
        return [n.ast.context_expr]
    if n.kind == 'handler':
        return [n.ast.type] if n.ast.type is not None else []
    st = n.ast
    if isinstance(st, (ast.FunctionDef, ast.AsyncFunctionDef, ast.ClassDef)):
        return []
    return [st]


def target_names(t, acc=None):
    if acc is None:
        acc = []
    if isinstance(t, ast.Name):
        acc.append(t.id)
    elif isinstance(t, (ast.Tuple, ast.List)):
        for e in t.elts:
            target_names(e, acc)
    elif isinstance(t, ast.Starred):
        target_names(t.value, acc)
    return acc


def node_defs(n):
    """Local names (re)bound at node n."""
    out = []
    if n.kind == 'iter':
        return target_names(n.ast.target)
    if n.kind == 'with':
        if n.ast.optional_vars is not None:
            return target_names(n.ast.optional_vars)
        return []
    if n.kind == 'handler':
        return [n.ast.name] if n.ast.name else []
    if n.kind != 'stmt':
        for e in node_exprs(n):
            for sub in ast.walk(e):
                if isinstance(sub, ast.NamedExpr):
                    target_names(sub.target, out)
        return out
    st = n.ast
    if isinstance(st, ast.Assign):
        for t in st.targets:
            target_names(t, out)
    elif isinstance(st, (ast.AugAssign, ast.AnnAssign)):
        target_names(st.target, out)
    elif isinstance(st, (ast.FunctionDef, ast.AsyncFunctionDef, ast.ClassDef)):
        out.append(st.name)
    elif isinstance(st, (ast.Import, ast.ImportFrom)):
        for a in st.names:
            out.append((a.asname or a.name).split('.')[0])
    for e in node_exprs(n):
        for sub in ast.walk(e):
            if isinstance(sub, ast.NamedExpr):
                target_names(sub.target, out)
    return out


def node_uses(n):
    """Local names read at node n."""
    out = []
    for e in node_exprs(n):
        for sub in ast.walk(e):
            if isinstance(sub, ast.Name) and isinstance(sub.ctx, ast.Load):
                out.append(sub.id)
            elif isinstance(sub, ast.AugAssign) and isinstance(sub.target, ast.Name):
                out.append(sub.target.id)
    return out


def reaching_defs(cfg, params=()):
    """IN[node id] = frozenset of (name, defining node id) reaching the node.
    Parameters are defined at the entry node."""
    entry_defs = frozenset((p, cfg.entry.id) for p in params)
    defs_at = {n.id: node_defs(n) for n in cfg.nodes}

    def transfer(n, st, lab):
        ds = defs_at[n.id]
        if n.kind == 'iter' and lab == 'F':
            # loop exhausted: target not (re)bound on this edge
            return st
        if not ds:
            return st
        names = set(ds)
        return frozenset(d for d in st if d[0] not in names) | frozenset((nm, n.id) for nm in names)

    return cfg.forward(entry_defs, transfer, lambda a, b: a | b)
