#!/usr/bin/env python
"""
Witness for observation F: the path components recorded for a UDF symlink
contain a ROOT component for every empty piece of the target, so 'a/' is
recorded as (a, ROOT) and 'a//b' as (a, ROOT, b); a reader that resolves the
components ends up at '/' and '/b'.

The image is read with a small ECMA-167 reader of its own (the library does
not hand out the target of a UDF symlink).

usage: W6_udf_symlink_empty_components.py <path-to-checkout>
"""
import io
import struct
import sys

sys.path.insert(0, sys.argv[1])

import pycdlib  # noqa: E402

problems = []

ROOT = '<ROOT>'
PARENT = '<PARENT>'
CURRENT = '<CURRENT>'

# target -> the components an ECMA-167 reader has to find (4/14.16.1).
cases = [
    ('n0/', ['n0']),
    ('n1//b', ['n1', 'b']),
    ('/n2', [ROOT, 'n2']),
    ('n3/./b/../c', ['n3', CURRENT, 'b', PARENT, 'c']),
    ('//n4', [ROOT, 'n4']),
    ('n5///', ['n5']),
    ('/n6/', [ROOT, 'n6']),
    ('n7/b', ['n7', 'b']),
    ('/', [ROOT]),
]


def tag_ok(sector, ident):
    if len(sector) < 16:
        return False
    tag_ident, = struct.unpack_from('<H', sector, 0)
    if tag_ident != ident:
        return False
    cksum = sum(bytearray(sector[0:4] + sector[5:16])) % 256
    return cksum == bytearray(sector[4:5])[0]


def decode_components(data):
    comps = []
    pos = 0
    while pos + 4 <= len(data):
        ctype = bytearray(data[pos:pos + 1])[0]
        clen = bytearray(data[pos + 1:pos + 2])[0]
        ident = data[pos + 4:pos + 4 + clen]
        pos += 4 + clen
        if ctype == 2:
            comps.append(ROOT)
        elif ctype == 3:
            comps.append(PARENT)
        elif ctype == 4:
            comps.append(CURRENT)
        elif ctype == 5:
            if ident[0:1] == b'\x08':
                comps.append(ident[1:].decode('latin-1'))
            else:
                comps.append(ident[1:].decode('utf-16_be'))
        else:
            comps.append('<type %d>' % ctype)
    return comps


def read_symlinks(image):
    """All symlink File Entries of the image, as lists of components."""
    nsect = len(image) // 2048
    part_start = None
    for s in range(16, min(nsect, 300)):
        sector = image[s * 2048:(s + 1) * 2048]
        if tag_ok(sector, 5):
            part_start, = struct.unpack_from('<L', sector, 188)
            break
    if part_start is None:
        raise Exception('no UDF Partition Descriptor found')
    ret = []
    for s in range(part_start, nsect):
        sector = image[s * 2048:(s + 1) * 2048]
        if tag_ok(sector, 261):
            ea_off, ad_base = 168, 176
        elif tag_ok(sector, 266):
            ea_off, ad_base = 208, 216
        else:
            continue
        file_type = bytearray(sector[27:28])[0]
        if file_type != 12:
            continue
        flags, = struct.unpack_from('<H', sector, 34)
        info_len, = struct.unpack_from('<Q', sector, 56)
        l_ea, l_ad = struct.unpack_from('<LL', sector, ea_off)
        ads = sector[ad_base + l_ea:ad_base + l_ea + l_ad]
        if flags & 0x7 == 3:
            data = ads[:info_len]
        else:
            adlen, adpos = struct.unpack_from('<LL', ads, 0)
            adlen &= 0x3fffffff
            start = (part_start + adpos) * 2048
            data = image[start:start + min(adlen, info_len)]
        ret.append(decode_components(data))
    return ret


iso = pycdlib.PyCdlib()
iso.new(interchange_level=3, udf='2.60')
for index, case in enumerate(cases):
    iso.add_symlink(udf_symlink_path='/s%d' % index, udf_target=case[0])
out = io.BytesIO()
iso.write_fp(out)
iso.close()

found = read_symlinks(out.getvalue())
if len(found) != len(cases):
    problems.append('the image holds %d symlink File Entries, expected %d' % (len(found), len(cases)))

for target, expect in cases:
    key = [c for c in expect if c.startswith('n')]
    if key:
        mine = [f for f in found if key[0] in f]
    else:
        mine = [f for f in found if not [c for c in f if c.startswith('n')]]
    if len(mine) != 1:
        problems.append('target %r: cannot find its File Entry' % target)
        continue
    if mine[0] != expect:
        problems.append('target %r is recorded as the components %r, expected %r' % (target, mine[0], expect))

if problems:
    print('\n'.join(problems))
    sys.exit(1)
print('OK')
sys.exit(0)
