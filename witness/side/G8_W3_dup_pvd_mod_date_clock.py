"""
Each PVD copy gets its volume modification date from its own time.time() call
while writing.  When the clock second changes between the two calls, the
copies written by duplicate_pvd() differ and pycdlib refuses to open its own
image ("Multiple occurrences of PVD did not agree!").
"""
import io
import sys
import time

sys.path.insert(0, sys.argv[1])
import pycdlib  # noqa: E402


def main():
    iso = pycdlib.PyCdlib()
    iso.new()
    iso.add_fp(io.BytesIO(b'foo\n'), 4, '/FOO.;1')
    iso.duplicate_pvd()

    # Make the race deterministic: a clock that advances by one second every
    # time it is read.
    real_time = time.time
    state = {'t': real_time()}

    def ticking():
        state['t'] += 1.0
        return state['t']

    out = io.BytesIO()
    time.time = ticking
    try:
        iso.write_fp(out)
    finally:
        time.time = real_time
    iso.close()

    img = out.getvalue()
    problems = []
    first = img[16 * 2048:17 * 2048]
    second = img[17 * 2048:18 * 2048]
    if first[0:6] != b'\x01CD001' or second[0:6] != b'\x01CD001':
        problems.append('expected PVDs at sectors 16 and 17')
    elif first != second:
        diff = [i for i in range(2048) if first[i] != second[i]]
        problems.append('the two PVD copies differ at descriptor bytes %d..%d (modification date is 830..846): %r vs %r'
                        % (diff[0], diff[-1], first[830:847], second[830:847]))

    iso2 = pycdlib.PyCdlib()
    try:
        iso2.open_fp(io.BytesIO(img))
        iso2.close()
    except Exception as e:  # pylint: disable=broad-except
        problems.append('pycdlib cannot open its own image: %s: %s' % (type(e).__name__, e))

    if problems:
        for p in problems:
            print(p)
        return 1
    print('OK')
    return 0


if __name__ == '__main__':
    sys.exit(main())
