"""
Opening an isohybrid/EFI image seeks to locations taken from 64-bit GPT fields
without validating them.  A huge backup_lba raises OverflowError from open_fp(),
and a backup header whose current_lba is 0 makes open() on a real file fail
with OSError (negative seek) instead of PyCdlibInvalidISO.
"""
import io
import os
import struct
import sys
import tempfile

sys.path.insert(0, sys.argv[1])
import pycdlib  # noqa: E402


def build():
    iso = pycdlib.PyCdlib()
    iso.new()
    boot = b'\x00' * 0x40 + b'\xfb\xc0\x78\x70'
    iso.add_fp(io.BytesIO(boot), len(boot), '/BOOT.;1')
    iso.add_eltorito('/BOOT.;1', '/BOOT.CAT;1', boot_load_size=4)
    efi = b'e' * 2048
    iso.add_fp(io.BytesIO(efi), len(efi), '/EFI.;1')
    iso.add_eltorito('/EFI.;1', '/BOOT.CAT;1', efi=True)
    iso.add_isohybrid(efi=True)
    out = io.BytesIO()
    iso.write_fp(out)
    iso.close()
    return out.getvalue()


def try_open(img, how):
    """Returns None if the image opened, else the exception."""
    iso = pycdlib.PyCdlib()
    path = None
    try:
        if how == 'open_fp':
            iso.open_fp(io.BytesIO(img))
        else:
            fd, path = tempfile.mkstemp(suffix='.iso')
            os.write(fd, img)
            os.close(fd)
            iso.open(path)
        iso.close()
        return None
    except Exception as e:  # pylint: disable=broad-except
        return e
    finally:
        if path is not None:
            os.unlink(path)


def main():
    problems = []
    good = build()

    # The undamaged image must open, with the backup GPT parsed.
    iso = pycdlib.PyCdlib()
    iso.open_fp(io.BytesIO(good))
    if iso.isohybrid_mbr is None or not iso.isohybrid_mbr.efi:
        print('witness is broken: image is not an EFI isohybrid')
        return 1
    backup_lba = iso.isohybrid_mbr.primary_gpt.header.backup_lba
    nparts = len(iso.isohybrid_mbr.secondary_gpt.parts)
    iso.close()
    if nparts == 0:
        problems.append('undamaged image: no backup GPT partitions parsed')
    for how in ('open_fp', 'open'):
        exc = try_open(good, how)
        if exc is not None:
            problems.append('undamaged image, %s: %r' % (how, exc))

    huge = bytearray(good)
    huge[512 + 32:512 + 40] = struct.pack('<Q', 2**62)
    zero = bytearray(good)
    zero[backup_lba * 512 + 24:backup_lba * 512 + 32] = struct.pack('<Q', 0)

    for name, img in (('primary GPT backup_lba=2**62', bytes(huge)),
                      ('backup GPT current_lba=0', bytes(zero))):
        for how in ('open_fp', 'open'):
            exc = try_open(img, how)
            if exc is None:
                # Tolerating the damage would be fine too.
                continue
            if not isinstance(exc, pycdlib.pycdlibexception.PyCdlibException):
                problems.append('%s, %s: %s: %s' % (name, how, type(exc).__name__, exc))

    if problems:
        print('\n'.join(problems))
        return 1
    print('OK')
    return 0


if __name__ == '__main__':
    sys.exit(main())
