"""Observation A: two entries with the same Rock Ridge name in one directory.

Usage: W1_rr_duplicate_name.py <path-to-checkout>
"""
import io
import sys

sys.path.insert(0, sys.argv[1])

import pycdlib
from pycdlib.pycdlibexception import PyCdlibInvalidInput


def rr_names(iso, iso_dir):
    names = []
    for child in iso.list_children(iso_path=iso_dir):
        if child.is_dot() or child.is_dotdot():
            continue
        names.append(child.rock_ridge.name())
    return names


def main():
    problems = []

    # 1. Two files with the same Rock Ridge name in the root directory.
    iso = pycdlib.PyCdlib()
    iso.new(rock_ridge='1.09')
    iso.add_fp(io.BytesIO(b'a'), 1, '/A.;1', rr_name='x')
    try:
        iso.add_fp(io.BytesIO(b'b'), 1, '/B.;1', rr_name='x')
        problems.append('second add_fp with rr_name x was accepted; Rock Ridge names in / are %r' % (rr_names(iso, '/')))
    except PyCdlibInvalidInput:
        # The refusal must leave the image usable.
        out = io.BytesIO()
        iso.write_fp(out)
        chk = pycdlib.PyCdlib()
        chk.open_fp(out)
        got = []
        for root, dirs, files in chk.walk(iso_path='/'):
            got.extend(files)
        if got != ['A.;1']:
            problems.append('after the refused add the image holds %r instead of [A.;1]' % (got))
        chk.close()
    iso.close()

    # 2. A directory and a file, a symlink and a hard link with a taken name.
    iso = pycdlib.PyCdlib()
    iso.new(rock_ridge='1.09')
    iso.add_directory('/DIR1', rr_name='name')
    iso.add_fp(io.BytesIO(b'a'), 1, '/A.;1', rr_name='other')
    for what, call in (('add_directory', lambda: iso.add_directory('/DIR2', rr_name='name')),
                       ('add_fp', lambda: iso.add_fp(io.BytesIO(b'b'), 1, '/B.;1', rr_name='name')),
                       ('add_symlink', lambda: iso.add_symlink('/S.;1', 'name', 'other')),
                       ('add_hard_link', lambda: iso.add_hard_link(iso_old_path='/A.;1', iso_new_path='/H.;1', rr_name='name'))):
        try:
            call()
            problems.append('%s with the taken Rock Ridge name was accepted' % (what))
        except PyCdlibInvalidInput:
            pass
    iso.close()

    # 3. Things that must keep working: the same name in different
    # directories, re-using a name after removal, a relocated deep directory
    # (its placeholder and the moved directory carry the same name).
    iso = pycdlib.PyCdlib()
    iso.new(rock_ridge='1.09')
    try:
        iso.add_directory('/D1', rr_name='d1')
        iso.add_directory('/D2', rr_name='d2')
        iso.add_fp(io.BytesIO(b'a'), 1, '/D1/A.;1', rr_name='same')
        iso.add_fp(io.BytesIO(b'b'), 1, '/D2/A.;1', rr_name='same')
        iso.rm_file('/D1/A.;1')
        iso.add_fp(io.BytesIO(b'c'), 1, '/D1/C.;1', rr_name='same')
        path = ''
        for i in range(1, 9):
            path += '/L%d' % (i)
            iso.add_directory(path, rr_name='l%d' % (i))
        iso.add_fp(io.BytesIO(b'deep'), 4, path + '/F.;1', rr_name='f')
        # A second relocated directory with the same Rock Ridge name, below a
        # different parent; both are stored in the relocation directory.
        iso.add_directory('/L1/L2/L3/L4/L5/L6/M7', rr_name='m7')
        iso.add_directory('/L1/L2/L3/L4/L5/L6/M7/M8', rr_name='l8')
        out = io.BytesIO()
        iso.write_fp(out)
        chk = pycdlib.PyCdlib()
        chk.open_fp(out)
        buf = io.BytesIO()
        chk.get_file_from_iso_fp(buf, rr_path='/l1/l2/l3/l4/l5/l6/l7/l8/f')
        if buf.getvalue() != b'deep':
            problems.append('deep file reads %r' % (buf.getvalue()))
        chk.close()
    except PyCdlibInvalidInput as e:
        problems.append('a legal edit was refused: %s' % (e))
    iso.close()

    # 4. A refused directory at the depth where directories are relocated
    # must not leave a half made relocation directory behind.
    iso = pycdlib.PyCdlib()
    iso.new(rock_ridge='1.09')
    path = ''
    for i in range(1, 8):
        path += '/L%d' % (i)
        iso.add_directory(path, rr_name='l%d' % (i))
    iso.add_fp(io.BytesIO(b'x'), 1, path + '/F.;1', rr_name='deep')
    try:
        iso.add_directory(path + '/ABC', rr_name='deep')
        problems.append('deep add_directory with the Rock Ridge name of a sibling file was accepted')
    except PyCdlibInvalidInput:
        top = sorted(c.file_identifier() for c in iso.list_children(iso_path='/'))
        if top != [b'.', b'..', b'L1']:
            problems.append('the refused deep add_directory left %r in /' % (top))
        try:
            iso.write_fp(io.BytesIO())
        except Exception as e:  # pylint: disable=broad-except
            problems.append('image not writable after the refused deep add_directory: %s: %s' % (type(e).__name__, e))
    iso.close()

    if problems:
        for p in problems:
            print(p)
        return 1
    print('OK')
    return 0


if __name__ == '__main__':
    sys.exit(main())
