"""F-14.b: a refused new() (or open) leaves descriptors behind; the next new() on the same object masters
an image with two Primary Volume Descriptors."""
import io, sys
sys.path.insert(0, '/repo')
import pycdlib
iso = pycdlib.PyCdlib()
try:
    iso.new(joliet=4)
    print('joliet=4 accepted?!')
except pycdlib.pycdlibexception.PyCdlibInvalidInput:
    pass
iso.new()
out = io.BytesIO()
try:
    iso.write_fp(out)
except Exception as e:   # noqa
    print('write after a refused new() failed:', type(e).__name__, e)
    print('DEFECT')
    sys.exit(1)
ref = pycdlib.PyCdlib(); ref.new(); o2 = io.BytesIO(); ref.write_fp(o2)
n1, n2 = len(iso.pvds), len(ref.pvds)
print('PVDs after a failed new():', n1, ' on a fresh object:', n2, ' image sizes', len(out.getvalue()), len(o2.getvalue()))
ok = n1 == n2 and len(out.getvalue()) == len(o2.getvalue())
print('OK' if ok else 'DEFECT')
sys.exit(0 if ok else 1)
