"""
The backup GPT must mirror the primary GPT: same disk GUID and the same unique
GUID for each partition.  pycdlib draws fresh random GUIDs for the backup copy,
so the two tables describe different disks and different partitions.
"""
import io
import struct
import sys

sys.path.insert(0, sys.argv[1])
import pycdlib  # noqa: E402

BOOT = b'\x00' * 0x40 + b'\xfb\xc0\x78\x70'


def main():
    iso = pycdlib.PyCdlib()
    iso.new()
    iso.add_fp(io.BytesIO(BOOT), len(BOOT), '/ISOLINUX.BIN;1')
    iso.add_eltorito('/ISOLINUX.BIN;1', boot_load_size=4)
    iso.add_fp(io.BytesIO(b'E' * 3000), 3000, '/EFIBOOT.IMG;1')
    iso.add_eltorito('/EFIBOOT.IMG;1', efi=True)
    iso.add_fp(io.BytesIO(b'M' * 3000), 3000, '/MACBOOT.IMG;1')
    iso.add_eltorito('/MACBOOT.IMG;1', efi=True)
    iso.add_isohybrid(mac=True)
    out = io.BytesIO()
    iso.write_fp(out)
    iso.close()
    raw = out.getvalue()

    problems = []
    backup = struct.unpack_from('<Q', raw, 512 + 32)[0]
    if raw[backup * 512:backup * 512 + 8] != b'EFI PART':
        print('no backup GPT header at LBA %d' % (backup))
        return 1
    if raw[512 + 56:512 + 72] != raw[backup * 512 + 56:backup * 512 + 72]:
        problems.append('disk GUID differs between the primary and the backup GPT header')
    parr = struct.unpack_from('<Q', raw, 512 + 72)[0] * 512
    barr = struct.unpack_from('<Q', raw, backup * 512 + 72)[0] * 512
    guids = set()
    for i in range(3):
        pent = raw[parr + 128 * i:parr + 128 * (i + 1)]
        bent = raw[barr + 128 * i:barr + 128 * (i + 1)]
        guids.add(pent[16:32])
        if pent[16:32] != bent[16:32]:
            problems.append('partition %d has a different unique GUID in the backup GPT' % (i + 1))
        elif pent != bent:
            problems.append('partition %d entry differs between primary and backup GPT' % (i + 1))
    if len(guids) != 3 or b'\x00' * 16 in guids:
        problems.append('partition GUIDs are not unique')

    if problems:
        print('\n'.join(problems))
        return 1
    print('OK')
    return 0


if __name__ == '__main__':
    sys.exit(main())
