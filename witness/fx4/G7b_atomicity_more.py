"""F-14.x: refused edits that leave the image object changed (extended copy of notes/atomicity.py).

Additions to the original: the snapshot also compares the bytes that write_fp() produces (the clock
is frozen so that both objects get the same time stamps), (and the random
generator re-seeded, for the UDF volume set identifier and the isohybrid ids), and the bytes written after one further,
legal edit (a new file in every namespace the image has); more scenarios for rm_directory, rm_file,
rm_hard_link, add_eltorito, rm_eltorito and add_isohybrid are appended at the end.

Each scenario builds two identical objects; on one of them a call is made that the library refuses
with PyCdlibInvalidInput.  Afterwards the observable state of the two objects (volume sizes, the
trees of all namespaces, Rock Ridge link counts, inode / boot-record counts, hybrid and El Torito
presence) must be equal and the object must still be writable.  Usage: atomicity.py <checkout> [name ...]
Exit 1 if any scenario shows a difference (DEFECT), 0 otherwise."""
import hashlib
import io
import random
import sys
import time
import uuid
CHECKOUT = sys.argv.pop(1)
sys.path.insert(0, CHECKOUT)
import pycdlib
from pycdlib.pycdlibexception import PyCdlibInvalidInput

time.time = lambda: 1000000000.0    # both objects of a pair get the same time stamps ...
uuid.uuid4 = lambda: uuid.UUID(int=random.getrandbits(128))    # ... and the same GUIDs (random is re-seeded per object)


def snapshot(iso):
    snap = {}
    try:
        iso.force_consistency()
        snap['consistency'] = None
    except Exception as e:     # noqa
        snap['consistency'] = '%s: %s' % (type(e).__name__, e)
    snap.update({'space': iso.pvd.space_size, 'inodes': len(iso.inodes), 'brs': len(iso.brs),
                 'eltorito': iso.eltorito_boot_catalog is not None, 'hybrid': iso.isohybrid_mbr is not None})
    if iso.joliet_vd is not None:
        snap['jspace'] = iso.joliet_vd.space_size
    trees = {}
    links = {}
    try:
        kinds = ['iso_path']
        if iso.has_joliet():
            kinds.append('joliet_path')
        if iso.has_udf():
            kinds.append('udf_path')
        for k in kinds:
            items = []
            for root, dirs, files in iso.walk(**{k: '/'}):
                for d in dirs:
                    items.append(root.rstrip('/') + '/' + d + '/')
                for f in files:
                    items.append(root.rstrip('/') + '/' + f)
            trees[k] = sorted(items)
        if iso.has_rock_ridge():
            stack = [iso.pvd.root_directory_record()]
            while stack:
                rec = stack.pop()
                dot = rec.children[0].rock_ridge
                px = dot.dr_entries.px_record or dot.ce_entries.px_record
                links[iso.full_path_from_dirrecord(rec)] = px.posix_file_links
                for c in rec.children[2:]:
                    if c.is_dir():
                        stack.append(c)
    except Exception as e:     # noqa
        trees['error'] = '%s: %s' % (type(e).__name__, e)
    snap['trees'] = trees
    snap['links'] = links
    snap['bitables'] = sum(1 for i in iso.inodes if i.boot_info_table is not None)
    if iso.has_udf():
        snap['partlen'] = iso.udf_main_descs.partitions[0].part_length
    werr = None
    try:
        out = io.BytesIO()
        iso.write_fp(out)
        snap['bytes'] = '%d bytes, sha256 %s' % (len(out.getvalue()), hashlib.sha256(out.getvalue()).hexdigest()[:16])
    except Exception as e:     # noqa
        werr = '%s: %s' % (type(e).__name__, e)
    snap['write'] = werr
    # a later edit behaves normally: one more file in every namespace, then write again
    try:
        kw = {}
        if iso.has_rock_ridge():
            kw['rr_name'] = 'zzzz'
        if iso.has_joliet():
            kw['joliet_path'] = '/zzzz'
        if iso.has_udf():
            kw['udf_path'] = '/zzzz'
        iso.add_fp(io.BytesIO(b'zz'), 2, '/ZZZZ.;1', **kw)
        out = io.BytesIO()
        iso.write_fp(out)
        snap['later'] = '%d bytes, sha256 %s' % (len(out.getvalue()), hashlib.sha256(out.getvalue()).hexdigest()[:16])
    except Exception as e:     # noqa
        snap['later'] = '%s: %s' % (type(e).__name__, e)
    return snap


def fp(data=b'x'):
    return io.BytesIO(data)


def base(**kw):
    iso = pycdlib.PyCdlib()
    iso.new(**kw)
    return iso


SCENARIOS = {}


def scenario(name, keys):
    def deco(fn):
        SCENARIOS[name] = (fn, keys)
        return fn
    return deco


@scenario('add_fp_joliet_parent_missing', ['pycdlib.PyCdlib._add_fp|num_bytes_to_add += self._add_hard_link_to_inode(ino, thislen, fmode, eltorito_catalog, joliet_new_path=joliet_path, continuation=offset > 0)'])
def s1():
    mk = lambda: base(joliet=3)
    return mk, lambda iso: iso.add_fp(fp(), 1, '/A.;1', joliet_path='/nodir/a')


@scenario('add_fp_udf_parent_missing', ['pycdlib.PyCdlib._add_fp|num_bytes_to_add += self._add_hard_link_to_inode(ino, length, fmode, eltorito_catalog, udf_new_path=udf_path)'])
def s2():
    mk = lambda: base(udf='2.60')
    return mk, lambda iso: iso.add_fp(fp(), 1, '/A.;1', udf_path='/nodir/a')


@scenario('add_directory_duplicate_rr_linkcount', ['pycdlib.PyCdlib.add_directory|num_bytes_to_add += self._add_child_to_dr(rec)'])
def s3():
    def mk():
        iso = base(rock_ridge='1.09')
        iso.add_directory('/DIR1', rr_name='dir1')
        return iso
    return mk, lambda iso: iso.add_directory('/DIR1', rr_name='dir1')


@scenario('add_directory_joliet_parent_missing', ['pycdlib.PyCdlib.add_directory|num_bytes_to_add += self._add_joliet_dir(self._normalize_joliet_path(joliet_path))'])
def s4():
    mk = lambda: base(joliet=3)
    return mk, lambda iso: iso.add_directory('/DIR1', joliet_path='/nodir/dir1')


@scenario('add_directory_udf_on_non_udf', ["pycdlib.PyCdlib.add_directory|raise pycdlibexception.PyCdlibInvalidInput('Can only specify a UDF path for a UDF ISO')"])
def s5():
    mk = lambda: base()
    return mk, lambda iso: iso.add_directory('/DIR1', udf_path='/dir1')


@scenario('add_directory_udf_path_relative', ['pycdlib.PyCdlib.add_directory|udf_path_bytes = utils.normpath(udf_path)'])
def s6():
    mk = lambda: base(udf='2.60')
    return mk, lambda iso: iso.add_directory('/DIR1', udf_path='dir1')


@scenario('add_directory_udf_parent_missing', ['pycdlib.PyCdlib.add_directory|udf_name, udf_parent = self._udf_name_and_parent_from_path(udf_path_bytes)'])
def s7():
    mk = lambda: base(udf='2.60')
    return mk, lambda iso: iso.add_directory('/DIR1', udf_path='/nodir/dir1')


@scenario('add_directory_udf_duplicate', ['pycdlib.PyCdlib.add_directory|num_new_extents = udf_parent.add_file_ident_desc(file_ident, self.logical_block_size)'])
def s8():
    def mk():
        iso = base(udf='2.60')
        iso.add_directory('/DIR0', udf_path='/same')
        return iso
    return mk, lambda iso: iso.add_directory('/DIR1', udf_path='/same')


@scenario('add_directory_udf_name_too_long', ['pycdlib.PyCdlib.add_directory|file_ident.new(True, False, udf_name, udf_parent)'])
def s9():
    mk = lambda: base(udf='2.60')
    return mk, lambda iso: iso.add_directory('/DIR1', udf_path='/' + 'u' * 300)


@scenario('add_symlink_udf_parent_missing', ['pycdlib.PyCdlib.add_symlink|udf_name, udf_parent = self._udf_name_and_parent_from_path(udf_symlink_path_bytes)'])
def s10():
    def mk():
        iso = base(rock_ridge='1.09', udf='2.60')
        iso.add_fp(fp(), 1, '/F.;1', rr_name='f', udf_path='/f')
        return iso
    return mk, lambda iso: iso.add_symlink('/SYM.;1', 'sym', 'f', udf_symlink_path='/nodir/sym', udf_target='f')


@scenario('add_symlink_udf_path_relative', ['pycdlib.PyCdlib.add_symlink|udf_symlink_path_bytes = utils.normpath(udf_symlink_path)'])
def s11():
    def mk():
        iso = base(rock_ridge='1.09', udf='2.60')
        return iso
    return mk, lambda iso: iso.add_symlink('/SYM.;1', 'sym', 'f', udf_symlink_path='sym', udf_target='f')


@scenario('add_symlink_udf_duplicate', ['pycdlib.PyCdlib.add_symlink|num_new_extents = udf_parent.add_file_ident_desc(file_ident, self.logical_block_size)'])
def s12():
    def mk():
        iso = base(rock_ridge='1.09', udf='2.60')
        iso.add_fp(fp(), 1, '/F.;1', rr_name='f', udf_path='/same')
        return iso
    return mk, lambda iso: iso.add_symlink('/SYM.;1', 'sym', 'f', udf_symlink_path='/same', udf_target='f')


@scenario('add_symlink_udf_name_too_long', ['pycdlib.PyCdlib.add_symlink|file_ident.new(False, False, udf_name, udf_parent)'])
def s13():
    mk = lambda: base(rock_ridge='1.09', udf='2.60')
    return mk, lambda iso: iso.add_symlink('/SYM.;1', 'sym', 'f', udf_symlink_path='/' + 'u' * 300, udf_target='f')


@scenario('add_symlink_joliet_on_non_joliet', [])
def s14():
    mk = lambda: base(rock_ridge='1.09')
    return mk, lambda iso: iso.add_symlink('/SYM.;1', 'sym', 'f', joliet_path='/sym')


@scenario('add_symlink_joliet_parent_missing', ['pycdlib.PyCdlib.add_symlink|joliet_name, joliet_parent = self._joliet_name_and_parent_from_path(joliet_path_bytes)'])
def s15():
    mk = lambda: base(rock_ridge='1.09', joliet=3)
    return mk, lambda iso: iso.add_symlink('/SYM.;1', 'sym', 'f', joliet_path='/nodir/sym')


@scenario('add_symlink_joliet_duplicate', ['pycdlib.PyCdlib.add_symlink|num_bytes_to_add += self._add_child_to_dr(joliet_rec)'])
def s16():
    def mk():
        iso = base(rock_ridge='1.09', joliet=3)
        iso.add_directory('/DIR1', rr_name='dir1', joliet_path='/same')
        return iso
    return mk, lambda iso: iso.add_symlink('/SYM.;1', 'sym', 'f', joliet_path='/same')


@scenario('add_eltorito_bad_platform', ['pycdlib.PyCdlib.add_eltorito|self.eltorito_boot_catalog.new(br, boot_dirrecord.inode, sector_count, boot_load_seg, media_name, system_type, platform_id, bootable)'])
def s17():
    def mk():
        iso = base()
        iso.add_fp(fp(b'b' * 2048), 2048, '/BOOT.;1')
        return iso
    return mk, lambda iso: iso.add_eltorito('/BOOT.;1', '/BOOT.CAT;1', platform_id=5)


@scenario('add_eltorito_bad_media_name', ['eltorito.EltoritoBootCatalog.new|self.initial_entry.new(sector_count, load_seg, media_name, system_type, bootable)'])
def s18():
    def mk():
        iso = base()
        iso.add_fp(fp(b'b' * 2048), 2048, '/BOOT.;1')
        return iso
    return mk, lambda iso: iso.add_eltorito('/BOOT.;1', '/BOOT.CAT;1', media_name='bogus')


@scenario('add_eltorito_bootcat_parent_missing', ['pycdlib.PyCdlib.add_eltorito|num_bytes_to_add += self._add_fp(None, self.logical_block_size, False, bootcatfile, rrname, joliet_bootcatfile, udf_bootcatfile, None, True)'])
def s19():
    def mk():
        iso = base()
        iso.add_fp(fp(b'b' * 2048), 2048, '/BOOT.;1')
        return iso
    return mk, lambda iso: iso.add_eltorito('/BOOT.;1', '/NODIR/BOOT.CAT;1')


@scenario('add_eltorito_second_section_bad_media', ['pycdlib.PyCdlib.add_eltorito|self.eltorito_boot_catalog.add_section(boot_dirrecord.inode, sector_count, boot_load_seg, media_name, system_type, efi, bootable)'])
def s20():
    def mk():
        iso = base()
        iso.add_fp(fp(b'b' * 2048), 2048, '/BOOT.;1')
        iso.add_fp(fp(b'c' * 2048), 2048, '/BOOT2.;1')
        iso.add_eltorito('/BOOT.;1', '/BOOT.CAT;1')
        return iso
    return mk, lambda iso: iso.add_eltorito('/BOOT2.;1', media_name='bogus', boot_info_table=True)


@scenario('add_eltorito_hdemul_bad_mbr', ['pycdlib.PyCdlib.add_eltorito|system_type = eltorito.hdmbrcheck(disk_mbr, sector_count, bootable)',
                                          "pycdlib.PyCdlib.add_eltorito|raise pycdlibexception.PyCdlibInvalidInput('Could not read entire HD MBR, must be at least 512 bytes')"])
def s21():
    def mk():
        iso = base()
        iso.add_fp(fp(b'b' * 2048), 2048, '/BOOT.;1')
        return iso
    return mk, lambda iso: iso.add_eltorito('/BOOT.;1', '/BOOT.CAT;1', media_name='hdemul', boot_info_table=True)


@scenario('add_isohybrid_bad_geometry', ['pycdlib.PyCdlib.add_isohybrid|self.isohybrid_mbr.new(efi, mac, part_entry, mbr_id, part_offset, geometry_sectors, geometry_heads, part_type)'])
def s22():
    def mk():
        iso = base()
        boot = b'\x00' * 0x40 + b'\xfb\xc0\x78\x70' + b'\x00' * (2048 - 0x44)
        iso.add_fp(fp(boot), len(boot), '/BOOT.;1')
        iso.add_eltorito('/BOOT.;1', '/BOOT.CAT;1', boot_load_size=4)
        return iso
    return mk, lambda iso: iso.add_isohybrid(geometry_sectors=99)


@scenario('rm_directory_joliet_missing', ['pycdlib.PyCdlib.rm_directory|num_bytes_to_remove += self._rm_joliet_dir(self._normalize_joliet_path(joliet_path))'])
def s23():
    def mk():
        iso = base(joliet=3)
        iso.add_directory('/DIR1', joliet_path='/dir1')
        return iso
    return mk, lambda iso: iso.rm_directory('/DIR1', joliet_path='/other')


@scenario('rm_directory_udf_on_non_udf', ["pycdlib.PyCdlib.rm_directory|raise pycdlibexception.PyCdlibInvalidInput('Can only specify a UDF path for a UDF ISO')"])
def s24():
    def mk():
        iso = base()
        iso.add_directory('/DIR1')
        return iso
    return mk, lambda iso: iso.rm_directory('/DIR1', udf_path='/dir1')


@scenario('rm_directory_udf_missing', ['pycdlib.PyCdlib.rm_directory|num_extents_to_remove = udf_parent.remove_file_ident_desc_by_name(udf_name, self.logical_block_size)',
                                       'pycdlib.PyCdlib.rm_directory|udf_name, udf_parent = self._udf_name_and_parent_from_path(udf_path_bytes)'])
def s25():
    def mk():
        iso = base(udf='2.60')
        iso.add_directory('/DIR1', udf_path='/dir1')
        return iso
    return mk, lambda iso: iso.rm_directory('/DIR1', udf_path='/other')


@scenario('add_fp_udf_duplicate', ['pycdlib.PyCdlib._add_fp|num_bytes_to_add += self._add_hard_link_to_inode(ino, length, fmode, eltorito_catalog, udf_new_path=udf_path)'])
def s2b():
    def mk():
        iso = base(udf='2.60')
        iso.add_fp(fp(), 1, '/A.;1', udf_path='/a')
        return iso
    return mk, lambda iso: iso.add_fp(fp(), 1, '/B.;1', udf_path='/a')


@scenario('add_fp_joliet_duplicate', ['pycdlib.PyCdlib._add_fp|num_bytes_to_add += self._add_hard_link_to_inode(ino, thislen, fmode, eltorito_catalog, joliet_new_path=joliet_path, continuation=offset > 0)'])
def s1b():
    def mk():
        iso = base(joliet=3)
        iso.add_fp(fp(), 1, '/A.;1', joliet_path='/a')
        return iso
    return mk, lambda iso: iso.add_fp(fp(), 1, '/B.;1', joliet_path='/a')


@scenario('add_directory_joliet_duplicate', ['pycdlib.PyCdlib.add_directory|num_bytes_to_add += self._add_joliet_dir(self._normalize_joliet_path(joliet_path))'])
def s4b():
    def mk():
        iso = base(joliet=3)
        iso.add_directory('/DIR1', joliet_path='/dir1')
        return iso
    return mk, lambda iso: iso.add_directory('/DIR2', joliet_path='/dir1')


@scenario('rm_directory_udf_is_file', ["pycdlib.PyCdlib.rm_directory|raise pycdlibexception.PyCdlibInvalidInput('Cannot remove a file with rm_directory (try rm_file instead)') (the UDF one)"])
def s25b():
    def mk():
        iso = base(udf='2.60')
        iso.add_directory('/DIR1', udf_path='/dir1')
        iso.add_fp(fp(), 1, '/FILE.;1', udf_path='/file')
        return iso
    return mk, lambda iso: iso.rm_directory('/DIR1', udf_path='/file')


@scenario('rm_directory_udf_nonempty', ['pycdlib.PyCdlib.rm_directory|num_extents_to_remove = udf_parent.remove_file_ident_desc_by_name(udf_ident.fi, self.logical_block_size)'])
def s25c():
    def mk():
        iso = base(udf='2.60')
        iso.add_directory('/DIR1', udf_path='/dir1')
        iso.add_fp(fp(), 1, udf_path='/dir1/inner')
        return iso
    return mk, lambda iso: iso.rm_directory('/DIR1', udf_path='/dir1')


@scenario('rm_directory_udf_relative', ['pycdlib.PyCdlib.rm_directory|udf_path_bytes = utils.normpath(udf_path)'])
def s26():
    def mk():
        iso = base(udf='2.60')
        iso.add_directory('/DIR1', udf_path='/dir1')
        return iso
    return mk, lambda iso: iso.rm_directory('/DIR1', udf_path='dir1')


@scenario('rm_directory_udf_root', ["pycdlib.PyCdlib.rm_directory|raise pycdlibexception.PyCdlibInvalidInput('Cannot remove base directory')"])
def s27():
    def mk():
        iso = base(udf='2.60')
        iso.add_directory('/DIR1', udf_path='/dir1')
        return iso
    return mk, lambda iso: iso.rm_directory('/DIR1', udf_path='/')


@scenario('add_hard_link_duplicate_dir_record', ['pycdlib.PyCdlib._add_hard_link_to_inode|num_bytes_to_add += self._add_child_to_dr(new_rec)'])
def s28():
    def mk():
        iso = base(rock_ridge='1.09')
        iso.add_directory('/FOO', rr_name='foo')
        iso.add_fp(fp(), 1, '/BAR.;1', rr_name='bar')
        return iso
    return mk, lambda iso: iso.add_hard_link(iso_old_path='/BAR.;1', iso_new_path='/FOO', rr_name='foo2')


@scenario('relocation_rr_moved_name_taken', ['pycdlib.PyCdlib._find_or_create_rr_moved|num_bytes_to_add = self._add_child_to_dr(rec)'])
def s29():
    def mk():
        iso = base(rock_ridge='1.09')
        # the user's own entry called RR_MOVED, then a chain deep enough to need relocation
        iso.add_directory('/RR_MOVED', rr_name='rr_moved')
        p = ''
        for i in range(7):
            p += '/D%d' % i
            iso.add_directory(p, rr_name='d%d' % i)
        return iso
    return mk, lambda iso: iso.add_directory('/D0/D1/D2/D3/D4/D5/D6/D7', rr_name='d7')


@scenario('add_symlink_joliet_relative', ['pycdlib.PyCdlib.add_symlink|joliet_path_bytes = self._normalize_joliet_path(joliet_path)'])
def s31():
    mk = lambda: base(rock_ridge='1.09', joliet=3)
    return mk, lambda iso: iso.add_symlink('/SYM.;1', 'sym', 'f', joliet_path='sym')


# ---------------------------------------------------------------------------------------------
# Further scenarios (not in notes/atomicity.py)

def more(name):
    return scenario(name, [])


def three_ns_dir(**kw):
    def mk():
        iso = base(joliet=3, udf='2.60', **kw)
        if kw.get('rock_ridge'):
            iso.add_directory('/DIR1', rr_name='dir1', joliet_path='/dir1', udf_path='/dir1')
        else:
            iso.add_directory('/DIR1', joliet_path='/dir1', udf_path='/dir1')
        return iso
    return mk


@more('rm_directory_joliet_nonempty')
def m1():
    def mk():
        iso = base(joliet=3)
        iso.add_directory('/DIR1', joliet_path='/dir1')
        iso.add_fp(fp(), 1, joliet_path='/dir1/inner')
        return iso
    return mk, lambda iso: iso.rm_directory('/DIR1', joliet_path='/dir1')


@more('rm_directory_joliet_is_file')
def m2():
    def mk():
        iso = base(joliet=3)
        iso.add_directory('/DIR1', joliet_path='/dir1')
        iso.add_fp(fp(), 1, '/FILE.;1', joliet_path='/file')
        return iso
    return mk, lambda iso: iso.rm_directory('/DIR1', joliet_path='/file')


@more('rm_directory_joliet_on_non_joliet')
def m3():
    def mk():
        iso = base()
        iso.add_directory('/DIR1')
        return iso
    return mk, lambda iso: iso.rm_directory('/DIR1', joliet_path='/dir1')


@more('rm_directory_joliet_empty_string')
def m4():
    def mk():
        iso = base(joliet=3)
        iso.add_directory('/DIR1', joliet_path='/dir1')
        return iso
    return mk, lambda iso: iso.rm_directory('/DIR1', joliet_path='')


@more('rm_directory_joliet_root')
def m5():
    def mk():
        iso = base(joliet=3)
        iso.add_directory('/DIR1', joliet_path='/dir1')
        return iso
    return mk, lambda iso: iso.rm_directory('/DIR1', joliet_path='/')


@more('rm_directory_joliet_relative')
def m6():
    def mk():
        iso = base(joliet=3)
        iso.add_directory('/DIR1', joliet_path='/dir1')
        return iso
    return mk, lambda iso: iso.rm_directory('/DIR1', joliet_path='dir1')


@more('rm_directory_three_namespaces_udf_missing')
def m7():
    return three_ns_dir(), lambda iso: iso.rm_directory('/DIR1', joliet_path='/dir1', udf_path='/other')


@more('rm_directory_three_namespaces_rr_udf_nonempty')
def m8():
    def mk():
        iso = three_ns_dir(rock_ridge='1.09')()
        iso.add_fp(fp(), 1, udf_path='/dir1/inner')
        return iso
    return mk, lambda iso: iso.rm_directory('/DIR1', rr_name='dir1', joliet_path='/dir1', udf_path='/dir1')


@more('rm_directory_joliet_then_udf_missing')
def m9():
    return three_ns_dir(), lambda iso: iso.rm_directory(joliet_path='/dir1', udf_path='/other')


@more('rm_directory_udf_empty_string')
def m10():
    def mk():
        iso = base(udf='2.60')
        iso.add_directory('/DIR1', udf_path='/dir1')
        return iso
    return mk, lambda iso: iso.rm_directory('/DIR1', udf_path='')


@more('rm_directory_iso_missing_others_fine')
def m11():
    return three_ns_dir(), lambda iso: iso.rm_directory('/OTHER', joliet_path='/dir1', udf_path='/dir1')


def boot_three_ns():
    iso = base(joliet=3, udf='2.60', rock_ridge='1.09')
    iso.add_fp(fp(b'b' * 2048), 2048, '/BOOT.;1', rr_name='boot', joliet_path='/boot', udf_path='/boot')
    iso.add_directory('/DIR1', rr_name='dir1', joliet_path='/dir1', udf_path='/dir1')
    iso.add_eltorito('/BOOT.;1', '/BOOT.CAT;1')
    return iso


@more('rm_file_is_directory')
def f1():
    return boot_three_ns, lambda iso: iso.rm_file('/DIR1')


@more('rm_file_joliet_is_directory')
def f2():
    return boot_three_ns, lambda iso: iso.rm_file(joliet_path='/dir1')


@more('rm_file_udf_is_directory')
def f3():
    return boot_three_ns, lambda iso: iso.rm_file(udf_path='/dir1')


@more('rm_file_eltorito_boot_file_via_joliet')
def f4():
    return boot_three_ns, lambda iso: iso.rm_file(joliet_path='/boot')


@more('rm_file_eltorito_boot_file_via_udf')
def f5():
    return boot_three_ns, lambda iso: iso.rm_file(udf_path='/boot')


@more('rm_file_eltorito_catalog')
def f6():
    return boot_three_ns, lambda iso: iso.rm_file('/BOOT.CAT;1')


@more('rm_file_eltorito_catalog_via_udf')
def f7():
    return boot_three_ns, lambda iso: iso.rm_file(udf_path='/boot.cat')


@more('rm_file_missing')
def f8():
    return boot_three_ns, lambda iso: iso.rm_file('/NOPE.;1')


@more('rm_file_udf_on_non_udf')
def f9():
    def mk():
        iso = base()
        iso.add_fp(fp(), 1, '/A.;1')
        return iso
    return mk, lambda iso: iso.rm_file(udf_path='/a')


@more('rm_hard_link_iso_is_directory')
def h1():
    return boot_three_ns, lambda iso: iso.rm_hard_link(iso_path='/DIR1')


@more('rm_hard_link_joliet_is_directory')
def h2():
    return boot_three_ns, lambda iso: iso.rm_hard_link(joliet_path='/dir1')


@more('rm_hard_link_udf_is_directory')
def h3():
    return boot_three_ns, lambda iso: iso.rm_hard_link(udf_path='/dir1')


@more('rm_hard_link_udf_root')
def h4():
    return boot_three_ns, lambda iso: iso.rm_hard_link(udf_path='/')


@more('rm_hard_link_two_paths')
def h5():
    return boot_three_ns, lambda iso: iso.rm_hard_link(iso_path='/BOOT.;1', joliet_path='/boot')


@more('rm_hard_link_udf_missing')
def h6():
    return boot_three_ns, lambda iso: iso.rm_hard_link(udf_path='/nope')


@more('rm_hard_link_joliet_on_non_joliet')
def h7():
    def mk():
        iso = base()
        iso.add_fp(fp(), 1, '/A.;1')
        return iso
    return mk, lambda iso: iso.rm_hard_link(joliet_path='/a')


def one_boot(**kw):
    def mk():
        iso = base(**kw)
        names = {}
        if kw.get('rock_ridge'):
            names['rr_name'] = 'boot'
        if kw.get('joliet'):
            names['joliet_path'] = '/boot'
        if kw.get('udf'):
            names['udf_path'] = '/boot'
        iso.add_fp(fp(b'b' * 2048), 2048, '/BOOT.;1', **names)
        return iso
    return mk


@more('add_eltorito_floppy_bad_sector_count')
def e1():
    return one_boot(), lambda iso: iso.add_eltorito('/BOOT.;1', '/BOOT.CAT;1', media_name='floppy', boot_info_table=True)


@more('add_eltorito_bad_media_name_boot_info_table')
def e2():
    return one_boot(), lambda iso: iso.add_eltorito('/BOOT.;1', '/BOOT.CAT;1', media_name='bogus', boot_info_table=True)


@more('add_eltorito_bootcat_duplicate')
def e3():
    return one_boot(), lambda iso: iso.add_eltorito('/BOOT.;1', '/BOOT.;1', boot_info_table=True)


@more('add_eltorito_bootcat_bad_iso_name')
def e4():
    return one_boot(), lambda iso: iso.add_eltorito('/BOOT.;1', '/boot.cat')


@more('add_eltorito_bootcat_relative')
def e5():
    return one_boot(), lambda iso: iso.add_eltorito('/BOOT.;1', 'BOOT.CAT;1')


@more('add_eltorito_rr_bootcat_parent_missing')
def e6():
    return one_boot(rock_ridge='1.09'), lambda iso: iso.add_eltorito('/BOOT.;1', '/NODIR/BOOT.CAT;1', boot_info_table=True)


@more('add_eltorito_rr_bootcat_duplicate')
def e6b():
    return one_boot(rock_ridge='1.09'), lambda iso: iso.add_eltorito('/BOOT.;1', '/BOOT.;1', rr_bootcatname='boot')


@more('add_eltorito_joliet_bootcat_parent_missing')
def e7():
    return one_boot(joliet=3), lambda iso: iso.add_eltorito('/BOOT.;1', '/BOOT.CAT;1', joliet_bootcatfile='/nodir/boot.cat')


@more('add_eltorito_udf_bootcat_parent_missing')
def e8():
    return one_boot(udf='2.60'), lambda iso: iso.add_eltorito('/BOOT.;1', '/BOOT.CAT;1', udf_bootcatfile='/nodir/boot.cat')


@more('add_eltorito_joliet_on_non_joliet')
def e9():
    return one_boot(), lambda iso: iso.add_eltorito('/BOOT.;1', '/BOOT.CAT;1', joliet_bootcatfile='/boot.cat', boot_info_table=True)


@more('add_eltorito_bootfile_missing')
def e10():
    return one_boot(), lambda iso: iso.add_eltorito('/NOPE.;1', '/BOOT.CAT;1', boot_info_table=True)


@more('add_eltorito_too_many_sections')
def e11():
    def mk():
        iso = one_boot()()
        iso.add_fp(fp(b'c' * 2048), 2048, '/BOOT2.;1')
        iso.add_eltorito('/BOOT.;1', '/BOOT.CAT;1')
        for i in range(31):
            iso.add_eltorito('/BOOT.;1')
        return iso
    return mk, lambda iso: iso.add_eltorito('/BOOT2.;1', boot_info_table=True)


@more('add_eltorito_second_section_hdemul_bad_mbr')
def e12():
    def mk():
        iso = one_boot()()
        iso.add_fp(fp(b'c' * 2048), 2048, '/BOOT2.;1')
        iso.add_eltorito('/BOOT.;1', '/BOOT.CAT;1')
        return iso
    return mk, lambda iso: iso.add_eltorito('/BOOT2.;1', media_name='hdemul', boot_info_table=True)


@more('add_eltorito_hdemul_short_boot_file')
def e13():
    def mk():
        iso = base()
        iso.add_fp(fp(b'b' * 100), 100, '/BOOT.;1')
        return iso
    return mk, lambda iso: iso.add_eltorito('/BOOT.;1', '/BOOT.CAT;1', media_name='hdemul', boot_info_table=True)


# the two below are refused by _add_fp after it linked the ISO9660 entry of the catalog in (the
# add_fp_joliet_duplicate / add_fp_udf_duplicate observation, through add_eltorito)
@more('add_eltorito_joliet_bootcat_duplicate')
def e14():
    return one_boot(joliet=3), lambda iso: iso.add_eltorito('/BOOT.;1', '/BOOT.CAT;1', joliet_bootcatfile='/boot')


@more('add_eltorito_udf_bootcat_duplicate')
def e15():
    return one_boot(udf='2.60'), lambda iso: iso.add_eltorito('/BOOT.;1', '/BOOT.CAT;1', udf_bootcatfile='/boot')


@more('rm_eltorito_without_eltorito')
def r1():
    return one_boot(), lambda iso: iso.rm_eltorito()


def hybrid_ready(load_size=4, sig=b'\xfb\xc0\x78\x70'):
    def mk():
        iso = base()
        boot = b'\x00' * 0x40 + sig + b'\x00' * (2048 - 0x44)
        iso.add_fp(fp(boot), len(boot), '/BOOT.;1')
        iso.add_eltorito('/BOOT.;1', '/BOOT.CAT;1', boot_load_size=load_size)
        return iso
    return mk


@more('add_isohybrid_without_eltorito')
def i1():
    return one_boot(), lambda iso: iso.add_isohybrid()


@more('add_isohybrid_bad_sector_count')
def i2():
    return hybrid_ready(load_size=8), lambda iso: iso.add_isohybrid()


@more('add_isohybrid_bad_signature')
def i3():
    return hybrid_ready(sig=b'abcd'), lambda iso: iso.add_isohybrid()


@more('add_isohybrid_mac_without_efi')
def i4():
    return hybrid_ready(), lambda iso: iso.add_isohybrid(efi=False, mac=True)


@more('add_isohybrid_bad_part_entry')
def i5():
    return hybrid_ready(), lambda iso: iso.add_isohybrid(part_entry=5)


@more('add_isohybrid_part_entry_taken_by_efi')
def i6():
    return hybrid_ready(), lambda iso: iso.add_isohybrid(efi=True, part_entry=2)


@more('add_isohybrid_bad_heads')
def i7():
    return hybrid_ready(), lambda iso: iso.add_isohybrid(geometry_heads=999)


@more('add_isohybrid_second_call_bad_geometry')
def i8():
    def mk():
        iso = hybrid_ready()()
        iso.add_isohybrid(mbr_id=7)
        return iso
    return mk, lambda iso: iso.add_isohybrid(geometry_sectors=99)


def run(names):
    bad = []
    for name in names:
        fn, keys = SCENARIOS[name]
        mk, call = fn()
        random.seed(14)
        a = mk()
        random.seed(14)
        b = mk()
        try:
            call(a)
            print('%-40s call was ACCEPTED (scenario does not apply)' % name)
            continue
        except PyCdlibInvalidInput as e:
            msg = str(e)
        except Exception as e:    # noqa
            msg = '%s: %s' % (type(e).__name__, e)
        sa, sb = snapshot(a), snapshot(b)
        diff = sorted(k for k in sb if sa.get(k) != sb.get(k))
        if diff:
            detail = '; '.join('%s: %r != %r' % (k, sa.get(k), sb.get(k)) for k in diff)
            print('%-40s refused (%s) but object changed: %s' % (name, msg[:50], detail[:300]))
            bad.append(name)
        else:
            print('%-40s refused (%s), object unchanged' % (name, msg[:50]))
    return bad


if __name__ == '__main__':
    names = sys.argv[1:] or sorted(SCENARIOS)
    bad = run(names)
    print('DEFECT (%d of %d scenarios)' % (len(bad), len(names)) if bad else 'OK')
    sys.exit(1 if bad else 0)
