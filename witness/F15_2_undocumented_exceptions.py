"""F-15.2: opening truncated / corrupted images lets struct.error, IndexError, KeyError, ... escape;
docs/exceptions.md promises one of the three PyCdlib exception classes."""
import io, sys, random
sys.path.insert(0, '/repo')
import pycdlib
iso = pycdlib.PyCdlib()
iso.new(rock_ridge='1.09', joliet=3, udf='2.60')
iso.add_directory('/DIR1', rr_name='dir1', joliet_path='/dir1', udf_path='/dir1')
iso.add_fp(io.BytesIO(b'x' * 5000), 5000, '/DIR1/FOO.;1', rr_name='foo', joliet_path='/dir1/foo', udf_path='/dir1/foo')
out = io.BytesIO(); iso.write_fp(out); iso.close()
img = out.getvalue()
kinds = {}
def attempt(data):
    new = pycdlib.PyCdlib()
    try:
        new.open_fp(io.BytesIO(data))
    except pycdlib.pycdlibexception.PyCdlibException:
        pass
    except Exception as e:          # noqa
        kinds.setdefault(type(e).__name__, 0)
        kinds[type(e).__name__] += 1
for cut in range(16 * 2048, len(img), 1021):
    attempt(img[:cut])
rnd = random.Random(7)
for _ in range(400):
    b = bytearray(img)
    for _ in range(3):
        pos = rnd.randrange(16 * 2048, len(b))
        b[pos] = rnd.randrange(256)
    attempt(bytes(b))
print('undocumented exception types escaping open():', kinds)
print('DEFECT' if kinds else 'OK')
sys.exit(1 if kinds else 0)
