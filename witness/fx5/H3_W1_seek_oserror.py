"""
Witness A: open() of a damaged image on a real file must end in a documented
pycdlib exception (or succeed), not in OSError.

The PVD logical block size is set to 8192 and the El Torito Boot Catalog
extent to 0xFFFFFFFF, so the byte offset the parser seeks to is about 2^45.
On file systems that limit offsets (ext4: 2^44) seek() raises OSError EINVAL.

Usage: python W1_seek_oserror.py <path-to-checkout>
"""
import io
import os
import shutil
import struct
import sys
import tempfile

sys.path.insert(0, sys.argv[1])

import pycdlib  # noqa: E402
from pycdlib import pycdlibexception  # noqa: E402

DOCUMENTED = (pycdlibexception.PyCdlibInvalidISO,
              pycdlibexception.PyCdlibInvalidInput,
              pycdlibexception.PyCdlibInternalError)


def build():
    iso = pycdlib.PyCdlib()
    iso.new()
    boot = b'boot\n'
    iso.add_fp(io.BytesIO(boot), len(boot), '/BOOT.;1')
    iso.add_eltorito('/BOOT.;1', '/BOOT.CAT;1')
    out = io.BytesIO()
    iso.write_fp(out)
    iso.close()
    return bytearray(out.getvalue())


def damage(data, blocksize, extent):
    data = bytearray(data)
    struct.pack_into('<H', data, 16 * 2048 + 128, blocksize)
    struct.pack_into('>H', data, 16 * 2048 + 130, blocksize)
    struct.pack_into('<L', data, 17 * 2048 + 71, extent)
    return bytes(data)


def try_open(opener, label, problems):
    iso = pycdlib.PyCdlib()
    try:
        opener(iso)
    except DOCUMENTED as e:
        return 'raised %s' % (type(e).__name__)
    except BaseException as e:  # pylint: disable=broad-except
        problems.append('%s: undocumented %s escaped: %s' % (label, type(e).__name__, e))
        return 'escaped %s' % (type(e).__name__)
    iso.close()
    return 'opened'


def main():
    problems = []
    good = build()
    tmpdir = tempfile.mkdtemp(prefix='w1_')
    try:
        # Several products of block size and extent that are far beyond any
        # offset a file system will accept.
        for blocksize, extent in ((8192, 0xFFFFFFFF), (32768, 0xFFFFFFFF),
                                  (8192, 0x80000000), (2048, 0xFFFFFFFF)):
            data = damage(good, blocksize, extent)
            path = os.path.join(tmpdir, 'bad.iso')
            with open(path, 'wb') as outfp:
                outfp.write(data)
            label = 'bs=%d extent=0x%x' % (blocksize, extent)

            res_file = try_open(lambda iso: iso.open(path), label + ' open(filename)', problems)  # pylint: disable=cell-var-from-loop
            with open(path, 'rb') as infp:
                res_fp = try_open(lambda iso: iso.open_fp(infp), label + ' open_fp(file)', problems)  # pylint: disable=cell-var-from-loop
            res_mem = try_open(lambda iso: iso.open_fp(io.BytesIO(data)), label + ' open_fp(BytesIO)', problems)  # pylint: disable=cell-var-from-loop
            if not (res_file == res_fp == res_mem):
                problems.append('%s: the same bytes gave different results: open(filename) %s, open_fp(file) %s, open_fp(BytesIO) %s' % (label, res_file, res_fp, res_mem))

        # The undamaged image must of course still open.
        path = os.path.join(tmpdir, 'good.iso')
        with open(path, 'wb') as outfp:
            outfp.write(good)
        iso = pycdlib.PyCdlib()
        iso.open(path)
        if iso.eltorito_boot_catalog is None:
            problems.append('undamaged image: El Torito not found')
        iso.close()
    finally:
        shutil.rmtree(tmpdir)

    if problems:
        for p in problems:
            print(p)
        return 1
    print('OK')
    return 0


if __name__ == '__main__':
    sys.exit(main())
