#!/usr/bin/env python
"""
Witness for observation D, second part: on a UDF image a boot file that
carries a Boot Info Table must read the same through its UDF name as through
its ISO9660 name, and the same as what write() stores.

usage: W4b_udf_boot_info_table.py <pycdlib checkout>
"""
import io
import os
import shutil
import struct
import sys
import tempfile

sys.path.insert(0, os.path.abspath(sys.argv[1]))
import pycdlib  # noqa: E402

S = 2048


def content(n, seed):
    return (seed * 8 + bytes(bytearray(range(256))) * (n // 256 + 1))[:n]


def csum_of(data):
    rest = data[64:]
    rest = rest + b'\x00' * (-len(rest) % 4)
    return sum(struct.unpack('<%dL' % (len(rest) // 4), rest)) & 0xffffffff


def read(iso, blocksize=8192, **kwargs):
    out = io.BytesIO()
    iso.get_file_from_iso_fp(out, blocksize=blocksize, **kwargs)
    return out.getvalue()


def compare(iso, when, length, problems):
    via_iso = read(iso, iso_path='/B1.;1')
    for blocksize in (8192, 1, 13, 2048):
        via_udf = read(iso, blocksize=blocksize, udf_path='/b1')
        if via_udf != via_iso:
            problems.append('%s, %d bytes, blocksize %d: udf_path returns table %r, iso_path returns %r (lengths %d and %d, rest equal: %s)'
                            % (when, length, blocksize,
                               struct.unpack_from('<LLLL', via_udf.ljust(24, b'\x00'), 8),
                               struct.unpack_from('<LLLL', via_iso.ljust(24, b'\x00'), 8),
                               len(via_udf), len(via_iso), via_udf[64:] == via_iso[64:]))
            break
    return via_iso


def main():
    problems = []
    for length in (3000, 2048, 70, 30, 5):
        raw = content(length, b'X')
        iso = pycdlib.PyCdlib()
        iso.new(udf='2.60')
        iso.add_fp(io.BytesIO(raw), len(raw), '/B1.;1', udf_path='/b1')
        iso.add_fp(io.BytesIO(raw), len(raw), '/PLAIN.;1', udf_path='/plain')
        iso.add_eltorito('/B1.;1', '/BOOT.CAT;1', boot_info_table=True)
        compare(iso, 'new image', length, problems)
        if read(iso, udf_path='/plain') != raw:
            problems.append('a file that is not a boot file is not returned as is through udf_path')
        iso.write('udf.iso')
        iso.close()

        with open('udf.iso', 'rb') as infp:
            image = infp.read()
        cat = struct.unpack_from('<L', image, 17 * S + 71)[0]
        rba = struct.unpack_from('<L', image, cat * S + 32 + 8)[0]
        stored = image[rba * S:rba * S + length]
        if length >= 64:
            want = raw[:8] + struct.pack('<LLLL', 16, rba, length, csum_of(raw)) + b'\x00' * 40 + raw[64:]
            if stored != want:
                problems.append('precondition failed: stored boot file does not carry the expected table')

        iso = pycdlib.PyCdlib()
        iso.open('udf.iso')
        got = compare(iso, 'opened image', length, problems)
        if got != stored:
            problems.append('opened image, %d bytes: iso_path read differs from the stored bytes' % (length))
        if length >= 64:
            # after a change of the layout the table read through both names
            # must name the new sector
            iso.add_directory('/DIR2', udf_path='/dir2')
            before_write = compare(iso, 'opened and changed image', length, problems)
            out = io.BytesIO()
            iso.write_fp(out)
            image = out.getvalue()
            cat = struct.unpack_from('<L', image, 17 * S + 71)[0]
            rba2 = struct.unpack_from('<L', image, cat * S + 32 + 8)[0]
            if image[rba2 * S:rba2 * S + length] != before_write:
                problems.append('%d bytes: bytes read before write() differ from the bytes that were written' % (length))
        iso.close()

    if problems:
        for problem in problems:
            print('PROBLEM: ' + problem)
        return 1
    print('OK')
    return 0


if __name__ == '__main__':
    tmpdir = tempfile.mkdtemp(prefix='w4b')
    olddir = os.getcwd()
    os.chdir(tmpdir)
    try:
        ret = main()
    finally:
        os.chdir(olddir)
        shutil.rmtree(tmpdir, ignore_errors=True)
    sys.exit(ret)
