#!/usr/bin/env python
"""
Witness for observation B (what ends up in the image): the UDF File Entry of
a file larger than 4 GiB describes the wrong blocks.

_add_fp linked the UDF File Entry of a very large file to the inode of the
LAST part of the file.  The allocation descriptors of the File Entry (which
cover the whole file) therefore started at the extent of the last part and ran
far beyond the end of the partition and of the image, and rm_file() through the
ISO9660 path left the UDF name behind.

This witness writes a UDF bridge image with a file of 5 GiB and reads the UDF
side with a small reader of its own (anchor at sector 256 -> volume descriptor
sequence -> file set -> root directory -> file entry -> allocation
descriptors), without pycdlib.

Usage: W2_udf_big_file_extents.py <path-to-checkout>
No real data is used: the source is a synthetic file of zeros with a few
markers, the image is written to an in-memory sparse file.
"""
import struct
import sys

sys.path.insert(0, sys.argv[1])

import pycdlib  # noqa: E402

GIB = 1 << 30
PART = 0xfffff800  # the most that pycdlib stores in one directory record
LENGTH = 5 * GIB
BLOCKSIZE = 1 << 24
MARKERS = {
    0: b'HEAD-OF-FILE',
    PART - 8: b'end-of-1start-of-2',
    LENGTH - 12: b'TAIL-OF-FILE',
}

_ZEROS = {}


def zeros(n):
    """A shared bytes object of n zero bytes (comparing it to itself is free)."""
    if n not in _ZEROS:
        if len(_ZEROS) > 8:
            _ZEROS.clear()
        _ZEROS[n] = bytes(n)
    return _ZEROS[n]


class Synth(object):
    """A read-only seekable file of zeros with a few marker strings in it."""
    mode = 'rb'

    def __init__(self, length, markers):
        self.length = length
        self.markers = markers
        self.pos = 0

    def seek(self, off, whence=0):
        if whence == 0:
            self.pos = off
        elif whence == 1:
            self.pos += off
        else:
            self.pos = self.length + off
        return self.pos

    def tell(self):
        return self.pos

    def read(self, n=-1):
        if n is None or n < 0:
            n = self.length - self.pos
        n = max(0, min(n, self.length - self.pos))
        start = self.pos
        self.pos += n
        hits = [(off, m) for off, m in self.markers.items()
                if off < start + n and off + len(m) > start]
        if not hits:
            return zeros(n)
        buf = bytearray(n)
        for off, m in hits:
            lo = max(off, start)
            hi = min(off + len(m), start + n)
            buf[lo - start:hi - start] = m[lo - off:hi - off]
        return bytes(buf)


class Sparse(object):
    """A read/write seekable file that stores only blocks that are not zero."""
    mode = 'r+b'
    BS = 2048

    def __init__(self):
        self.blocks = {}
        self.size = 0
        self.pos = 0

    def seek(self, off, whence=0):
        if whence == 0:
            self.pos = off
        elif whence == 1:
            self.pos += off
        else:
            self.pos = self.size + off
        return self.pos

    def tell(self):
        return self.pos

    def _put(self, b, off, piece):
        blk = bytearray(self.blocks.get(b, bytes(self.BS)))
        blk[off - b * self.BS:off - b * self.BS + len(piece)] = piece
        if any(blk):
            self.blocks[b] = bytes(blk)
        else:
            self.blocks.pop(b, None)

    def write(self, data):
        n = len(data)
        start = self.pos
        self.pos += n
        self.size = max(self.size, self.pos)
        if data == zeros(n):
            for b in [b for b in self.blocks
                      if start // self.BS <= b <= (start + n) // self.BS]:
                lo = max(start, b * self.BS)
                hi = min(start + n, (b + 1) * self.BS)
                if lo < hi:
                    self._put(b, lo, bytes(hi - lo))
            return n
        off = start
        while off < start + n:
            b = off // self.BS
            end = min(start + n, (b + 1) * self.BS)
            self._put(b, off, data[off - start:end - start])
            off = end
        return n

    def read(self, n=-1):
        if n is None or n < 0:
            n = self.size - self.pos
        n = max(0, min(n, self.size - self.pos))
        start = self.pos
        self.pos += n
        first = start // self.BS
        last = (start + n + self.BS - 1) // self.BS
        if last - first > len(self.blocks):
            hit = [b for b in self.blocks if first <= b < last]
        else:
            hit = [b for b in range(first, last) if b in self.blocks]
        if not hit:
            return zeros(n)
        buf = bytearray(n)
        for b in hit:
            lo = max(start, b * self.BS)
            hi = min(start + n, (b + 1) * self.BS)
            buf[lo - start:hi - start] = self.blocks[b][lo - b * self.BS:hi - b * self.BS]
        return bytes(buf)


class UDFReader(object):
    """Just enough of ECMA-167 to find a file in the root directory."""
    def __init__(self, img):
        self.img = img
        self.problems = []
        anchor = self.block(256, 2)
        vds_len, vds_loc = struct.unpack_from('<LL', anchor, 16)
        self.part_start = self.part_len = None
        fsd_lbn = None
        for i in range(vds_len // 2048):
            blk = self.raw(vds_loc + i)
            ident, = struct.unpack_from('<H', blk, 0)
            if ident == 5:
                self.part_start, self.part_len = struct.unpack_from('<LL', blk, 188)
            elif ident == 6:
                fsd_lbn, = struct.unpack_from('<L', blk, 248 + 4)
            elif ident == 8:
                break
        fsd = self.block(self.part_start + fsd_lbn, 256)
        root_lbn, = struct.unpack_from('<L', fsd, 400 + 4)
        self.root = self.file_entry(root_lbn)

    def raw(self, sector):
        self.img.seek(sector * 2048)
        return self.img.read(2048)

    def block(self, sector, ident):
        blk = self.raw(sector)
        got, = struct.unpack_from('<H', blk, 0)
        if got != ident:
            raise Exception('expected descriptor %d at sector %d, found %d' % (ident, sector, got))
        if sum(bytearray(blk[0:4] + blk[5:16])) % 256 != bytearray(blk)[4]:
            self.problems.append('bad tag checksum at sector %d' % (sector))
        return blk

    def file_entry(self, lbn):
        blk = self.block(self.part_start + lbn, 261)
        info_len, = struct.unpack_from('<Q', blk, 56)
        l_ea, l_ad = struct.unpack_from('<LL', blk, 168)
        ad_type = struct.unpack_from('<H', blk, 16 + 18)[0] & 7
        if ad_type != 0:
            raise Exception('only short allocation descriptors are expected here')
        ads = []
        for i in range(l_ad // 8):
            length, pos = struct.unpack_from('<LL', blk, 176 + l_ea + 8 * i)
            ads.append((length & 0x3fffffff, pos))
        return {'info_len': info_len, 'ads': ads, 'type': bytearray(blk)[16 + 11]}

    def read(self, fe, offset, size):
        """Read bytes of the file through its allocation descriptors."""
        out = b''
        pos = 0
        for length, lbn in fe['ads']:
            if size > 0 and offset < pos + length:
                n = min(size, pos + length - offset)
                self.img.seek((self.part_start + lbn) * 2048 + offset - pos)
                out += self.img.read(n)
                offset += n
                size -= n
            pos += length
        return out

    def lookup(self, name):
        data = self.read(self.root, 0, self.root['info_len'])
        off = 0
        while off + 38 <= len(data):
            ident, = struct.unpack_from('<H', data, off)
            if ident != 257:
                raise Exception('expected a File Identifier Descriptor in the root directory')
            l_fi = bytearray(data)[off + 19]
            lbn, = struct.unpack_from('<L', data, off + 20 + 4)
            l_iu, = struct.unpack_from('<H', data, off + 36)
            fi = data[off + 38 + l_iu:off + 38 + l_iu + l_fi]
            if fi[1:] == name:
                return self.file_entry(lbn)
            off += (38 + l_iu + l_fi + 3) // 4 * 4
        return None


def check_image(what, img, problems):
    try:
        rd = UDFReader(img)
        fe = rd.lookup(b'big')
        if fe is None:
            problems.append('%s: no entry "big" in the UDF root directory' % (what))
            return
    except Exception as e:  # pylint: disable=broad-except
        problems.append('%s: cannot follow the UDF structures: %s' % (what, e))
        return
    problems.extend('%s: %s' % (what, p) for p in rd.problems)
    if fe['info_len'] != LENGTH:
        problems.append('%s: information length is %d, expected %d' % (what, fe['info_len'], LENGTH))
    if sum(a[0] for a in fe['ads']) != LENGTH:
        problems.append('%s: the allocation descriptors cover %d bytes, expected %d' % (what, sum(a[0] for a in fe['ads']), LENGTH))
    for length, lbn in fe['ads']:
        if lbn + (length + 2047) // 2048 > rd.part_len:
            problems.append('%s: extent at block %d (+%d bytes) is outside the partition of %d blocks'
                            % (what, lbn, length, rd.part_len))
        if (rd.part_start + lbn) * 2048 + length > img.size:
            problems.append('%s: extent at sector %d (+%d bytes) is beyond the end of the image (%d sectors)'
                            % (what, rd.part_start + lbn, length, img.size // 2048))
    for off, m in sorted(MARKERS.items()):
        got = rd.read(fe, off, len(m))
        if got != m:
            problems.append('%s: file offset %d holds %r, expected %r' % (what, off, got, m))


def udf_names(iso):
    return [c.file_identifier() for c in iso.list_children(udf_path='/') if c is not None]


def main():
    problems = []

    iso = pycdlib.PyCdlib()
    iso.new(interchange_level=3, udf='2.60')
    iso.add_fp(Synth(LENGTH, MARKERS), LENGTH, '/BIG.;1', udf_path='/big')
    img = Sparse()
    iso.write_fp(img, blocksize=BLOCKSIZE)
    check_image('written image', img, problems)

    # rm_file removes the file from all contexts.
    iso.rm_file(iso_path='/BIG.;1')
    if b'big' in udf_names(iso):
        problems.append('new image: after rm_file(iso_path=...) the UDF name is still there')
    iso.close()

    # The same one generation later.
    iso2 = pycdlib.PyCdlib()
    iso2.open_fp(img)
    iso2.add_fp(Synth(5, {0: b'hello'}), 5, '/A.;1', udf_path='/a')
    img2 = Sparse()
    iso2.write_fp(img2, blocksize=BLOCKSIZE)
    check_image('second generation', img2, problems)
    iso2.rm_file(iso_path='/BIG.;1')
    if b'big' in udf_names(iso2):
        problems.append('reopened image: after rm_file(iso_path=...) the UDF name is still there')
    iso2.close()

    if problems:
        print('DEFECT: the UDF entry of a 5 GiB file does not describe the file')
        for p in problems:
            print('  ' + p)
        return 1
    print('OK')
    return 0


if __name__ == '__main__':
    sys.exit(main())
