#!/usr/bin/env python
"""
Observation E: a directory of an opened image holds a regular file and an
associated file (file flag bit 2) of the same identifier.  Adding another
regular entry of that identifier must be refused with PyCdlibInvalidInput,
whichever of the two records comes first on the disc.

usage: W5_associated_duplicate.py <path-to-checkout>
"""
import io
import struct
import sys

sys.path.insert(0, sys.argv[1])

import pycdlib  # noqa: E402
from pycdlib import pycdlibexception  # noqa: E402


def make_image(names, assoc_index, ident):
    """
    Make an image whose root holds the files 'names' (same length, sorted);
    then rename all of them to 'ident' and set the associated bit on the
    one at 'assoc_index'.
    """
    iso = pycdlib.PyCdlib()
    iso.new()
    for i, name in enumerate(names):
        iso.add_fp(io.BytesIO(b'data%d\n' % i), 6, '/' + name)
    out = io.BytesIO()
    iso.write_fp(out)
    iso.close()
    img = bytearray(out.getvalue())
    for i, name in enumerate(names):
        bname = name.encode()
        pos = img.find(bname, 18 * 2048)
        assert pos > 0 and img.find(bname, pos + 1) < 0, name
        assert img[pos - 1] == len(bname)
        img[pos:pos + len(bname)] = ident.encode()
        if i == assoc_index:
            img[pos - 8] |= 4
    return bytes(img)


def root_records(img):
    """
    Read the records of the root directory straight from the image bytes:
    a list of (identifier, flags), without dot and dotdot.
    """
    img = bytes(img)
    (extent, ) = struct.unpack_from('<L', img, 16 * 2048 + 156 + 2)
    (length, ) = struct.unpack_from('<L', img, 16 * 2048 + 156 + 10)
    data = img[extent * 2048:extent * 2048 + length]
    recs = []
    pos = 0
    while pos < len(data):
        reclen = data[pos]
        if reclen == 0:
            pos = (pos // 2048 + 1) * 2048
            continue
        identlen = data[pos + 32]
        recs.append((data[pos + 33:pos + 33 + identlen], data[pos + 25]))
        pos += reclen
    return recs[2:]


def main():
    problems = []

    cases = []
    for order, assoc_index in (('regular record first, associated second', 1),
                               ('associated record first, regular second', 0)):
        for ident, names in (('FOO.;1', ['FOO.;1', 'FOP.;1']), ('FOO', ['FOO', 'FOP'])):
            cases.append((order, assoc_index, ident, names))

    for order, assoc_index, ident, names in cases:
        img = make_image(names, assoc_index, ident)
        want = [(ident.encode(), 4 if i == assoc_index else 0) for i in (0, 1)]
        if root_records(img) != want:
            problems.append('witness: patched image holds %r' % (root_records(img),))
        edits = [('add_fp', lambda iso, p: iso.add_fp(io.BytesIO(b'new\n'), 4, p)),
                 ('add_hard_link', lambda iso, p: iso.add_hard_link(iso_old_path='/KEEP.;1', iso_new_path=p))]
        if ';' not in ident:
            edits.append(('add_directory', lambda iso, p: iso.add_directory(p)))
        for what, edit in edits:
            iso = pycdlib.PyCdlib()
            iso.open_fp(io.BytesIO(img))
            iso.add_fp(io.BytesIO(b'keep\n'), 5, '/KEEP.;1')
            try:
                edit(iso, '/' + ident)
            except pycdlibexception.PyCdlibInvalidInput:
                iso.close()
                continue
            except Exception as e:  # pylint: disable=broad-except
                problems.append('%s: %s(%r) raised %s: %s' % (order, what, '/' + ident, type(e).__name__, e))
                iso.close()
                continue
            out = io.BytesIO()
            iso.write_fp(out)
            iso.close()
            problems.append('%s: %s(%r) was accepted; the root of the written image holds %r' % (
                order, what, '/' + ident, root_records(out.getvalue())))

    # An associated file on its own does not take the name of the regular file.
    img = make_image(['FOO.;1'], 0, 'FOO.;1')
    if root_records(img) != [(b'FOO.;1', 4)]:
        problems.append('witness: patched image holds %r' % (root_records(img),))
    iso = pycdlib.PyCdlib()
    iso.open_fp(io.BytesIO(img))
    try:
        iso.add_fp(io.BytesIO(b'new\n'), 4, '/FOO.;1')
        out = io.BytesIO()
        iso.write_fp(out)
        recs = sorted(root_records(out.getvalue()))
        if recs != [(b'FOO.;1', 0), (b'FOO.;1', 4)]:
            problems.append('regular file next to a lone associated file: written image holds %r' % (recs,))
        # ... but only once.
        try:
            iso.add_fp(io.BytesIO(b'new\n'), 4, '/FOO.;1')
            problems.append('second regular file next to an associated file was accepted')
        except pycdlibexception.PyCdlibInvalidInput:
            pass
    except Exception as e:  # pylint: disable=broad-except
        problems.append('regular file next to a lone associated file: %s: %s' % (type(e).__name__, e))
    iso.close()

    if problems:
        print('\n'.join(problems))
        return 1
    print('OK')
    return 0


if __name__ == '__main__':
    sys.exit(main())
