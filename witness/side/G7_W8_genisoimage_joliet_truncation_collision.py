"""
pycdlib-genisoimage -J cuts Joliet names to 64 characters without looking at
what is already there: two source names that agree in their first 64
characters make the tool abort with 'Failed adding duplicate name to parent'
instead of numbering one of them (as it does for ISO9660 names).  Not fixed.
"""
import os
import shutil
import subprocess
import sys
import tempfile

checkout = os.path.abspath(sys.argv[1])
sys.path.insert(0, checkout)
import pycdlib  # noqa: E402


def main():
    tmpdir = tempfile.mkdtemp()
    problems = []
    try:
        src = os.path.join(tmpdir, 'src')
        os.mkdir(src)
        for suffix in ('-one.txt', '-two.txt'):
            with open(os.path.join(src, 'a' * 64 + suffix), 'wb') as outfp:
                outfp.write(suffix.encode('ascii'))
        isoname = os.path.join(tmpdir, 'out.iso')
        tool = os.path.join(checkout, 'tools', 'pycdlib-genisoimage')
        proc = subprocess.run([sys.executable, tool, '-quiet', '-J', '-o', isoname, src],
                              env=dict(os.environ, PYTHONPATH=checkout),
                              stdout=subprocess.PIPE, stderr=subprocess.PIPE,
                              universal_newlines=True)
        if proc.returncode != 0:
            lines = proc.stderr.strip().splitlines() or ['(no stderr)']
            problems.append('genisoimage -J exited with %d: %s' % (proc.returncode, lines[-1]))
        else:
            iso = pycdlib.PyCdlib()
            iso.open(isoname)
            try:
                names = [c.file_identifier() for c in iso.list_children(joliet_path='/')
                         if not c.is_dot() and not c.is_dotdot()]
            finally:
                iso.close()
            if len(names) != 2 or len(set(names)) != 2:
                problems.append('expected two distinct Joliet names, got %r' % (names))
    finally:
        shutil.rmtree(tmpdir, ignore_errors=True)

    if problems:
        for problem in problems:
            print(problem)
        return 1
    print('OK')
    return 0


if __name__ == '__main__':
    sys.exit(main())
