"""
Parsing a directory is quadratic in the number of records when they are stored
in descending name order: DirectoryRecord._add_child() recalculates the extents
and offsets of all following siblings for every record it inserts.  The same
directory with the records in ascending order is parsed in linear time.
"""
import io
import sys
import time

sys.path.insert(0, sys.argv[1])
import pycdlib  # noqa: E402

NUM_FILES = 6000
MAX_RATIO = 4.0


def build():
    iso = pycdlib.PyCdlib()
    iso.new(interchange_level=3)
    iso.add_directory('/D')
    for i in range(NUM_FILES):
        iso.add_fp(io.BytesIO(b''), 0, '/D/F%07d.;1' % (i))
    out = io.BytesIO()
    iso.write_fp(out)
    rec = iso.get_record(iso_path='/D')
    extent = rec.extent_location()
    length = rec.get_data_length()
    iso.close()
    return out.getvalue(), extent, length


def reverse_records(img, extent, length):
    """Store the records of the directory (all of equal length) in reverse order."""
    img = bytearray(img)
    start = extent * 2048
    slots = []
    off = 0
    while off < length:
        reclen = img[start + off]
        if reclen == 0:
            # Rest of this sector is padding.
            off = (off // 2048 + 1) * 2048
            continue
        slots.append((off, reclen))
        off += reclen
    slots = slots[2:]  # leave dot and dotdot alone
    if len(slots) != NUM_FILES or len(set(s[1] for s in slots)) != 1:
        raise Exception('witness is broken: unexpected directory layout')
    records = [bytes(img[start + o:start + o + l]) for o, l in slots]
    for (o, l), rec in zip(slots, reversed(records)):
        img[start + o:start + o + l] = rec
    return bytes(img)


def time_open(img):
    best = None
    for _ in range(2):
        start = time.time()
        iso = pycdlib.PyCdlib()
        iso.open_fp(io.BytesIO(img))
        elapsed = time.time() - start
        nchildren = len(list(iso.list_children(iso_path='/D')))
        iso.close()
        if nchildren != NUM_FILES + 2:
            raise Exception('witness is broken: %d children' % (nchildren))
        best = elapsed if best is None else min(best, elapsed)
    return best


def main():
    ascending, extent, length = build()
    descending = reverse_records(ascending, extent, length)
    t_asc = time_open(ascending)
    t_desc = time_open(descending)
    if t_desc > MAX_RATIO * t_asc:
        print('opening a directory of %d records takes %.2f s in ascending but %.2f s in descending order (%.1fx)'
              % (NUM_FILES, t_asc, t_desc, t_desc / t_asc))
        return 1
    print('OK')
    return 0


if __name__ == '__main__':
    sys.exit(main())
