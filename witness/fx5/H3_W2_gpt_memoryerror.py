"""
Witness B: open() of an isohybrid/EFI image whose backup GPT header is damaged
must end in a documented pycdlib exception (or succeed) and must not try to
allocate memory out of proportion to the image.

The backup GPT header (last 512 bytes of the image) gets num_parts and
current_lba values such that current_lba * 512 - num_parts * 128 is still an
offset inside of the image, while num_parts * 128 is far larger than it.

Usage: python W2_gpt_memoryerror.py <path-to-checkout>
"""
import io
import os
import shutil
import struct
import sys
import tempfile

try:
    import resource
except ImportError:  # not on this platform
    resource = None  # type: ignore

sys.path.insert(0, sys.argv[1])

import pycdlib  # noqa: E402
from pycdlib import pycdlibexception  # noqa: E402

DOCUMENTED = (pycdlibexception.PyCdlibInvalidISO,
              pycdlibexception.PyCdlibInvalidInput,
              pycdlibexception.PyCdlibInternalError)


def build():
    iso = pycdlib.PyCdlib()
    iso.new()
    isolinuxstr = b'\x00' * 0x40 + b'\xfb\xc0\x78\x70'
    iso.add_fp(io.BytesIO(isolinuxstr), len(isolinuxstr), '/ISOLINUX.BIN;1')
    efibootstr = b'a'
    iso.add_fp(io.BytesIO(efibootstr), len(efibootstr), '/EFIBOOT.IMG;1')
    iso.add_eltorito('/ISOLINUX.BIN;1', '/BOOT.CAT;1', boot_load_size=4, boot_info_table=True)
    iso.add_eltorito('/EFIBOOT.IMG;1', efi=True)
    iso.add_isohybrid(efi=True)
    out = io.BytesIO()
    iso.write_fp(out)
    iso.close()
    return out.getvalue()


def main():
    problems = []
    good = build()
    hdr = len(good) - 512
    if good[hdr:hdr + 8] != b'EFI PART':
        print('could not find the backup GPT header in the image that was built')
        return 1

    if resource is not None:
        # Make an out-of-proportion allocation fail for sure instead of
        # pushing the machine into swap: 1 GiB of address space is several
        # hundred times what opening this 1 MiB image takes.
        limit = 1024 * 1024 * 1024
        soft, hard = resource.getrlimit(resource.RLIMIT_AS)
        if hard != resource.RLIM_INFINITY:
            limit = min(limit, hard)
        resource.setrlimit(resource.RLIMIT_AS, (limit, hard))

    tmpdir = tempfile.mkdtemp(prefix='w2_')
    try:
        path = os.path.join(tmpdir, 'good.iso')
        with open(path, 'wb') as outfp:
            outfp.write(good)
        iso = pycdlib.PyCdlib()
        iso.open(path)
        if iso.isohybrid_mbr is None or not iso.isohybrid_mbr.efi:
            problems.append('undamaged image: not recognised as isohybrid with EFI')
        elif len(iso.isohybrid_mbr.secondary_gpt.parts) != len(iso.isohybrid_mbr.primary_gpt.parts) or not iso.isohybrid_mbr.secondary_gpt.parts:
            problems.append('undamaged image: backup GPT partitions not parsed')
        iso.close()

        # (num_parts, current_lba): the partition array "starts" at offset 0
        # or somewhere else inside of the image but is 256 GiB, 4 GiB, 2 GiB long
        for num_parts, current_lba in ((2**31, 2**29), (2**25, 2**23), (2**24, 2**22 + 8)):
            data = bytearray(good)
            struct.pack_into('<Q', data, hdr + 24, current_lba)
            struct.pack_into('<L', data, hdr + 80, num_parts)
            path = os.path.join(tmpdir, 'bad.iso')
            with open(path, 'wb') as outfp:
                outfp.write(data)
            label = 'num_parts=2**%d current_lba=%d' % (num_parts.bit_length() - 1, current_lba)
            iso = pycdlib.PyCdlib()
            try:
                iso.open(path)
            except DOCUMENTED:
                pass
            except BaseException as e:  # pylint: disable=broad-except
                problems.append('%s (image of %d bytes): undocumented %s escaped from open(): %s' % (label, len(data), type(e).__name__, e))
            else:
                iso.close()
    finally:
        shutil.rmtree(tmpdir)

    if problems:
        for p in problems:
            print(p)
        return 1
    print('OK')
    return 0


if __name__ == '__main__':
    sys.exit(main())
