"""Effect extraction: which (class, attribute) does a function write, how, and where.

kinds: 'assign' (x.a = v), 'aug' (x.a += v), 'mutate' (x.a.append(...), x.a[i] = v, del x.a[i],
bisect.insort(x.a, ...)), 'del' (del x.a)
"""
import ast

from .model import type_classes, norm
from . import cfg as cfgmod

MUTATORS = {'append', 'appendleft', 'extend', 'insert', 'pop', 'popleft', 'remove', 'sort',
            'clear', 'reverse', 'add', 'discard', 'update', 'setdefault'}
INSORTS = {'insort', 'insort_left', 'insort_right'}


class Write:
    __slots__ = ('fi', 'classes', 'attr', 'kind', 'node', 'recv', 'stmt', 'value', 'method')

    def __init__(self, fi, classes, attr, kind, node, recv, stmt, value=None, method=None):
        self.fi, self.classes, self.attr, self.kind = fi, classes, attr, kind
        self.node, self.recv, self.stmt, self.value, self.method = node, recv, stmt, value, method

    def __repr__(self):
        return '<W %s %s.%s %s>' % (self.fi.qual, '/'.join(self.classes) or '?', self.attr, self.kind)


def _recv_classes(ctx, fi, recv):
    t = ctx.t.expr_type(recv, fi)
    return tuple(type_classes(t))


def _attr_target(ctx, fi, t):
    """t is an Attribute expression x.a -> (classes of x, 'a', x)"""
    return _recv_classes(ctx, fi, t.value), t.attr, t.value


def direct_writes(ctx, fi):
    cache = getattr(ctx, '_dw', None)
    if cache is None:
        cache = ctx._dw = {}
    if fi.qual in cache:
        return cache[fi.qual]
    out = []

    def add_target(t, kind, stmt, value=None):
        if isinstance(t, ast.Attribute):
            cl, a, r = _attr_target(ctx, fi, t)
            out.append(Write(fi, cl, a, kind, t, r, stmt, value))
        elif isinstance(t, ast.Subscript):
            base = t.value
            if isinstance(base, ast.Attribute):
                cl, a, r = _attr_target(ctx, fi, base)
                out.append(Write(fi, cl, a, 'mutate', t, r, stmt, value, 'setitem'))
            elif isinstance(base, ast.Subscript) and isinstance(base.value, ast.Attribute):
                cl, a, r = _attr_target(ctx, fi, base.value)
                out.append(Write(fi, cl, a, 'mutate', t, r, stmt, value, 'setitem'))
        elif isinstance(t, (ast.Tuple, ast.List)):
            for e in t.elts:
                add_target(e, kind, stmt, None)
        elif isinstance(t, ast.Starred):
            add_target(t.value, kind, stmt, None)

    for n in ctx.own_nodes(fi):
        if isinstance(n, ast.Assign):
            for t in n.targets:
                add_target(t, 'assign', n, n.value)
        elif isinstance(n, ast.AugAssign):
            add_target(n.target, 'aug', n, n.value)
        elif isinstance(n, ast.AnnAssign) and n.value is not None:
            add_target(n.target, 'assign', n, n.value)
        elif isinstance(n, ast.Delete):
            for t in n.targets:
                if isinstance(t, ast.Attribute):
                    cl, a, r = _attr_target(ctx, fi, t)
                    out.append(Write(fi, cl, a, 'del', t, r, n))
                else:
                    add_target(t, 'mutate', n)
        elif isinstance(n, (ast.For, ast.comprehension)):
            add_target(n.target, 'assign', n)
        elif isinstance(n, ast.With):
            for it in n.items:
                if it.optional_vars is not None:
                    add_target(it.optional_vars, 'assign', n)
        elif isinstance(n, ast.Call):
            f = n.func
            if isinstance(f, ast.Attribute) and f.attr in MUTATORS and isinstance(f.value, ast.Attribute):
                # x.a.append(...)
                bt = ctx.t.expr_type(f.value, fi)
                if bt is not None and bt[0] in ('list', 'deque', 'set', 'dict', 'any', 'opt', 'union'):
                    cl, a, r = _attr_target(ctx, fi, f.value)
                    if cl:
                        out.append(Write(fi, cl, a, 'mutate', n, r, ctx.enclosing_stmt(fi, n), None, f.attr))
            elif isinstance(f, ast.Attribute) and f.attr in INSORTS and isinstance(f.value, ast.Name) \
                    and f.value.id == 'bisect' and n.args and isinstance(n.args[0], ast.Attribute):
                cl, a, r = _attr_target(ctx, fi, n.args[0])
                out.append(Write(fi, cl, a, 'mutate', n, r, ctx.enclosing_stmt(fi, n), None, f.attr))
            elif isinstance(f, ast.Name) and f.id == 'setattr' and len(n.args) == 3:
                cl = _recv_classes(ctx, fi, n.args[0])
                nm = n.args[1].value if isinstance(n.args[1], ast.Constant) else '<dynamic>'
                out.append(Write(fi, cl, nm, 'assign', n, n.args[0], ctx.enclosing_stmt(fi, n), n.args[2]))
    cache[fi.qual] = out
    return out


def writers_of(ctx, cqual, attr, kinds=None):
    """All direct writes of (class, attr) anywhere in the analysed program."""
    res = []
    for fi in ctx.m.functions.values():
        for w in direct_writes(ctx, fi):
            if w.attr == attr and (cqual in w.classes or (not w.classes and _unknown_recv_may_be(ctx, w, cqual))):
                if kinds is None or w.kind in kinds:
                    res.append(w)
    return res


def _unknown_recv_may_be(ctx, w, cqual):
    # receiver of unknown type: only if the attribute name is a slot of cqual and of no other class
    ci = ctx.m.classes.get(cqual)
    if ci is None or not ci.slots or w.attr not in ci.slots:
        return False
    others = [c for c in ctx.m.classes.values() if c is not ci and c.slots and w.attr in c.slots]
    return not others


def calls_to(ctx, qual):
    """[(caller FuncInfo, Call)] for all resolved calls of function `qual`."""
    return ctx.callers().get(qual, [])


def method_calls_named(ctx, name, on_class=None):
    """All call sites x.<name>(...) (resolved to on_class.<name> if given)."""
    out = []
    for fi in ctx.m.functions.values():
        for c in ctx.calls(fi):
            if c.name != name:
                continue
            if on_class is None:
                out.append((fi, c))
            elif any(cal.cls is not None and cal.cls.qual == on_class for cal in c.callees):
                out.append((fi, c))
    return out
