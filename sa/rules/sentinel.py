"""SA-SENTINEL: a `x is (not) None` test that the callee's contract contradicts.

At a comparison with None, if every definition of `x` reaching the test (reaching
definitions on the CFG) is `x = f(...)` with `f` resolved to package functions
whose declared return type is not Optional and none of whose `return` statements
can yield None, the test states a belief ("f signals failure with None") that f
contradicts (Engler's contradiction rule).  Direct `f(...) is None` is the same.
The pycdlib instance: the Rock Ridge continuation-block allocator signals
"no room" with -1 while its caller tests `is not None`.
"""
import ast

from ..registry import rule, props
from ..report import Ob
from ..model import NONE, norm
from .. import cfg as cfgmod


def _may_return_none(ctx, fi, depth=0):
    rt = fi.rtype
    if rt is None:
        return True
    if rt == NONE or rt[0] in ('opt', 'any'):
        return True
    if rt[0] == 'union' and (NONE in rt[1] or ('any',) in rt[1]):
        return True
    for n in ctx.own_nodes(fi):
        if isinstance(n, ast.Return):
            if n.value is None:
                return True
            if isinstance(n.value, ast.Constant) and n.value.value is None:
                return True
    return False


def _call_never_none(ctx, fi, call):
    callees, kind = ctx.t._resolve(call, fi)
    if kind == 'ctor':
        return True, [callees]
    if kind not in ('func', 'method') or not callees:
        return False, []
    if all(not _may_return_none(ctx, c) for c in callees):
        return True, [c.qual for c in callees]
    return False, []


def _none_tests(expr):
    """(compare node, tested expr) for `e is None` / `e is not None` inside expr."""
    for sub in ast.walk(expr):
        if isinstance(sub, ast.Compare) and len(sub.ops) == 1 and isinstance(sub.ops[0], (ast.Is, ast.IsNot)) \
                and isinstance(sub.comparators[0], ast.Constant) and sub.comparators[0].value is None:
            yield sub, sub.left


@rule('SA-SENTINEL')
@props('C01', 'C04', 'C08')
def check(ctx):
    obs = []
    for fi in ctx.m.pkg_functions():
        g = ctx.cfg(fi)
        rd = None
        for n in g.nodes:
            for e in cfgmod.node_exprs(n):
                for cmp_, tested in _none_tests(e):
                    if isinstance(tested, ast.Call):
                        never, who = _call_never_none(ctx, fi, tested)
                        if never:
                            key = '%s|%s' % (fi.qual, norm(cmp_))
                            obs.append(Ob('SA-SENTINEL', key, False, ctx.loc(fi, cmp_),
                                          'tests the result of %s against None, but that function is declared %s and never returns None'
                                          % (', '.join(who), 'non-Optional')))
                        else:
                            obs.append(Ob('SA-SENTINEL', '%s|%s' % (fi.qual, norm(cmp_)), True, ctx.loc(fi, cmp_)))
                        continue
                    if not isinstance(tested, ast.Name):
                        continue
                    if rd is None:
                        rd = cfgmod.reaching_defs(g, [p.lstrip('*') for p in fi.params])
                    IN = rd[n.id]
                    if IN is None:
                        continue
                    defs = [g.nodes[d] for (nm, d) in IN if nm == tested.id]
                    if not defs:
                        continue
                    allnever = True
                    who = []
                    for d in defs:
                        st = d.ast
                        if d.kind == 'stmt' and isinstance(st, ast.Assign) and len(st.targets) == 1 and \
                                isinstance(st.targets[0], ast.Name) and isinstance(st.value, ast.Call):
                            never, w = _call_never_none(ctx, fi, st.value)
                            if never and not (len(w) == 1 and w[0] in ctx.m.classes):
                                who += w
                                continue
                            if never:
                                who += w
                                continue
                        allnever = False
                        break
                    key = '%s|%s' % (fi.qual, norm(cmp_))
                    if allnever:
                        obs.append(Ob('SA-SENTINEL', key, False, ctx.loc(fi, cmp_),
                                      'every definition of %r reaching this test is the result of %s, which never returns None'
                                      % (tested.id, ', '.join(sorted(set(who))))))
                    else:
                        obs.append(Ob('SA-SENTINEL', key, True, ctx.loc(fi, cmp_)))
    return obs
