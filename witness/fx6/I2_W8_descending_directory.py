#!/usr/bin/env python
"""
Observation H (1): a directory whose records are stored in descending order
of their names makes open() take time quadratic in the number of records.
The image is built from a new() image: a root directory of N zero-length
files F%07d.;1 in descending order is appended and the root record of the
PVD is pointed at it.  Opening four times as many records must take about four
times as long (sixteen times when quadratic); the limit used is eight times.

usage: W8_descending_directory.py <path-to-checkout>
"""
import io
import struct
import sys
import time

sys.path.insert(0, sys.argv[1])

import pycdlib

problems = []


def rec(name, extent, length, isdir):
    reclen = 33 + len(name)
    if len(name) % 2 == 0:
        reclen += 1
    ret = struct.pack('<BBL', reclen, 0, extent) + struct.pack('>L', extent) + \
        struct.pack('<L', length) + struct.pack('>L', length) + \
        b'\x70\x01\x01\x00\x00\x00\x00' + \
        struct.pack('<BBBH', 2 if isdir else 0, 0, 0, 1) + struct.pack('>H', 1) + \
        struct.pack('<B', len(name)) + name
    return ret.ljust(reclen, b'\x00')


def build(num, descending):
    iso = pycdlib.PyCdlib()
    iso.new()
    out = io.BytesIO()
    iso.write_fp(out)
    iso.close()
    img = bytearray(out.getvalue())
    dirext = len(img) // 2048
    names = [b'F%07d.;1' % (i) for i in range(1, num + 1)]
    if descending:
        names.reverse()
    filerecs = [rec(name, 0, 0, False) for name in names]

    def layout(dlen):
        ret = b''
        cur = b''
        for r in [rec(b'\x00', dirext, dlen, True), rec(b'\x01', dirext, dlen, True)] + filerecs:
            if len(cur) + len(r) > 2048:
                ret += cur.ljust(2048, b'\x00')
                cur = b''
            cur += r
        return ret + cur.ljust(2048, b'\x00')

    dlen = len(layout(0))
    img += layout(dlen)
    img[16 * 2048 + 156:16 * 2048 + 156 + 34] = rec(b'\x00', dirext, dlen, True)
    nblocks = len(img) // 2048
    struct.pack_into('<L', img, 16 * 2048 + 80, nblocks)
    struct.pack_into('>L', img, 16 * 2048 + 84, nblocks)
    return bytes(img)


def timed_open(img):
    best = None
    for attempt_unused in range(2):
        iso = pycdlib.PyCdlib()
        start = time.time()
        iso.open_fp(io.BytesIO(img))
        elapsed = time.time() - start
        iso.close()
        if best is None or elapsed < best:
            best = elapsed
    return best


SMALL = 3000
LARGE = 4 * SMALL
tsmall = timed_open(build(SMALL, True))
tlarge = timed_open(build(LARGE, True))
if tlarge > 8 * tsmall and tlarge > 0.5:
    problems.append('open() of %d descending records: %.2f s, of %d records: %.2f s (%.1f times as long for 4 times the records)' % (SMALL, tsmall, LARGE, tlarge, tlarge / tsmall))

# The result of the parse must not depend on the order of the records: the
# children are sorted, and the image that is written after an edit is the same.
results = []
for descending in (False, True):
    iso = pycdlib.PyCdlib()
    iso.open_fp(io.BytesIO(build(500, descending)))
    names = [c.file_identifier() for c in iso.list_children(iso_path='/')]
    if names != [b'.', b'..'] + [b'F%07d.;1' % (i) for i in range(1, 501)]:
        problems.append('descending=%s: children are not listed in order' % (descending))
    iso.add_fp(io.BytesIO(b'new'), 3, '/F00002_A.;1')
    iso.rm_file('/F0000400.;1')
    out = io.BytesIO()
    iso.write_fp(out)
    iso.close()
    results.append(out.getvalue())
    iso = pycdlib.PyCdlib()
    iso.open_fp(io.BytesIO(results[-1]))
    names = [c.file_identifier() for c in iso.list_children(iso_path='/')]
    if len(names) != 502 or b'F00002_A.;1' not in names or b'F0000400.;1' in names:
        problems.append('descending=%s: edited image is wrong' % (descending))
    got = io.BytesIO()
    iso.get_file_from_iso_fp(got, iso_path='/F00002_A.;1')
    if got.getvalue() != b'new':
        problems.append('descending=%s: file contents wrong after edit' % (descending))
    iso.close()
# Dates are taken from the clock; compare everything behind the descriptors.
if results[0][20 * 2048:] != results[1][20 * 2048:]:
    problems.append('the image written after an edit depends on the order the records were stored in')

if problems:
    print('\n'.join(problems))
    sys.exit(1)
print('OK')
