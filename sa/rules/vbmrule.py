"""SA-VBM validate-before-mutate (C14): for every public editing method of PyCdlib and every
PyCdlibInvalidInput raise that may escape it, no persistent write may precede the refusal on any
CFG path (interprocedural, see sa/vbm.py).  A finding is keyed by the lowest function in which the
mutation and the refusal are two separate statements, the refusing statement and the raise site
reached through it: (function | refusing statement | raise function: message); the first mutating
statement and the public methods that reach it are listed as detail.

SA-VBM.reset: new(), open() and open_fp() re-initialise the object before they write anything, so
a refused earlier attempt cannot contaminate the next one (that is how failure atomicity is
achieved for the three constructors, which have no previous image state to preserve)."""
import ast

from ..registry import rule, props
from ..report import Ob
from ..model import AnalysisError, norm
from .. import vbm
from .. import cfg as cfgmod

CONSTRUCTORS = ('new', 'open', 'open_fp')


def canon_text(ctx, qual, text):
    """Statement text made insensitive to the names of the function's locals and to module-level constants:
    locals/parameters become v0, v1, ... in order of appearance, a Name bound to a module-level str/int
    constant becomes the literal.  (Keys of findings survive renamings and `MSG = '...'` extractions.)"""
    fi = ctx.m.functions.get(qual)
    if fi is None:
        return text
    prefix = ''
    body = text
    for pre in ('if ', 'while ', 'with ', 'for '):
        if text.startswith(pre):
            prefix, body = pre, text[len(pre):]
    try:
        if prefix == 'for ':
            tree = ast.parse('for %s: pass' % body).body[0]
            tree = ast.Tuple(elts=[tree.target, tree.iter], ctx=ast.Load())
        else:
            tree = ast.parse(body).body[0]
    except SyntaxError:
        return text
    locs = set(p.lstrip('*') for p in fi.params)
    for n in ctx.own_nodes(fi):
        if isinstance(n, ast.Name) and isinstance(n.ctx, (ast.Store, ast.Del)):
            locs.add(n.id)
    locs.discard('self')
    mi = ctx.m.modules[fi.module]
    mapping = {}

    class T(ast.NodeTransformer):
        def visit_Name(self, n):
            if n.id in locs:
                if n.id not in mapping:
                    mapping[n.id] = 'v%d' % len(mapping)
                return ast.copy_location(ast.Name(id=mapping[n.id], ctx=n.ctx), n)
            c = mi.consts.get(n.id) if hasattr(mi, 'consts') and mi.consts else None
            if isinstance(c, ast.Constant) and isinstance(c.value, (str, int, bytes)):
                return ast.copy_location(ast.Constant(value=c.value), n)
            return n

        def visit_keyword(self, n):
            self.generic_visit(n)
            return n
    tree = T().visit(tree)
    ast.fix_missing_locations(tree)
    try:
        out = ast.unparse(tree)
    except Exception:
        return text
    if prefix == 'for ':
        return 'for ' + out
    return prefix + out


_SCALAR = (ast.Attribute, ast.Name, ast.Constant, ast.BinOp, ast.BoolOp, ast.Compare, ast.UnaryOp, ast.Subscript, ast.IfExp,
           ast.operator, ast.boolop, ast.cmpop, ast.unaryop, ast.expr_context, ast.Slice)


def _inline_temporaries(ctx, fi, stmt, raw):
    """Text of a simple statement with every local that is, at this statement, the result of exactly one plain
    `name = <expression without calls>` replaced by that expression: `x = a.b; f(x)` and `f(a.b)`, or
    `late = off > 0; g(k=late)` and `g(k=off > 0)`, get the same key, so a finding (and a reviewed entry) follows the
    statement through "introduce a temporary" / "inline a temporary"."""
    import copy
    from .. import expand as ex
    if not isinstance(stmt, (ast.Expr, ast.Assign, ast.AugAssign, ast.Return)) or getattr(stmt, 'value', None) is None:
        return raw
    try:
        g, RD = ex._rd(ctx, fi)
    except Exception:
        return raw
    changed = []

    def inline(expr, at, depth=0):
        node = g.node_of(at)
        if node is None or depth > 6:
            return expr
        bynm = {}
        for nm, d in (RD.get(node.id) or frozenset()):
            bynm.setdefault(nm, set()).add(d)

        class T(ast.NodeTransformer):
            def visit_Name(self, n):
                if not isinstance(n.ctx, ast.Load):
                    return n
                ds = bynm.get(n.id)
                if not ds or len(ds) != 1:
                    return n
                dn = g.nodes[next(iter(ds))]
                st = dn.stmt
                if dn.kind == 'stmt' and isinstance(st, ast.Assign) and len(st.targets) == 1 and isinstance(st.targets[0], ast.Name) and \
                        st.targets[0].id == n.id and st is not at and not isinstance(st.value, (ast.Name, ast.Constant)) and \
                        all(isinstance(x, _SCALAR) for x in ast.walk(st.value)):
                    changed.append(n.id)
                    return inline(copy.deepcopy(st.value), st, depth + 1)
                return n
        return T().visit(expr)
    new = copy.deepcopy(stmt)
    new.value = inline(new.value, stmt)
    if not changed:
        return raw
    try:
        return ast.unparse(ast.fix_missing_locations(new))[:240]
    except Exception:
        return raw


def canon_key(ctx, qual, text, lineno=0):
    """canon_text plus, when several statements of the function have the same canonical text (the ISO9660 / Joliet /
    UDF variants of one step differ only in the variable they act on), the ordinal of this one among them in source
    order: `v0 += self._add_child_to_dr(v1)#1`."""
    from ..model import stmt_head
    fi = ctx.m.functions.get(qual)
    if fi is None:
        return canon_text(ctx, qual, text)
    cache = getattr(ctx, '_canon_stmts', None)
    if cache is None:
        cache = ctx._canon_stmts = {}
    if qual not in cache:
        lst = []
        for n in ctx.own_nodes(fi):
            if isinstance(n, ast.stmt) and not isinstance(n, (ast.FunctionDef, ast.ClassDef)):
                raw = stmt_head(n)[:240]
                lst.append((n.lineno, n.col_offset, raw, canon_text(ctx, qual, _inline_temporaries(ctx, fi, n, raw))))
        lst.sort()
        cache[qual] = lst
    ct = None
    for (l, _c, raw, c) in cache[qual]:
        if raw == text and (not lineno or l == lineno):
            ct = c
            break
    if ct is None:
        ct = canon_text(ctx, qual, text)
    same = [(l, raw) for (l, _c, raw, c) in cache[qual] if c == ct]
    if len(same) > 1:
        # ordinal by position among the statements with this canonical text; the statement meant is the one at
        # `lineno` (or, when the line is unknown, the first one with exactly this text)
        for i, (l, raw) in enumerate(same):
            if lineno and l == lineno:
                return '%s#%d' % (ct, i) if i else ct
        for i, (l, raw) in enumerate(same):
            if raw == text:
                return '%s#%d' % (ct, i) if i else ct
    return ct


def public_mutators(ctx, engine):
    pc = ctx.cls('pycdlib.PyCdlib')
    out = []
    extra = ('set_hidden', 'clear_hidden', 'set_relocated_name', 'add_isohybrid', 'rm_isohybrid',
             'modify_file_in_place', 'duplicate_pvd')
    for name, fi in sorted(pc.methods.items()):
        if name.startswith('_') or name in CONSTRUCTORS:
            continue
        reach = ctx.reachable_from([fi], include_candidates=False)
        is_edit = 'pycdlib.PyCdlib._finish_add' in reach or 'pycdlib.PyCdlib._finish_remove' in reach or name in extra
        if name in ('write', 'write_fp', 'close', 'force_consistency') or not is_edit:
            continue
        out.append(fi)
    return out


def run_engine(ctx):
    e = getattr(ctx, '_vbm_engine', None)
    if e is None:
        e = vbm.VBM(ctx)
        e.analyse(list(ctx.m.pkg_functions()))
        ctx._vbm_engine = e
    return e


def _prevalidated_table():
    """tables/vbm_prevalidated.json: statements whose refusals are made unreachable-after-mutation by an up-front
    resolution of the same destination in the same function.  The engine is context-insensitive over the callee's
    keyword arguments and cannot see that itself; an entry is honoured only while the named validation calls are
    still there and still precede the first change (checked below on every run), and SA-VBM.prevalidate decides
    that they run under the conditions of the later use."""
    from ..report import load_json
    out = {}
    for ent in load_json('tables/vbm_prevalidated.json', {'prevalidated': []})['prevalidated']:
        out['%s|%s' % (ent['function'], ent['statement'])] = ent
    return out


def _rolled_back(ctx, f, t):
    """t sits in the body of a try whose (catch-all) handler ends with a bare `raise` after assigning to object state"""
    par = ctx.parents(f)
    cur = t
    while cur is not None and cur is not f.node:
        p = par.get(id(cur))
        if isinstance(p, ast.Try) and any(x is cur for x in p.body):
            for h in p.handlers:
                if h.body and isinstance(h.body[-1], ast.Raise) and h.body[-1].exc is None and \
                        (h.type is None or norm(h.type) in ('Exception', 'BaseException')) and \
                        any(isinstance(x, ast.Assign) and any(isinstance(tt, ast.Attribute) for tt in x.targets) for x in h.body):
                    return True
        cur = p
    return False


def _prevalidation_before_first_change_missing(ctx, f, names, firsts):
    """the validation calls exist in f and dominate every statement that the engine names as the first change on a path to
    the refusing statement (a first change that is itself one of the validation calls - the engine over-approximates
    what a call on a throw-away record writes - needs nothing in front of it)"""
    g = ctx.cfg(f)
    dom = g.dominators()
    vstmts = []
    for n in ctx.own_nodes(f):
        if isinstance(n, ast.Call) and isinstance(n.func, ast.Attribute) and n.func.attr in names:
            st = ctx.enclosing_stmt(f, n)
            if g.node_of(st) is not None:
                vstmts.append(st)
    for name in names:
        if not any(isinstance(c, ast.Call) and isinstance(c.func, ast.Attribute) and c.func.attr == name for st in vstmts for c in ast.walk(st)):
            return 'no call of %s is left in %s' % (name, f.name)
    for first in sorted(firsts):
        if any(first.endswith('.' + nm) or first.endswith(' ' + nm) for nm in names):
            continue
        what = first[5:] if first.startswith('call ') else first
        cands = []
        for n in ctx.own_nodes(f):
            if isinstance(n, ast.stmt) and not isinstance(n, (ast.FunctionDef, ast.ClassDef)):
                for c in ast.walk(n):
                    if (isinstance(c, ast.Call) and norm(c.func) == what) or norm(n)[:len(what)] == what:
                        st = n
                        if g.node_of(st) is not None:
                            cands.append(st)
                        break
        if not cands:
            return 'the first change `%s` could not be located again' % first
        for st in cands:
            sn = g.node_of(st)
            if not any(g.node_of(v).id in dom.get(sn.id, ()) for v in vstmts):
                return 'the first change `%s` (line %d) is not preceded by a call of %s on every path' % (first, st.lineno, '/'.join(names))
    return None


def _prevalidation_in_callers_missing(ctx, engine, f, names):
    """the validation calls live in the callers of the helper f: in every function that calls f, each named validation
    call occurs in a statement that dominates (or structurally precedes) the call of f and comes before that caller's
    first change"""
    sites = ctx.callers().get(f.qual, [])
    if not sites:
        return 'the helper %s has no caller left' % f.name
    ranges = tuple(sorted(set(norm(l.iter) for l in ctx.own_nodes(f) if isinstance(l, ast.For))))
    for caller, c in sites:
        g = ctx.cfg(caller)
        dom = g.dominators()
        t = ctx.enclosing_stmt(caller, c.node)
        tn = g.node_of(t)
        late = set()
        for key, roots, origin in engine.summ.get(caller.qual, (None, ()))[1]:
            if roots and origin is not None and origin[0] == caller.qual:
                late.add(origin[3])
        for name in names:
            ok = False
            for n in ctx.own_nodes(caller):
                if isinstance(n, ast.Call) and ((isinstance(n.func, ast.Attribute) and n.func.attr == name) or (isinstance(n.func, ast.Name) and n.func.id == name)):
                    st = ctx.enclosing_stmt(caller, n)
                    sn = g.node_of(st)
                    if st is t or sn is None or tn is None or st.lineno in late:
                        continue
                    if sn.id in dom.get(tn.id, ()) or _runs_whenever(ctx, caller, st, t, ranges):
                        ok = True
            if not ok:
                return '%s calls %s (line %d) without a call of %s that precedes it on every path and comes before its first change' % (
                    caller.qual, f.name, c.node.lineno, name)
    return None


def _prevalidation_missing(ctx, engine, f, canon_stmt, names, rolled_back=False):
    """None if every named validation call occurs in a statement of f that dominates the refusing statement and is
    not itself preceded by a persistent write; otherwise a description of what is missing."""
    from ..model import stmt_head
    g = ctx.cfg(f)
    dom = g.dominators()
    targets = []
    for n in ctx.own_nodes(f):
        if isinstance(n, ast.stmt) and not isinstance(n, (ast.FunctionDef, ast.ClassDef)):
            if canon_key(ctx, f.qual, stmt_head(n)[:240], n.lineno) == canon_stmt:
                targets.append(n)
    if not targets:
        return 'the refusing statement could not be located again'
    if rolled_back:
        if not all(_rolled_back(ctx, f, t) for t in targets):
            return 'the statement is no longer inside a try whose handler undoes the change and re-raises'
        return None
    # statements of f that are origins of events with roots (= reached after a change)
    late = set()
    for key, roots, origin in engine.summ[f.qual][1]:
        if roots and origin is not None and origin[0] == f.qual:
            late.add(origin[3])
    for name in names:
        sites = []
        for n in ctx.own_nodes(f):
            if isinstance(n, ast.Call) and ((isinstance(n.func, ast.Attribute) and n.func.attr == name) or (isinstance(n.func, ast.Name) and n.func.id == name)):
                sites.append(ctx.enclosing_stmt(f, n))
        if not sites:
            return 'no call of %s is left in %s' % (name, f.name)
        for t in targets:
            tn = g.node_of(t)
            ok = False
            for st in sites:
                sn = g.node_of(st)
                if st is t or sn is None or tn is None:
                    continue
                if (sn.id in dom.get(tn.id, ()) or _runs_whenever(ctx, f, st, t)) and st.lineno not in late:
                    ok = True
            if not ok:
                return 'the call of %s no longer precedes it on every path (or is itself made after the first change)' % name
    return None


# query method -> insert method whose refusals it repeats without changing anything (checked by SA-SIB.query_twin)
QUERY_TWINS = {
    'dr.DirectoryRecord._add_child': 'dr.DirectoryRecord.check_new_child',
}


def _narrowing_fact(fact):
    """a normalised fact (text, polarity) that says `<attribute chain> is not None`"""
    import re
    txt, pol = fact
    return pol is False and bool(re.match(r'^[A-Za-z_]\w*(\.[A-Za-z_]\w*)+ is None$', txt))


def _runs_whenever(ctx, f, v, t, same_range=()):
    """structural form of "v has been executed whenever t executes": v sits in a chain of ifs whose tests (with
    polarity) are all among the conditions that hold at t, and the outermost statement of that chain precedes, in
    one block, the statement that holds t"""
    from .. import expand as ex
    from .keyident import _normfact
    par = ctx.parents(f)

    def chain(x):
        out = [x]
        while True:
            p = par.get(id(out[-1]))
            if p is None or p is f.node:
                break
            out.append(p)
        return out
    cv, ct = chain(v), chain(t)
    for x in cv[1:]:
        if isinstance(x, ast.For) and norm(x.iter) in same_range and not x.orelse and \
                not any(isinstance(y, (ast.Break, ast.Continue, ast.Return)) for st in x.body for y in ast.walk(st)):
            # a loop over the very collection the later statement loops over: it asks for every member the later one
            # acts on (and for none if there is none)
            continue
        if isinstance(x, (ast.For, ast.While, ast.Try, ast.With)):
            return False
    vf = set()
    for test, pol, _at in ex.conditions(ctx, f, v, True):
        for a, b in ex.conjuncts(test, pol):
            vf.add(_normfact(a, b))
    tf = set()
    for test, pol, _at in ex.conditions(ctx, f, t, False):
        for a, b in ex.conjuncts(test, pol):
            tf.add(_normfact(a, b))
    # conditions of v that t does not have are tolerated when they only narrow an Optional (`self.joliet_vd is not None`,
    # `rec.ptr is not None` as further conjuncts of a test that t shares): where they fail, the later statement runs into
    # the library's own "cannot happen" assertion, which this family treats as unreachable
    extra = vf - tf
    if extra and not (vf & tf):
        return False
    for fact in extra:
        if not _narrowing_fact(fact):
            return False
    # common block: the innermost block that holds an ancestor-or-self of both
    for av in cv:
        pb = par.get(id(av))
        for at in ct:
            if par.get(id(at)) is pb and at is not av:
                for fld in ('body', 'orelse', 'finalbody'):
                    blk = getattr(pb, fld, None)
                    if isinstance(blk, list) and any(x is av for x in blk) and any(x is at for x in blk):
                        iv = [i for i, x in enumerate(blk) if x is av][0]
                        it = [i for i, x in enumerate(blk) if x is at][0]
                        return iv < it
    return False


def _param_slice(ctx, f, st, vals=None):
    """parameters of f in the backward slice of the statement st (through plain, tuple and augmented assignments);
    `vals` restricts the slice to these sub-expressions of st"""
    from .. import expand as ex
    params = set(p.lstrip('*') for p in f.params) - {'self'}
    out = set()
    if vals is None:
        vals = [x for x in ast.iter_child_nodes(st) if isinstance(x, ast.expr)]
    seen = set()
    work = list(vals)
    gg, RD = ex._rd(ctx, f)
    node = gg.node_of(st)
    reach = (RD.get(node.id) if node is not None else None) or frozenset()
    while work:
        x = work.pop()
        for sub in ast.walk(x):
            if isinstance(sub, ast.Name) and isinstance(sub.ctx, ast.Load):
                if sub.id in params:
                    out.add(sub.id)
                if sub.id in seen:
                    continue
                seen.add(sub.id)
                for nm, dnid in reach:
                    if nm == sub.id:
                        ds = gg.nodes[dnid].stmt
                        if isinstance(ds, (ast.Assign, ast.AugAssign)) and ds is not st:
                            work.append(ds.value)
                # an object filled in by its own methods (`rec.new_file(vd, 0, name, parent, ...)`) depends on their arguments
                for c in ctx.own_nodes(f):
                    if isinstance(c, ast.Call) and isinstance(c.func, ast.Attribute) and isinstance(c.func.value, ast.Name) and \
                            c.func.value.id == sub.id and sub.id != 'self' and c.lineno < st.lineno and any(nm == sub.id for nm, _d in reach):
                        work.extend(c.args)
                        work.extend(k.value for k in c.keywords)
    return out


def _flow_insensitive_params(ctx, cal, seeds):
    """parameters of cal that the seed nodes may depend on: through every assignment to a local name anywhere in cal,
    every store to an attribute of self that is read, the arguments of method calls on a local in the slice (the
    object is filled in by them) and loop / with targets.  Deliberately coarse: a parameter too many only makes the
    caller's pre-validation harder to accept."""
    params = set(p.lstrip('*') for p in cal.params) - {'self'}
    out = set()
    seen_n, seen_a = set(), set()
    work = list(seeds)
    nodes = list(ctx.own_nodes(cal))
    while work:
        x = work.pop()
        for sub in ast.walk(x):
            if isinstance(sub, ast.Name) and isinstance(sub.ctx, ast.Load) and sub.id != 'self':
                if sub.id in params:
                    out.add(sub.id)
                if sub.id in seen_n:
                    continue
                seen_n.add(sub.id)
                for n in nodes:
                    if isinstance(n, (ast.Assign, ast.AugAssign, ast.AnnAssign)):
                        tg = n.targets if isinstance(n, ast.Assign) else [n.target]
                        if any(sub.id in cfgmod.target_names(t) for t in tg) and n.value is not None:
                            work.append(n.value)
                    elif isinstance(n, (ast.For, ast.comprehension)) and sub.id in cfgmod.target_names(n.target):
                        work.append(n.iter)
                    elif isinstance(n, ast.With):
                        for it in n.items:
                            if it.optional_vars is not None and sub.id in cfgmod.target_names(it.optional_vars):
                                work.append(it.context_expr)
                    elif isinstance(n, ast.Call) and isinstance(n.func, ast.Attribute) and isinstance(n.func.value, ast.Name) and n.func.value.id == sub.id:
                        work.extend(n.args)
                        work.extend(k.value for k in n.keywords)
            elif isinstance(sub, ast.Attribute) and isinstance(sub.value, ast.Name) and sub.value.id == 'self' and isinstance(sub.ctx, ast.Load):
                if sub.attr in seen_a:
                    continue
                seen_a.add(sub.attr)
                for n in nodes:
                    if isinstance(n, (ast.Assign, ast.AugAssign)):
                        tg = n.targets if isinstance(n, ast.Assign) else [n.target]
                        for t in tg:
                            for tt in ast.walk(t):
                                if isinstance(tt, ast.Attribute) and tt.attr == sub.attr and isinstance(tt.value, ast.Name) and tt.value.id == 'self':
                                    work.append(n.value)
    return out


def _refusal_relevant_args(ctx, engine, f, st):
    """st is `... = recv.helper(a0, a1, ...)` with one package callee: the sub-expressions of st that can influence
    whether the helper refuses - the receiver and the arguments bound to those parameters of the helper that its
    own refusing statements (raise statements of the tracked class, calls of functions that may raise it, and the
    tests they sit under) depend on.  None when the call cannot be mapped (then the whole statement counts)."""
    from .. import expand as ex
    from ..engine import raises_class
    val = st.value if isinstance(st, (ast.Assign, ast.AugAssign, ast.Expr)) else None
    if not isinstance(val, ast.Call) or any(isinstance(a, ast.Starred) for a in val.args) or any(k.arg is None for k in val.keywords):
        return None
    cs, kind = ctx.t._resolve(val, f)
    if kind not in ('func', 'method') or not cs or len(cs) != 1 or cs[0].qual not in engine.summ:
        return None
    cal = cs[0]
    cparams = [p for p in cal.params]
    if any(p.startswith('*') for p in cparams):
        return None
    if cal.cls is not None and cparams and cparams[0] == 'self':
        cparams = cparams[1:]
    seeds = []
    found = False
    for n in ctx.own_nodes(cal):
        if not isinstance(n, ast.stmt) or isinstance(n, (ast.FunctionDef, ast.ClassDef)):
            continue
        refuses = isinstance(n, ast.Raise) and raises_class(n) == 'PyCdlibInvalidInput'
        if not refuses and isinstance(n, (ast.Expr, ast.Assign, ast.AugAssign, ast.Return)):
            for c in ast.walk(n):
                if isinstance(c, ast.Call):
                    cs2, k2 = ctx.t._resolve(c, cal)
                    for c2 in (cs2 or ()) if k2 in ('func', 'method') else ():
                        if hasattr(c2, 'qual') and c2.qual in engine.summ and engine.summ[c2.qual][1]:
                            refuses = True
        if not refuses:
            continue
        found = True
        seeds.append(n)
        for test, _pol, _at in ex.conditions(ctx, cal, n, True):
            seeds.append(test)
    rel = _flow_insensitive_params(ctx, cal, seeds)
    if not found:
        return None
    vals = []
    if isinstance(val.func, ast.Attribute):
        vals.append(val.func.value)
    for i, a in enumerate(val.args):
        if i >= len(cparams) or cparams[i] in rel:
            vals.append(a)
    for k in val.keywords:
        if k.arg in rel or k.arg not in cparams:
            vals.append(k.value)
    return vals


def _covered_by_earlier_refusals(ctx, engine, f, canon_stmt, sites):
    """If every raise site of the finding is also raised by statements of f that dominate the refusing statement and
    run before the first change - the same site, or the site of the same message in the query twin of an insert
    method - and those statements mention every parameter of f that the refusing statement mentions, return a
    description of them; else None."""
    from ..model import stmt_head
    from .. import expand as ex
    g = ctx.cfg(f)
    dom = g.dominators()
    targets = [n for n in ctx.own_nodes(f) if isinstance(n, ast.stmt) and not isinstance(n, (ast.FunctionDef, ast.ClassDef)) and
               canon_key(ctx, f.qual, stmt_head(n)[:240], n.lineno) == canon_stmt]
    if len(targets) != 1:
        return None
    t = targets[0]
    tn = g.node_of(t)
    if tn is None:
        return None
    late = set()
    for key, roots, origin in engine.summ[f.qual][1]:
        if roots and origin is not None and origin[0] == f.qual:
            late.add(origin[3])
    def pnames(st, vals=None):
        return _param_slice(ctx, f, st, vals)
    covered = {}
    for n in ctx.own_nodes(f):
        if not isinstance(n, ast.stmt) or isinstance(n, (ast.FunctionDef, ast.ClassDef)) or n is t or n.lineno in late:
            continue
        sn = g.node_of(n)
        if sn is None:
            continue
        if sn.id not in dom.get(tn.id, ()) and not _runs_whenever(ctx, f, n, t):
            continue
        if isinstance(n, ast.Raise):
            continue
        if not isinstance(n, (ast.Expr, ast.Assign, ast.AugAssign)):
            continue
        for c in ast.walk(n):
            if not isinstance(c, ast.Call):
                continue
            callees, kind = ctx.t._resolve(c, f)
            for cal in callees or ():
                if not hasattr(cal, 'qual') or cal.qual not in engine.summ:
                    continue
                for key, roots, origin in engine.summ[cal.qual][1]:
                    covered.setdefault((key[0], key[1], key[2]), set()).add(n)
                # a query twin reached from here asks every question of its insert method, including those the
                # engine prunes for this call's literal arguments (rr_name=None)
                reach = ctx.reachable_from([cal], include_candidates=False)
                for ins, qry in QUERY_TWINS.items():
                    if qry in reach:
                        from ..engine import raises_class, raise_message
                        for rn in ctx.own_nodes(ctx.func(qry)):
                            if isinstance(rn, ast.Raise) and raises_class(rn) == 'PyCdlibInvalidInput':
                                covered.setdefault((qry, 'PyCdlibInvalidInput', raise_message(rn)), set()).add(n)
    used = set()
    for site in sites:
        alt = (QUERY_TWINS.get(site[0]), site[1], site[2])
        hit = covered.get(site) or (covered.get(alt) if alt[0] else None)
        if not hit:
            return None
        used |= hit
    need = pnames(t, _refusal_relevant_args(ctx, engine, f, t))
    have = set()
    for n in used:
        have |= pnames(n)
    if not need or not need <= have:
        # without a parameter that ties the two together nothing says that the earlier refusal is about the same
        # destination (the reviewed table is the place for such cases)
        return None
    return ', '.join('`%s` (line %d)' % (stmt_head(n)[:50], n.lineno) for n in sorted(used, key=lambda x: x.lineno)[:3])


@rule('SA-SIB.query_twin')
@props('C08', 'C13', 'C14')
def query_twin(ctx):
    """A query method that exists so that callers can ask "would the insertion refuse?" before they change anything
    raises every PyCdlibInvalidInput message the insertion raises (a refusal added to the insertion alone re-opens the
    window between the first change and the refusal)."""
    from ..engine import raises_class, raise_message
    obs = []
    for ins, qry in sorted(QUERY_TWINS.items()):
        fi, fq = ctx.func(ins), ctx.func(qry)

        def msgs(fn):
            out = {}
            for n in ctx.own_nodes(fn):
                if isinstance(n, ast.Raise) and raises_class(n) == 'PyCdlibInvalidInput':
                    out[raise_message(n)] = n
            return out
        mi, mq = msgs(fi), msgs(fq)
        for m, node in sorted(mi.items(), key=lambda x: str(x[0])):
            ok = m in mq
            obs.append(Ob('SA-SIB.query_twin', '%s|%s' % (qry, str(m)[:60]), ok, ctx.loc(fi, node),
                          '' if ok else '%s refuses with %r but %s, which callers use to ask before they change anything, does not: that refusal still arrives '
                          'after the first change' % (ins, m, qry)))
        # a refusal the query finds by scanning (the raise sits in a loop: the clashing entry need not be the first of
        # its name) is found by scanning in the insertion as well - an insertion that looks at one position only
        # accepts what the query, and the documentation, refuse
        def in_loop(fn, node):
            par = ctx.parents(fn)
            cur = node
            while cur is not None and cur is not fn.node:
                cur = par.get(id(cur))
                if isinstance(cur, (ast.For, ast.While)):
                    return True
            return False
        for m, node in sorted(mi.items(), key=lambda x: str(x[0])):
            if m in mq and in_loop(fq, mq[m]):
                ok = in_loop(fi, node)
                obs.append(Ob('SA-SIB.query_twin', '%s|%s|found by scanning in both' % (ins, str(m)[:60]), ok, ctx.loc(fi, node),
                              '' if ok else '%s looks for the entry behind %r in a loop, %s tests a single position: the entries of one name are not all alike (a relocated '
                              'directory, an associated file or a further extent may come first), so a clash behind the first entry is accepted by the insertion'
                              % (qry, m, ins)))
        # a linear scan that looks for a clashing entry has to see every entry: no break / return inside a loop of the
        # query method whose body holds a refusal (the insert method may stop early because it starts at a bisected
        # position; the query starts at the beginning)
        for loop in ctx.own_nodes(fq):
            if not isinstance(loop, ast.For):
                continue
            if not any(isinstance(x, ast.Raise) and raises_class(x) == 'PyCdlibInvalidInput' for st in loop.body for x in ast.walk(st)):
                continue
            starts_bisected = any(isinstance(x, ast.Call) and 'bisect' in norm(x.func) for x in ast.walk(loop.iter))
            early = [x for st in loop.body for x in ast.walk(st) if isinstance(x, (ast.Break, ast.Return))]
            ok = not early or starts_bisected
            obs.append(Ob('SA-SIB.query_twin', '%s|scan over %s is exhaustive' % (qry, norm(loop.iter)[:40]), ok, ctx.loc(fq, early[0] if early else loop),
                          '' if ok else 'the loop over `%s` that looks for a clashing entry leaves at line %d before it has seen every entry (and does not start at a '
                          'bisected position): a clash further along is not reported here, the insertion refuses it later - after the caller has started changing things'
                          % (norm(loop.iter), early[0].lineno)))
    if not obs:
        raise AnalysisError('anchor-vanished: query twins')
    return obs


def _renumber(txt):
    import re
    m = {}

    def rep(mo):
        return m.setdefault(mo.group(0), 'v%d' % len(m))
    return re.sub(r'\bv\d+\b', rep, txt)


def _calls_of(stmt_text):
    body = stmt_text
    for pre in ('if ', 'while ', 'with ', 'for '):
        if body.startswith(pre):
            body = body[len(pre):]
    body = body.split('#')[0] if '#' in body and body.rsplit('#', 1)[1].isdigit() else body
    try:
        tree = ast.parse(body)
    except SyntaxError:
        return []
    return [_renumber(ast.unparse(c)) for c in ast.walk(tree) if isinstance(c, ast.Call) and isinstance(c.func, ast.Attribute)]


def _preval_by_call(preval, findings, k):
    live = set('%s|%s' % kk for kk in findings)
    mine = _calls_of(k[1])
    if not mine:
        return None
    hits = []
    for ekey, ent in preval.items():
        if ent['function'] != k[0] or ekey in live:
            continue
        theirs = _calls_of(ent['statement'])
        if theirs and theirs[0] in mine:
            hits.append(ent)
    return hits[0] if len(hits) == 1 else None


@rule('SA-VBM')
@props('C14')
def vbmrule(ctx):
    e = run_engine(ctx)
    muts = public_mutators(ctx, e)
    if len(muts) < 15:
        raise AnalysisError('anchor-vanished: only %d public editing methods found' % len(muts))
    findings = {}
    clean = {}
    for fi in muts:
        normal, events = e.summ[fi.qual]
        for key, roots, origin in events:
            if not roots:
                continue
            org = origin or (fi.qual, '?', '?', 0)
            k = (org[0], canon_key(ctx, org[0], org[2], org[3] if len(org) > 3 else 0))
            d = findings.setdefault(k, {'methods': set(), 'first': set(), 'raises': set(), 'sites': set()})
            d['sites'].add((key[0], key[1], key[2]))
            d['methods'].add(fi.name)
            d['first'].add(org[1])
            d['raises'].add('%s: %s' % (key[0].split('.', 1)[1], key[2][:50]))
        clean[fi.qual] = len(events)
    obs = []
    preval = _prevalidated_table()
    used_preval = set()
    auto_ok = set()
    for k, d in sorted(findings.items()):
        key = '%s|%s' % k
        f = ctx.m.functions.get(k[0])
        ent = preval.get(key)
        if ent is None and f is not None:
            # the same call inside another statement shape (a single-use temporary removed or introduced around it:
            # `n = p.remove(x); total += n * bs`  vs  `total += p.remove(x) * bs`): an entry of this function whose own
            # statement is gone and whose refusing call, placeholders renumbered, occurs in this statement
            ent = _preval_by_call(preval, findings, k)
            if ent is not None:
                key = '%s|%s' % (k[0], k[1])
        if ent is None and f is not None:
            auto = _covered_by_earlier_refusals(ctx, e, f, k[1], d['sites'])
            if auto:
                obs.append(Ob('SA-VBM', key, True, ctx.loc(f, f.node), 'pre-validated: every refusal this statement can raise (%d raise sites) is raised first, on the same '
                              'parameters, by %s before anything is changed' % (len(d['sites']), auto)))
                auto_ok.add(k)
                continue
        if ent is not None and f is not None:
            used_preval.add('%s|%s' % (ent['function'], ent['statement']))
            if ent.get('before_first_change'):
                missing = _prevalidation_before_first_change_missing(ctx, f, ent['validated_by'], d['first'])
            elif ent.get('validated_in_callers'):
                missing = _prevalidation_in_callers_missing(ctx, e, f, ent['validated_by'])
            else:
                missing = _prevalidation_missing(ctx, e, f, k[1], ent['validated_by'], ent.get('rolled_back', False))
            obs.append(Ob('SA-VBM', key, not missing, ctx.loc(f, f.node),
                          ('pre-validated: %s' % ent['reason']) if not missing else
                          'in %s, `%s` can refuse after `%s` changed persistent state; the refusals were made unreachable by resolving the same destination up front '
                          'with %s, but %s: a refused call leaves the image object changed again (reached from %s)'
                          % (k[0], k[1][:100], sorted(d['first'])[0], ', '.join(ent['validated_by']), missing, ', '.join(sorted(d['methods'])))))
            continue
        obs.append(Ob('SA-VBM', key, False, ctx.loc(f, f.node) if f else '',
                      'in %s, `%s` has already changed persistent state when `%s` can still refuse with PyCdlibInvalidInput '
                      '(%d raise sites: %s); reached from %s: a refused call leaves the image object changed'
                      % (k[0], sorted(d['first'])[0], k[1][:100], len(d['raises']), '; '.join(sorted(d['raises'])[:6]) + (' ...' if len(d['raises']) > 6 else ''),
                         ', '.join(sorted(d['methods'])))))
    for key in sorted(set(preval) - used_preval):
        ent = preval[key]
        if ent['function'] not in ctx.m.functions:
            raise AnalysisError('tables/vbm_prevalidated.json names a function that no longer exists: %s' % ent['function'])
    for fi in muts:
        bad = [1 for k, d in findings.items() if fi.name in d['methods'] and ('%s|%s' % k) not in preval and k not in auto_ok]
        if not bad:
            obs.append(Ob('SA-VBM', '%s|all refusals precede mutation' % fi.qual, True, ctx.loc(fi, fi.node),
                          '%d escaping PyCdlibInvalidInput raise sites, none preceded by a persistent write' % clean[fi.qual]))
    return obs


@rule('SA-VBM.reset')
@props('C14')
def reset(ctx):
    pc = ctx.cls('pycdlib.PyCdlib')
    obs = []
    init = pc.methods.get('_initialize')
    if init is None:
        raise AnalysisError('anchor-vanished PyCdlib._initialize')
    # _initialize assigns every slot of PyCdlib except the construction-time options
    from .. import effects
    assigned = set(w.attr for w in effects.direct_writes(ctx, init) if norm(w.recv) == 'self')
    keep = {'_always_consistent', '_track_writes', 'pvd'}   # options of the constructor; pvd is always reassigned by new()/open() before use
    missing = sorted(set(pc.slots or ()) - assigned - keep)
    obs.append(Ob('SA-VBM.reset', 'pycdlib.PyCdlib._initialize|resets every slot', not missing, ctx.loc(init, init.node),
                  '' if not missing else 'slots not reset by _initialize: %s (state of a previous image or a failed attempt survives)' % missing))
    for name in CONSTRUCTORS:
        fi = pc.methods.get(name)
        if fi is None:
            raise AnalysisError('anchor-vanished PyCdlib.%s' % name)
        g = ctx.cfg(fi)
        dom = g.dominators()
        resets = [n for n in g.nodes if any(isinstance(s, ast.Call) and norm(s.func) == 'self._initialize'
                                           for e in cfgmod.node_exprs(n) for s in ast.walk(e))]
        ok = bool(resets)
        why = '' if ok else 'no call of self._initialize()'
        if ok:
            r = resets[0]
            # every node that writes self.* or calls a method of self (other than the guard) is dominated by the reset
            for n in g.nodes:
                if n is r or n.kind in ('entry', 'exit', 'raise'):
                    continue
                writes = False
                for e in cfgmod.node_exprs(n):
                    for s in ast.walk(e):
                        if isinstance(s, ast.Attribute) and isinstance(s.ctx, ast.Store) and isinstance(s.value, ast.Name) and s.value.id == 'self':
                            writes = True
                        if isinstance(s, ast.Call) and isinstance(s.func, ast.Attribute) and isinstance(s.func.value, ast.Name) and \
                                s.func.value.id == 'self' and s.func.attr != '_initialize':
                            writes = True
                if writes and r.id not in dom[n.id]:
                    ok = False
                    why = 'line %d changes the object before it has been re-initialised' % n.lineno
        obs.append(Ob('SA-VBM.reset', 'pycdlib.PyCdlib.%s|re-initialises first' % name, ok, ctx.loc(fi, fi.node), why))
    return obs


@rule('SA-VBM.assert')
@props('C14')
def assertions(ctx):
    """PyCdlibInternalError raises are excluded from SA-VBM as "cannot happen".  For those whose governing
    condition speaks only about the call's own arguments and the image's configuration (`x is None` /
    truthiness of a parameter or of a self attribute that the method does not assign) that belief has to be
    established by the method itself: some earlier refusal (if ...: raise PyCdlibInvalidInput) must test
    conditions that all hold whenever the assertion's condition holds.  Otherwise an argument value exists
    that passes the refusals, lets the method change the image and then dies in the assertion."""
    from .. import expand as ex
    from .keyident import _normfact
    from ..engine import raises_class
    e = run_engine(ctx)
    obs = []
    n_seen = 0
    for fi in public_mutators(ctx, e):
        params = set(p.lstrip('*') for p in fi.params[1:])
        assigned_self = set()
        for n in ctx.own_nodes(fi):
            if isinstance(n, (ast.Assign, ast.AugAssign)):
                for t in (n.targets if isinstance(n, ast.Assign) else [n.target]):
                    if isinstance(t, ast.Attribute) and isinstance(t.value, ast.Name) and t.value.id == 'self':
                        assigned_self.add(t.attr)
        refusals = []
        for n in ctx.own_nodes(fi):
            if isinstance(n, ast.If) and n.body and isinstance(n.body[-1], ast.Raise) and raises_class(n.body[-1]) == 'PyCdlibInvalidInput':
                facts = set()
                for test, pol, at in ex.conditions(ctx, fi, n.body[-1], True):
                    for t, p in ex.conjuncts(test, pol):
                        facts.add(_normfact(t, p))
                refusals.append((n, facts))

        def arg_only(t):
            for sub in ast.walk(t):
                if isinstance(sub, ast.Call):
                    return False
                if isinstance(sub, ast.Name) and sub.id not in params and sub.id not in ('self', 'None'):
                    return False
                if isinstance(sub, ast.Attribute) and not (isinstance(sub.value, ast.Name) and sub.value.id == 'self' and sub.attr not in assigned_self):
                    return False
            return True

        for n in ctx.own_nodes(fi):
            if not (isinstance(n, ast.Raise) and raises_class(n) == 'PyCdlibInternalError'):
                continue
            conds = []
            for test, pol, at in ex.conditions(ctx, fi, n, True):
                for t, p in ex.conjuncts(test, pol):
                    conds.append((t, p))
            if not conds or not all(arg_only(t) for t, p in conds):
                continue
            # something of the image has been touched before?  (a call into the package or a store to self earlier in the body)
            touched = False
            g = ctx.cfg(fi)
            rn = g.node_of(n)
            for m in ctx.own_nodes(fi):
                if isinstance(m, ast.Call) and isinstance(m.func, ast.Attribute) and isinstance(m.func.value, ast.Name) and m.func.value.id == 'self' \
                        and m.func.attr.startswith(('_add', '_rm', '_remove', '_create', '_update', '_finish')):
                    mn = g.node_of(ctx.enclosing_stmt(fi, m))
                    if mn is not None and rn is not None and mn is not rn and rn.id in g.reachable(mn):
                        touched = True
            if not touched:
                continue
            n_seen += 1
            F = set(_normfact(t, p) for t, p in conds)
            covered = [r for r, facts in refusals if facts and facts <= F and r.lineno < n.lineno]
            key = '%s|%s' % (fi.qual, norm(n)[:90])
            obs.append(Ob('SA-VBM.assert', key, bool(covered), ctx.loc(fi, n),
                          '' if covered else '%s raises PyCdlibInternalError when %s, after it has already changed the image, and no earlier refusal of the method tests '
                          'exactly that (the refusals test %s): an argument that slips past them is applied half-way and then hits the assertion'
                          % (fi.name, ' and '.join(('' if p else 'not ') + '(%s)' % t for t, p in sorted(F)),
                             '; '.join(sorted(' and '.join(('' if p else 'not ') + t for t, p in sorted(f)) for r, f in refusals if f & set((t, q) for t, q in F) or
                                              any(t2.split(' ')[0] in ' '.join(x for x, _ in F) for t2, _ in f))[:3]) or 'nothing comparable')))
    if n_seen < 1:
        raise AnalysisError('anchor-vanished: argument-only assertions after mutation in public methods (%d)' % n_seen)
    return obs
