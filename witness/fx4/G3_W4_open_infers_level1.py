"""Observation D: open() has to recognise an interchange level 1 image, and
the Rock Ridge facade then derives level 1 identifiers on it.

Usage: W4_open_infers_level1.py <path-to-checkout>
"""
import io
import re
import sys

sys.path.insert(0, sys.argv[1])

import pycdlib
from pycdlib.pycdlibexception import PyCdlibInvalidInput


def written(iso):
    out = io.BytesIO()
    iso.write_fp(out)
    iso.close()
    return out


def reopened_level(**kwargs):
    names = kwargs.pop('names')
    iso = pycdlib.PyCdlib()
    iso.new(**kwargs)
    rr = {}
    for index, name in enumerate(names):
        if 'rock_ridge' in kwargs:
            rr = {'rr_name': 'n%d' % (index)}
        if name.endswith('/'):
            iso.add_directory(name[:-1], **rr)
        else:
            iso.add_fp(io.BytesIO(b'x'), 1, name, **rr)
    chk = pycdlib.PyCdlib()
    chk.open_fp(written(iso))
    level = chk.interchange_level
    chk.close()
    return level


def main():
    problems = []

    for expect, kwargs in ((1, {'interchange_level': 1, 'names': []}),
                           (1, {'interchange_level': 1, 'names': ['/DIR1/', '/DIR1/FOO.TXT;1', '/ABCDEFGH.XYZ;1', '/NOEXT.;1']}),
                           (1, {'interchange_level': 1, 'rock_ridge': '1.09', 'names': ['/DIR1/', '/FOO.TXT;1']}),
                           (1, {'interchange_level': 1, 'joliet': 3, 'names': []}),
                           (3, {'interchange_level': 3, 'names': ['/LONGDIRECTORYNAME/']}),
                           (3, {'interchange_level': 3, 'names': ['/DIR1/', '/DIR1/LONGFILENAME.TXT;1']}),
                           (3, {'interchange_level': 2, 'names': ['/FOO.TEXT;1']}),
                           (4, {'interchange_level': 4, 'names': ['/foo.txt']})):
        try:
            got = reopened_level(**dict(kwargs))
        except PyCdlibInvalidInput as e:
            problems.append('%r: %s' % (kwargs, e))
            continue
        if got != expect:
            problems.append('%r: open() says interchange level %d, expected %d' % (kwargs, got, expect))

    # A level 1 image that is opened again is still treated as level 1 ...
    iso = pycdlib.PyCdlib()
    iso.new(interchange_level=1, rock_ridge='1.09')
    iso.add_fp(io.BytesIO(b'a'), 1, '/A.TXT;1', rr_name='a.txt')
    chk = pycdlib.PyCdlib()
    chk.open_fp(written(iso))
    try:
        chk.add_fp(io.BytesIO(b'b'), 1, '/LONGFILENAME.TXT;1', rr_name='b')
        problems.append('a level 3 name was accepted on a reopened level 1 image')
    except PyCdlibInvalidInput:
        pass
    # ... and the Rock Ridge facade derives level 1 identifiers on it.
    facade = chk.get_rock_ridge_facade()
    try:
        facade.add_fp(io.BytesIO(b'c'), 1, '/changelog-for-b.text', 0o100444)
        facade.add_directory('/documentation', 0o040555)
    except PyCdlibInvalidInput as e:
        problems.append('Rock Ridge facade on the reopened level 1 image: %s' % (e))
    out = written(chk)
    final = pycdlib.PyCdlib()
    final.open_fp(out)
    for child in final.list_children(iso_path='/'):
        if child.is_dot() or child.is_dotdot():
            continue
        ident = child.file_identifier().decode('ascii')
        if child.is_dir():
            legal = re.match(r'^[A-Z0-9_]{1,8}$', ident)
        else:
            legal = re.match(r'^[A-Z0-9_]{0,8}\.[A-Z0-9_]{0,3};1$', ident)
        if not legal:
            problems.append('identifier %s in the image that was made as level 1' % (ident))
    final.close()

    if problems:
        for p in problems:
            print(p)
        return 1
    print('OK')
    return 0


if __name__ == '__main__':
    sys.exit(main())
