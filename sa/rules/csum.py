"""SA-CSUM.fresh: a recorded checksum is a function of the bytes recorded with it (C10, C11, C12).

Every checksum the library writes (GPT header and partition-array CRC32, El Torito validation checksum, UDF
descriptor-tag CRC and checksum) is produced by one of a handful of checksum functions.  The property "the
headers checksum correctly" holds for every edit history only if the value that is packed is computed from
the current content - a checksum kept in object state is right only as long as nothing it covers changes.

For every store of a checksum-function result into an object attribute  `obj.A = K(...)`  (also through
locals, found by copy propagation):

  constructor store   (the store is in new*/parse*/__init__):  the attributes of the same object that the
                      checksummed expression reads - directly or through one level of self-method call - have
                      no writer outside the constructors of that class.  (EltoritoValidationEntry.new is the
                      instance on today's tree: platform_id / id_string are never written again.)
  any other store     every read of obj.A anywhere in the package is dominated, in its own function, by a
                      store `obj.A = K(...)`: the value used was computed in this call.  A store guarded by
                      `if obj.A is None` does not dominate the use after it - that is the memoised-checksum
                      shape, which goes stale as soon as a covered field is rewritten (IsoHybrid.update_efi
                      rewrites the GPT partition extents at every extent assignment).

Checksum results that are packed, compared or passed on directly are fresh by construction and are only
counted.  Checksums handed to another object's constructor as an argument (the boot info table) are not
followed: the covered bytes are file content, which this family does not model.
"""
import ast

from ..registry import rule, props
from ..report import Ob
from ..model import norm, AnalysisError, type_classes
from .. import effects
from .. import expand as ex

KFUNCS = {
    'isohybrid.crc32': 'hybrid',
    'udf.crc_ccitt': 'udf',
    'udf._compute_csum': 'udf',
    'eltorito.EltoritoValidationEntry._checksum': 'eltorito',
    'pycdlib.PyCdlib._calculate_eltorito_boot_info_table_csum': 'eltorito',
}
MODULE_OF = {'hybrid': ('isohybrid',), 'udf': ('udf',), 'eltorito': ('eltorito', 'pycdlib')}
FLOOR = {'hybrid': 2, 'udf': 3, 'eltorito': 2}


def _is_ctor(fi):
    return fi.name == '__init__' or fi.name.startswith('new') or fi.name.startswith('parse')


def _kname(call):
    f = call.func
    return f.attr if isinstance(f, ast.Attribute) else f.id if isinstance(f, ast.Name) else None


def _kcalls(ctx, fi, expr, names):
    return [n for n in ast.walk(expr) if isinstance(n, ast.Call) and _kname(n) in names]


def _self_reads(ctx, fi, expr, depth=1):
    """attributes of `self` read by expr, following self.m() calls one level"""
    out = set()
    for n in ast.walk(expr):
        if isinstance(n, ast.Attribute) and isinstance(n.value, ast.Name) and n.value.id == 'self':
            parent_call = False
            out.add(n.attr)
        if depth and isinstance(n, ast.Call) and isinstance(n.func, ast.Attribute) and isinstance(n.func.value, ast.Name) and \
                n.func.value.id == 'self' and fi.cls is not None and n.func.attr in fi.cls.methods:
            m = fi.cls.methods[n.func.attr]
            for x in ctx.own_nodes(m):
                if isinstance(x, ast.Attribute) and isinstance(x.value, ast.Name) and x.value.id == 'self' and isinstance(x.ctx, ast.Load):
                    out.add(x.attr)
    return out


def _run(ctx, family, rid):
    obs = []
    for q in KFUNCS:
        ctx.func(q)
    names = set(q.split('.')[-1] for q, fam in KFUNCS.items() if fam == family)
    mods = MODULE_OF[family]
    ncalls = 0
    stores = []          # (fi, Write, expanded value)
    for fi in ctx.m.pkg_functions():
        if fi.module not in mods:
            continue
        for n in ctx.own_nodes(fi):
            if isinstance(n, ast.Call) and _kname(n) in names:
                ncalls += 1
        for w in effects.direct_writes(ctx, fi):
            if w.kind != 'assign' or w.value is None or not isinstance(w.node, ast.Attribute):
                continue
            val = ex.expand(ctx, fi, w.value, w.stmt)
            if _kcalls(ctx, fi, val, names):
                stores.append((fi, w, val))
    if ncalls < FLOOR[family]:
        raise AnalysisError('anchor-vanished: calls of the checksum functions %s (%d)' % (sorted(names), ncalls))
    obs.append(Ob(rid, 'checksum call sites', True, 'pycdlib/%s.py' % mods[0], ''))
    attrs = {}
    for fi, w, val in stores:
        for c in (w.classes or ('?',)):
            attrs.setdefault((c, w.attr), []).append((fi, w, val))
    for (cq, attr), sts in sorted(attrs.items()):
        ctor_only = all(_is_ctor(fi) for fi, _w, _v in sts)
        if ctor_only:
            for fi, w, val in sts:
                covered = set()
                for k in _kcalls(ctx, fi, val, names):
                    for a in k.args:
                        covered |= _self_reads(ctx, fi, a)
                covered.discard(attr)
                late = []
                if norm(w.recv) == 'self' and fi.cls is not None:
                    for x in sorted(covered):
                        for w2 in effects.writers_of(ctx, fi.cls.qual, x):
                            if not (_is_ctor(w2.fi) and w2.fi.cls is fi.cls):
                                late.append('%s (written by %s, line %d)' % (x, w2.fi.qual, w2.stmt.lineno))
                key = '%s|%s.%s stored at construction covers only fields fixed at construction' % (fi.qual, cq.split('.')[-1], attr)
                obs.append(Ob(rid, key, not late, ctx.loc(fi, w.node),
                              '' if not late else 'the checksum kept in %s.%s is computed once in %s, but it covers %s: after that write the stored '
                              'checksum no longer matches what record() emits' % (cq.split('.')[-1], attr, fi.name, '; '.join(late))))
            continue
        # memoised / cached outside a constructor: every read must be dominated by a fresh store
        for g in ctx.m.pkg_functions():
            reads = []
            for n in ctx.own_nodes(g):
                if isinstance(n, ast.Attribute) and n.attr == attr and isinstance(n.ctx, ast.Load):
                    cl = type_classes(ctx.t.expr_type(n.value, g))
                    if cq in cl or (not cl and cq != '?'):
                        reads.append(n)
            if not reads:
                continue
            cfg = ctx.cfg(g)
            dom = cfg.dominators()
            fresh = [cfg.node_of(w.stmt) for fi, w, _v in sts if fi is g]
            fresh = [f for f in fresh if f is not None]
            bad = []
            for r in reads:
                rn = cfg.node_of(ctx.enclosing_stmt(g, r))
                if rn is None or not any(f.id in dom.get(rn.id, ()) and f.id != rn.id for f in fresh):
                    bad.append(r)
            key = '%s|reads %s.%s computed in this call' % (g.qual, cq.split('.')[-1], attr)
            obs.append(Ob(rid, key, not bad, ctx.loc(g, bad[0] if bad else reads[0]),
                          '' if not bad else '%s uses the checksum kept in %s.%s (line %s) without having computed it in this call on every path: the '
                          'stored value was computed from the content of an earlier call and is stale once anything it covers changed '
                          '(stores: %s)' % (g.qual, cq.split('.')[-1], attr, ', '.join(str(b.lineno) for b in bad),
                                            ', '.join('%s line %d' % (fi.qual, w.stmt.lineno) for fi, w, _v in sts))))
    return obs


@rule('SA-CSUM.fresh.hybrid')
@props('C12')
def csum_hybrid(ctx):
    return _run(ctx, 'hybrid', 'SA-CSUM.fresh.hybrid')


@rule('SA-CSUM.fresh.eltorito')
@props('C11')
def csum_eltorito(ctx):
    return _run(ctx, 'eltorito', 'SA-CSUM.fresh.eltorito')


@rule('SA-CSUM.fresh.udf')
@props('C10')
def csum_udf(ctx):
    return _run(ctx, 'udf', 'SA-CSUM.fresh.udf')
