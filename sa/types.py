"""Expression typing and call resolution from PEP-484 type comments.

Flow-insensitive per function: the type of a local is the union of what is
ever assigned to it (+ its declared type).  With no inheritance in the package
that is enough to resolve almost every method call to one callee, or to a small
candidate set for Union-typed receivers.
"""
import ast

from .model import (ANY, NONE, INT, BYTES, STR, BOOL, mk_union, type_classes,
                    elem_type, strip_opt, norm, AnalysisError)

_BUILTIN_RET = {
    'len': INT, 'int': INT, 'ord': INT, 'min': ANY, 'max': ANY, 'abs': INT,
    'str': STR, 'bytes': BYTES, 'bytearray': BYTES, 'bool': BOOL,
    'isinstance': BOOL, 'hasattr': BOOL, 'sum': INT, 'round': INT,
    'open': ('ext', 'IO'), 'range': ('list', INT), 'sorted': None, 'list': None,
    'reversed': None, 'tuple': None, 'set': None, 'enumerate': None, 'zip': None,
}

_STR_METHODS_RET = {
    'encode': BYTES, 'decode': STR, 'upper': None, 'lower': None, 'strip': None,
    'rstrip': None, 'lstrip': None, 'ljust': None, 'rjust': None, 'replace': None,
    'split': 'list', 'rsplit': 'list', 'join': None, 'startswith': BOOL,
    'endswith': BOOL, 'find': INT, 'rfind': INT, 'index': INT, 'count': INT,
    'format': None, 'partition': 'list', 'rpartition': 'list', 'isdigit': BOOL,
    'title': None, 'hex': STR,
}


class Call:
    """One resolved (or unresolved) call site."""
    __slots__ = ('node', 'caller', 'callees', 'kind', 'recv', 'name', 'candidates')

    def __repr__(self):
        return '<Call %s -> %s>' % (norm(self.node.func), [c.qual for c in self.callees])


class Typer:
    def __init__(self, model):
        self.m = model
        self.env_cache = {}
        self._attr_done = False
        self._in_attr = set()
        self.calls_cache = {}

    # ------------------------------------------------------------ attr types
    def attr_type(self, cqual, attr):
        ci = self.m.classes.get(cqual)
        if ci is None:
            return ANY
        if attr in ci.attr_types:
            return ci.attr_types[attr]
        key = (cqual, attr)
        if key in self._in_attr:
            return ANY
        pend = self.m._pending_attr.get(cqual, {}).get(attr)
        if not pend:
            if attr in ci.consts:
                t = self._const_type(ci.consts[attr])
                ci.attr_types[attr] = t
                return t
            return ANY
        self._in_attr.add(key)
        try:
            ts = []
            for fi, val in pend:
                t = self.expr_type(val, fi)
                if t is not None:
                    ts.append(t)
            # an attribute that is assigned None somewhere and X elsewhere is Optional[X]
            non_none = [t for t in ts if t != NONE]
            if not non_none:
                t = NONE if ts else ANY
            else:
                t = mk_union(non_none)
                if len(non_none) != len(ts) and t != ANY:
                    t = ('opt', t)
            ci.attr_types[attr] = t
            return t
        finally:
            self._in_attr.discard(key)

    def _const_type(self, node):
        if isinstance(node, ast.Constant):
            v = node.value
            if isinstance(v, bool):
                return BOOL
            if isinstance(v, int):
                return INT
            if isinstance(v, bytes):
                return BYTES
            if isinstance(v, str):
                return STR
        return ANY

    # ----------------------------------------------------------- local types
    def env(self, fi):
        """name -> type for the locals of fi (flow-insensitive)."""
        e = self.env_cache.get(fi.qual)
        if e is not None:
            return e
        e = {}
        self.env_cache[fi.qual] = e
        mi = self.m.modules[fi.module]
        for p, t in fi.ptypes.items():
            e[p] = t
        # enclosing function's locals are visible
        if fi.parent is not None:
            for k, v in self.env(fi.parent).items():
                e.setdefault(k, v)
        declared = set(fi.ptypes)
        assigns = []
        appends = []
        for st in self._own_nodes(fi.node):
            if isinstance(st, ast.Assign):
                if st.type_comment:
                    try:
                        t = self.m.conv_type(ast.parse(st.type_comment, mode='eval').body, mi, fi.cls)
                        for tg in st.targets:
                            if isinstance(tg, ast.Name):
                                e[tg.id] = t
                                declared.add(tg.id)
                        continue
                    except SyntaxError:
                        pass
                for tg in st.targets:
                    assigns.append((tg, st.value, 'assign'))
            elif isinstance(st, ast.AnnAssign) and isinstance(st.target, ast.Name):
                e[st.target.id] = self.m.conv_type(st.annotation, mi, fi.cls)
                declared.add(st.target.id)
            elif isinstance(st, (ast.For, ast.comprehension)):
                assigns.append((st.target, st.iter, 'iter'))
            elif isinstance(st, ast.With):
                for it in st.items:
                    if it.optional_vars is not None:
                        assigns.append((it.optional_vars, it.context_expr, 'with'))
            elif isinstance(st, ast.NamedExpr):
                assigns.append((st.target, st.value, 'assign'))
            elif isinstance(st, ast.Call) and isinstance(st.func, ast.Attribute) and \
                    isinstance(st.func.value, ast.Name) and st.args and \
                    st.func.attr in ('append', 'appendleft', 'add', 'extend', 'insert'):
                appends.append((st.func.value.id, st.func.attr, st.args[-1]))
        assigns.sort(key=lambda a: (getattr(a[1], 'lineno', 0), getattr(a[1], 'col_offset', 0)))
        # iterate so that chains a = f(); b = a.x resolve
        for _ in range(10):
            acc = {}
            for tg, val, kind in assigns:
                vt = self.expr_type(val, fi)
                if kind == 'iter':
                    vt = self._iter_elem(val, vt, fi)
                elif kind == 'with':
                    vt = self._with_type(val, vt, fi)
                self._bind(tg, vt, acc)
            changed = False
            for k, ts in list(acc.items()):
                # element types of containers built by append/extend
                for i, t in enumerate(ts):
                    if t is not None and t[0] in ('list', 'deque', 'set') and t[1] == ANY:
                        ets = []
                        for nm, meth, arg in appends:
                            if nm == k:
                                at = self.expr_type(arg, fi)
                                if meth == 'extend':
                                    at = elem_type(at)
                                ets.append(at)
                        if ets:
                            ts[i] = (t[0], mk_union(ets))
            for k, ts in acc.items():
                if k in declared:
                    continue
                non_none = [t for t in ts if t != NONE]
                if not non_none:
                    t = NONE
                else:
                    t = mk_union(non_none)
                    if len(non_none) != len(ts) and t != ANY:
                        t = ('opt', t)
                if e.get(k) != t:
                    e[k] = t
                    changed = True
            if not changed:
                break
        return e

    def yield_type(self, fi):
        c = getattr(self, '_yield_cache', None)
        if c is None:
            c = self._yield_cache = {}
        if fi.qual in c:
            return c[fi.qual]
        c[fi.qual] = ANY
        ts = []
        for n in self._own_nodes(fi.node):
            if isinstance(n, ast.Yield) and n.value is not None:
                ts.append(self.expr_type(n.value, fi))
            elif isinstance(n, ast.YieldFrom):
                ts.append(elem_type(self.expr_type(n.value, fi)))
        c[fi.qual] = mk_union(ts) if ts else ANY
        return c[fi.qual]

    def _own_nodes(self, fnode):
        """All nodes of the function body except those inside nested defs/classes."""
        stack = list(ast.iter_child_nodes(fnode))
        while stack:
            n = stack.pop()
            if isinstance(n, (ast.FunctionDef, ast.AsyncFunctionDef, ast.ClassDef, ast.Lambda)):
                continue
            yield n
            stack.extend(ast.iter_child_nodes(n))

    def _bind(self, tg, vt, acc):
        if isinstance(tg, ast.Name):
            acc.setdefault(tg.id, []).append(vt if vt is not None else ANY)
        elif isinstance(tg, (ast.Tuple, ast.List)):
            base = strip_opt(vt) if vt else ANY
            for i, el in enumerate(tg.elts):
                if base[0] == 'tuple' and i < len(base[1]) and len(base[1]) == len(tg.elts):
                    self._bind(el, base[1][i], acc)
                elif base[0] == 'tuple' and len(base[1]) != len(tg.elts):
                    self._bind(el, ANY, acc)
                else:
                    self._bind(el, elem_type(base) if base[0] in ('list', 'tuple') else ANY, acc)
        elif isinstance(tg, ast.Starred):
            self._bind(tg.value, ANY, acc)

    def _iter_elem(self, val, vt, fi):
        # enumerate(x) / zip / reversed / sorted
        if isinstance(val, ast.Call) and isinstance(val.func, ast.Name):
            fn = val.func.id
            if fn == 'enumerate' and val.args:
                return ('tuple', [INT, elem_type(self.expr_type(val.args[0], fi))])
            if fn == 'zip':
                return ('tuple', [elem_type(self.expr_type(a, fi)) for a in val.args])
            if fn in ('reversed', 'sorted', 'list', 'tuple', 'set', 'iter') and val.args:
                return elem_type(self.expr_type(val.args[0], fi))
            if fn == 'range':
                return INT
        if isinstance(val, ast.Call) and isinstance(val.func, ast.Attribute):
            if val.func.attr in ('items',):
                t = strip_opt(self.expr_type(val.func.value, fi))
                if t[0] == 'dict':
                    return ('tuple', [t[1], t[2]])
            if val.func.attr in ('values',):
                t = strip_opt(self.expr_type(val.func.value, fi))
                if t[0] == 'dict':
                    return t[2]
            if val.func.attr in ('keys',):
                t = strip_opt(self.expr_type(val.func.value, fi))
                if t[0] == 'dict':
                    return t[1]
        return elem_type(vt)

    def _with_type(self, val, vt, fi):
        # `with X as y`: result of X.__enter__
        for c in type_classes(vt):
            ci = self.m.classes.get(c)
            if ci and '__enter__' in ci.methods:
                if c == 'inode.InodeOpenData':
                    return ('tuple', [('ext', 'IO'), INT])
                rt = ci.methods['__enter__'].rtype
                return rt or ANY
        return vt

    # ------------------------------------------------------ expression types
    def expr_type(self, node, fi):
        try:
            return self._expr_type(node, fi)
        except RecursionError:
            return ANY

    def _expr_type(self, node, fi):
        mi = self.m.modules[fi.module]
        if isinstance(node, ast.Constant):
            v = node.value
            if v is None:
                return NONE
            if isinstance(v, bool):
                return BOOL
            if isinstance(v, int):
                return INT
            if isinstance(v, bytes):
                return BYTES
            if isinstance(v, str):
                return STR
            return ANY
        if isinstance(node, ast.Name):
            e = self.env_cache.get(fi.qual)
            if e is None:
                e = self.env(fi)
            if node.id in e:
                return e[node.id]
            if node.id in mi.classes:
                return ('type', ('cls', mi.classes[node.id].qual))
            if node.id in mi.aliases:
                return ('mod', mi.aliases[node.id])
            if node.id in mi.consts:
                return self._const_type(mi.consts[node.id])
            # nested class of enclosing function
            f = fi
            while f is not None:
                q = f.qual + '.<locals>.' + node.id
                if q in self.m.classes:
                    return ('type', ('cls', q))
                f = f.parent
            return ANY
        if isinstance(node, ast.Attribute):
            bt = self._expr_type(node.value, fi)
            if bt is None:
                return ANY
            if bt[0] == 'mod':
                mod = self.m.modules.get(bt[1])
                if mod is not None:
                    if node.attr in mod.classes:
                        return ('type', ('cls', mod.classes[node.attr].qual))
                    if node.attr in mod.consts:
                        return self._const_type(mod.consts[node.attr])
                    if node.attr in mod.functions:
                        return ('func', mod.functions[node.attr].qual)
                if bt[1] == '<pkg>':
                    if node.attr in self.m.modules:
                        return ('mod', node.attr)
                    # names re-exported by pycdlib/__init__.py
                    pm = self.m.modules.get('pycdlib')
                    if pm is not None and node.attr in pm.classes:
                        return ('type', ('cls', pm.classes[node.attr].qual))
                return ANY
            if bt[0] == 'type':
                inner = bt[1]
                if inner[0] == 'cls':
                    ci = self.m.classes.get(inner[1])
                    if ci is not None:
                        if node.attr in ci.nested:
                            return ('type', ('cls', ci.nested[node.attr].qual))
                        if node.attr in ci.consts:
                            return self._const_type(ci.consts[node.attr])
                return ANY
            ts = []
            for c in type_classes(bt):
                ci = self.m.classes.get(c)
                if ci is None:
                    continue
                if node.attr in ci.nested:
                    ts.append(('type', ('cls', ci.nested[node.attr].qual)))
                    continue
                m = ci.methods.get(node.attr)
                if m is not None and m.is_property:
                    ts.append(m.rtype or ANY)
                    continue
                if m is not None:
                    ts.append(('func', m.qual))
                    continue
                ts.append(self.attr_type(c, node.attr))
            if ts:
                return mk_union(ts)
            return ANY
        if isinstance(node, ast.Call):
            callees, kind = self._resolve(node, fi)
            if kind == 'ctor':
                return ('cls', callees)
            if kind in ('func', 'method') and callees:
                rts = []
                for c in callees:
                    rt = c.rtype if c.rtype is not None else ANY
                    if rt in (('ext', 'Generator'), ('gen', ANY)):
                        rt = ('gen', self.yield_type(c))
                    rts.append(rt)
                return mk_union(rts)
            return self._builtin_call_type(node, fi)
        if isinstance(node, ast.Subscript):
            bt = strip_opt(self._expr_type(node.value, fi))
            if isinstance(node.slice, ast.Slice):
                return bt
            if bt[0] == 'tuple':
                if isinstance(node.slice, ast.Constant) and isinstance(node.slice.value, int):
                    i = node.slice.value
                    if -len(bt[1]) <= i < len(bt[1]):
                        return bt[1][i]
                return mk_union(bt[1])
            if bt[0] == 'dict':
                return bt[2]
            if bt[0] in ('list', 'deque'):
                return bt[1]
            if bt == BYTES:
                return INT
            if bt == STR:
                return STR
            return ANY
        if isinstance(node, ast.BinOp):
            lt = self._expr_type(node.left, fi)
            rt = self._expr_type(node.right, fi)
            if isinstance(node.op, ast.Mod) and lt in (STR, BYTES):
                return lt
            if isinstance(node.op, ast.Add) and lt and lt[0] in ('list',):
                return lt
            if lt in (BYTES, STR):
                return lt
            if rt in (BYTES, STR) and isinstance(node.op, ast.Mult):
                return rt
            if lt == INT or rt == INT:
                return INT
            return lt if lt != ANY else rt
        if isinstance(node, ast.BoolOp):
            ts = [self._expr_type(v, fi) for v in node.values]
            return mk_union(ts)
        if isinstance(node, ast.IfExp):
            return mk_union([self._expr_type(node.body, fi), self._expr_type(node.orelse, fi)])
        if isinstance(node, (ast.Compare,)):
            return BOOL
        if isinstance(node, ast.UnaryOp):
            if isinstance(node.op, ast.Not):
                return BOOL
            return self._expr_type(node.operand, fi)
        if isinstance(node, (ast.List, ast.ListComp)):
            if isinstance(node, ast.List):
                return ('list', mk_union([self._expr_type(e, fi) for e in node.elts]) if node.elts else ANY)
            return ('list', ANY)
        if isinstance(node, ast.Tuple):
            return ('tuple', [self._expr_type(e, fi) for e in node.elts])
        if isinstance(node, (ast.Dict, ast.DictComp)):
            if isinstance(node, ast.Dict) and node.keys:
                return ('dict', mk_union([self._expr_type(k, fi) for k in node.keys if k is not None]),
                        mk_union([self._expr_type(v, fi) for v in node.values]))
            return ('dict', ANY, ANY)
        if isinstance(node, (ast.Set, ast.SetComp)):
            return ('set', ANY)
        if isinstance(node, ast.JoinedStr):
            return STR
        if isinstance(node, ast.NamedExpr):
            return self._expr_type(node.value, fi)
        if isinstance(node, ast.Starred):
            return self._expr_type(node.value, fi)
        return ANY

    def _builtin_call_type(self, node, fi):
        f = node.func
        if isinstance(f, ast.Name) and f.id == 'getattr' and len(node.args) >= 2:
            bt = self._expr_type(node.args[0], fi)
            ts = []
            for c in type_classes(bt):
                ci = self.m.classes.get(c)
                if ci is None:
                    continue
                if isinstance(node.args[1], ast.Constant):
                    ts.append(self.attr_type(c, node.args[1].value))
                else:
                    # dynamic name: any slot of the class that holds a package object
                    for sl in (ci.slots or ()):
                        t = self.attr_type(c, sl)
                        if type_classes(t):
                            ts.append(t)
            return mk_union(ts) if ts else ANY
        if isinstance(f, ast.Name):
            r = _BUILTIN_RET.get(f.id, 'missing')
            if r == 'missing':
                return ANY
            if r is None:
                if f.id in ('sorted', 'list', 'reversed') and node.args:
                    return ('list', elem_type(self._expr_type(node.args[0], fi)))
                if f.id == 'tuple' and node.args:
                    return ('list', elem_type(self._expr_type(node.args[0], fi)))
                if f.id == 'set':
                    return ('set', elem_type(self._expr_type(node.args[0], fi)) if node.args else ANY)
                return ANY
            if f.id in ('min', 'max') and node.args:
                return self._expr_type(node.args[0], fi)
            return r
        if isinstance(f, ast.Attribute):
            fn = norm(f)
            if fn in ('struct.pack',):
                return BYTES
            if fn in ('struct.unpack', 'struct.unpack_from'):
                return ('tuple_any',)
            if fn == 'struct.calcsize':
                return INT
            if fn in ('collections.deque',):
                if node.args:
                    return ('deque', elem_type(self._expr_type(node.args[0], fi)))
                return ('deque', ANY)
            if fn in ('time.time',):
                return ('prim', 'float')
            if fn in ('os.path.join', 'os.path.basename', 'os.path.dirname', 'os.path.normpath'):
                return STR
            bt = strip_opt(self._expr_type(f.value, fi))
            m = f.attr
            if bt in (STR, BYTES):
                r = _STR_METHODS_RET.get(m, 'missing')
                if r == 'missing':
                    return ANY
                if r is None:
                    return bt
                if r == 'list':
                    return ('list', bt)
                return r
            if bt[0] in ('list', 'deque'):
                if m in ('pop', 'popleft'):
                    return bt[1]
                if m == 'copy':
                    return bt
                if m in ('index', 'count'):
                    return INT
                return NONE if m in ('append', 'appendleft', 'extend', 'insert', 'sort', 'remove', 'clear') else ANY
            if bt[0] == 'dict':
                if m in ('get', 'pop', 'setdefault'):
                    return ('opt', bt[2]) if m == 'get' and len(node.args) < 2 else bt[2]
                if m == 'items':
                    return ('list', ('tuple', [bt[1], bt[2]]))
                if m == 'values':
                    return ('list', bt[2])
                if m == 'keys':
                    return ('list', bt[1])
            if bt == ('ext', 'IO'):
                if m in ('read',):
                    return BYTES
                if m in ('tell', 'seek', 'write', 'readinto'):
                    return INT
        return ANY

    # ------------------------------------------------------- call resolution
    def _resolve(self, node, fi):
        """-> (callees, kind) ; kind in ctor/func/method/builtin/external/unresolved.
        For ctor, callees is the class qual."""
        mi = self.m.modules[fi.module]
        f = node.func
        if isinstance(f, ast.Name):
            n = f.id
            e = self.env_cache.get(fi.qual) or self.env(fi)
            # nested function of this or an enclosing function
            p = fi
            while p is not None:
                q = p.qual + '.<locals>.' + n
                if q in self.m.functions:
                    return [self.m.functions[q]], 'func'
                if q in self.m.classes:
                    return q, 'ctor'
                p = p.parent
            if n in mi.functions and n not in e:
                return [mi.functions[n]], 'func'
            if n in mi.classes and n not in e:
                return mi.classes[n].qual, 'ctor'
            if n in e:
                t = e[n]
                if t and t[0] == 'type' and t[1][0] == 'cls':
                    return t[1][1], 'ctor'
                return [], 'dynamic'
            return [], 'builtin'
        if isinstance(f, ast.Attribute):
            bt = self._expr_type(f.value, fi)
            m = f.attr
            if bt is not None and bt[0] == 'mod' and bt[1] == '<pkg>':
                pm = self.m.modules.get('pycdlib')
                if pm is not None and m in pm.classes:
                    return pm.classes[m].qual, 'ctor'
                return [], 'external'
            if bt is not None and bt[0] == 'mod':
                mod = self.m.modules.get(bt[1])
                if mod is not None:
                    if m in mod.functions:
                        return [mod.functions[m]], 'func'
                    if m in mod.classes:
                        return mod.classes[m].qual, 'ctor'
                    return [], 'unresolved'
                return [], 'external'
            if bt is not None and bt[0] == 'type' and bt[1][0] == 'cls':
                ci = self.m.classes.get(bt[1][1])
                if ci is not None:
                    if m in ci.methods:
                        return [ci.methods[m]], 'method'
                    if m in ci.nested:
                        return ci.nested[m].qual, 'ctor'
                return [], 'unresolved'
            clss = type_classes(bt)
            if clss:
                out = []
                for c in clss:
                    ci = self.m.classes.get(c)
                    if ci is not None and m in ci.methods:
                        out.append(ci.methods[m])
                    elif ci is not None and ci.bases and not any(b.endswith('Exception') for b in ci.bases):
                        pass
                if out:
                    return out, 'method'
                for c in clss:
                    ci = self.m.classes.get(c)
                    if ci is not None and m in ci.nested:
                        return ci.nested[m].qual, 'ctor'
                    if ci is not None:
                        q = ci.qual + '.' + m
                        if q in self.m.classes:
                            return q, 'ctor'
                # method of an external base class (PyCdlibIO(io.RawIOBase)) or attribute holding a callable
                return [], 'external-or-missing'
            if bt is not None and bt[0] in ('prim', 'ext', 'list', 'deque', 'dict', 'set', 'tuple', 'tuple_any', 'gen'):
                return [], 'external'
            if bt is not None and bt[0] == 'opt' and bt[1][0] in ('prim', 'ext', 'list', 'deque', 'dict', 'set', 'tuple'):
                return [], 'external'
            if isinstance(f.value, ast.Name) and f.value.id not in (self.env_cache.get(fi.qual) or {}) \
                    and f.value.id not in mi.aliases and f.value.id not in mi.classes:
                # an imported stdlib module (struct, os, time, ...)
                return [], 'external'
            if isinstance(f.value, ast.Attribute) and isinstance(f.value.value, ast.Name) and \
                    f.value.value.id in ('os', 'sys', 'collections', 'functools', 'logging', 'io'):
                return [], 'external'
            # receiver of unknown type: unique method name in the package?
            cands = self.m.methods_by_name.get(m, [])
            if m in _GENERIC_METHOD_NAMES:
                return [], 'external'
            if len(cands) == 1:
                return list(cands), 'method'
            return [], 'unresolved'
        if isinstance(f, ast.Call):
            return [], 'dynamic'
        return [], 'dynamic'

    def calls(self, fi):
        """All call sites in fi (excluding nested defs), resolved."""
        cs = self.calls_cache.get(fi.qual)
        if cs is not None:
            return cs
        cs = []
        self.env(fi)
        for n in self._own_nodes(fi.node):
            if isinstance(n, ast.Call):
                callees, kind = self._resolve(n, fi)
                c = Call()
                c.node = n
                c.caller = fi
                c.kind = kind
                c.name = n.func.attr if isinstance(n.func, ast.Attribute) else (n.func.id if isinstance(n.func, ast.Name) else '?')
                c.candidates = []
                if kind == 'ctor':
                    ci = self.m.classes.get(callees)
                    c.callees = [ci.methods['__init__']] if ci is not None and '__init__' in ci.methods else []
                    c.recv = callees
                else:
                    c.callees = list(callees)
                    c.recv = None
                    if kind == 'unresolved' and isinstance(n.func, ast.Attribute):
                        c.candidates = list(self.m.methods_by_name.get(n.func.attr, []))
                cs.append(c)
        self.calls_cache[fi.qual] = cs
        return cs

    def resolution_stats(self):
        tot = res = 0
        unresolved = []
        for fi in self.m.pkg_functions():
            for c in self.calls(fi):
                if not isinstance(c.node.func, ast.Attribute):
                    continue
                if c.kind in ('external', 'builtin'):
                    continue
                tot += 1
                if c.kind in ('method', 'func', 'ctor'):
                    res += 1
                else:
                    unresolved.append((fi.qual, norm(c.node.func), c.kind, c.node.lineno))
        return tot, res, unresolved


_GENERIC_METHOD_NAMES = {
    'append', 'extend', 'insert', 'pop', 'popleft', 'appendleft', 'remove', 'sort',
    'clear', 'copy', 'get', 'items', 'keys', 'values', 'read', 'write', 'seek', 'tell',
    'close', 'encode', 'decode', 'upper', 'lower', 'split', 'join', 'startswith',
    'endswith', 'strip', 'rstrip', 'lstrip', 'ljust', 'rjust', 'format', 'index',
    'count', 'update', 'add', 'find', 'rfind', 'replace', 'fileno', 'flush', 'readinto',
    'cache_clear', 'group', 'match', 'search', 'sub', 'subn', 'isdigit', 'rsplit',
    'setdefault', 'discard', 'reverse', 'title', 'hexdigest', 'digest', 'truncate',
    'rpartition', 'partition', 'readline', 'readlines', 'getvalue', 'from_buffer',
    'cache_info', 'debug', 'warning', 'error', 'info', 'release', 'acquire',
}
