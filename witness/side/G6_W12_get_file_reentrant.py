"""
get_file_from_iso_fp() positions the shared image file object only once,
before the copy loop.  If outfp.write() itself reads another file from the
same PyCdlib object and the file needs more than one block, the extracted
data is wrong from the second block on.
"""
import io
import sys

sys.path.insert(0, sys.argv[1])
import pycdlib  # noqa: E402


def main():
    data_a = bytes(bytearray(range(256))) * 40
    iso = pycdlib.PyCdlib()
    iso.new()
    iso.add_fp(io.BytesIO(data_a), len(data_a), '/A.;1')
    iso.add_fp(io.BytesIO(b'B' * 5000), 5000, '/B.;1')
    written = io.BytesIO()
    iso.write_fp(written)
    iso.close()

    iso = pycdlib.PyCdlib()
    iso.open_fp(io.BytesIO(written.getvalue()))

    class Reentrant(io.BytesIO):
        """An output file that looks at another file of the ISO for every block."""
        def write(self, b):
            tmp = io.BytesIO()
            iso.get_file_from_iso_fp(tmp, iso_path='/B.;1')
            return io.BytesIO.write(self, b)

    out = Reentrant()
    iso.get_file_from_iso_fp(out, iso_path='/A.;1', blocksize=1000)
    iso.close()

    got = out.getvalue()
    if got != data_a:
        first_bad = next((i for i in range(min(len(got), len(data_a))) if got[i] != data_a[i]), min(len(got), len(data_a)))
        print('extracted /A.;1 is wrong from byte %d on (%d bytes extracted, %d expected)'
              % (first_bad, len(got), len(data_a)))
        return 1
    print('OK')
    return 0


if __name__ == '__main__':
    sys.exit(main())
