"""
Witness F: directories that overlap each other.  Only the *start* extent of a
directory has to be unique, so N directory records (and path table records)
whose extents step sector by sector through one shared area of file records
make open() create O(N * area) record objects: time and memory quadratic in
the size of the image.

The images are built with the library (N empty directories and one directory
full of zero-length files) and then the extents and lengths of the N
directories are patched, in the root directory and in both path tables, so
that directory k covers the shared area from its k-th sector to its end.

The witness opens two such images, the second twice the size of the first,
in child processes and compares their peak memory.  Proportionate use means
about twice the memory for twice the image; the defect shows as four times.
It is also reported when the open is refused (which is a proper outcome).

Usage: python W6_overlapping_dirs.py <path-to-checkout>
"""
import io
import os
import shutil
import struct
import subprocess
import sys
import tempfile

CHILD = r'''
import resource, sys, time
sys.path.insert(0, sys.argv[1])
import pycdlib
from pycdlib import pycdlibexception
base = resource.getrusage(resource.RUSAGE_SELF).ru_maxrss
start = time.time()
iso = pycdlib.PyCdlib()
try:
    iso.open(sys.argv[2])
    res = 'opened'
except (pycdlibexception.PyCdlibInvalidISO, pycdlibexception.PyCdlibInvalidInput, pycdlibexception.PyCdlibInternalError) as e:
    res = 'refused'
except MemoryError:
    res = 'MemoryError'
peak = resource.getrusage(resource.RUSAGE_SELF).ru_maxrss
print('%s %d %.1f' % (res, peak - base, time.time() - start))
'''


def records(data, start, length):
    """Yield (offset, reclen) of the directory records in data[start:start+length]."""
    offset = start
    while offset < start + length:
        reclen = data[offset]
        if reclen == 0:
            offset = (offset // 2048 + 1) * 2048
            continue
        yield offset, reclen
        offset += reclen


def build(checkout, num_sectors):
    sys.path.insert(0, checkout)
    import pycdlib  # pylint: disable=import-outside-toplevel

    iso = pycdlib.PyCdlib()
    iso.new(interchange_level=3)
    iso.add_directory('/FILES')
    # 42 byte records ('NNNNN.;1'), 48 to the sector
    num_files = 48 * num_sectors
    for i in range(num_files):
        iso.add_fp(io.BytesIO(b''), 0, '/FILES/%05d.;1' % (i))
    for k in range(1, num_sectors):
        iso.add_directory('/D%05d' % (k))
    out = io.BytesIO()
    iso.write_fp(out)
    files_rec = iso.get_record(iso_path='/FILES')
    files_extent = files_rec.extent_location()
    files_len = files_rec.get_data_length()
    iso.close()
    good = out.getvalue()
    data = bytearray(good)
    area_sectors = files_len // 2048
    if area_sectors < num_sectors:
        raise Exception('unexpected size of /FILES: %d' % (files_len))

    # Patch the directory records in the root directory ...
    root_extent, root_len = struct.unpack_from('<L4xL', data, 16 * 2048 + 156 + 2)
    old_to_new = {}
    for offset, reclen in records(data, root_extent * 2048, root_len):
        name = bytes(data[offset + 33:offset + 33 + data[offset + 32]])
        if not name.startswith(b'D') or len(name) != 6:
            continue
        k = int(name[1:])
        old_extent, = struct.unpack_from('<L', data, offset + 2)
        new_extent = files_extent + k
        new_len = (area_sectors - k) * 2048
        old_to_new[old_extent] = new_extent
        struct.pack_into('<L', data, offset + 2, new_extent)
        struct.pack_into('>L', data, offset + 6, new_extent)
        struct.pack_into('<L', data, offset + 10, new_len)
        struct.pack_into('>L', data, offset + 14, new_len)
    # ... and the path tables.
    ptbl_size, = struct.unpack_from('<L', data, 16 * 2048 + 132)
    ptbl_le, = struct.unpack_from('<L', data, 16 * 2048 + 140)
    ptbl_be, = struct.unpack_from('>L', data, 16 * 2048 + 148)
    for table, fmt in ((ptbl_le, '<L'), (ptbl_be, '>L')):
        offset = table * 2048
        while offset < table * 2048 + ptbl_size:
            len_di = data[offset]
            extent, = struct.unpack_from(fmt, data, offset + 2)
            if extent in old_to_new:
                struct.pack_into(fmt, data, offset + 2, old_to_new[extent])
            offset += 8 + len_di + (len_di % 2)
    return good, bytes(data)


def main():
    checkout = sys.argv[1]
    tmpdir = tempfile.mkdtemp(prefix='w6_')
    results = []
    try:
        child = os.path.join(tmpdir, 'child.py')
        with open(child, 'w') as outfp:  # pylint: disable=unspecified-encoding
            outfp.write(CHILD)
        for num_sectors in (60, 120):
            good, data = build(checkout, num_sectors)
            path = os.path.join(tmpdir, 'good%d.iso' % (num_sectors))
            with open(path, 'wb') as outfp:
                outfp.write(good)
            out = subprocess.check_output([sys.executable, child, checkout, path])
            if out.decode('ascii').split()[0] != 'opened':
                print('the image with %d sectors of files, before the directories are made to overlap: %s' % (num_sectors, out.decode('ascii').strip()))
                return 1
            path = os.path.join(tmpdir, 'overlap%d.iso' % (num_sectors))
            with open(path, 'wb') as outfp:
                outfp.write(data)
            out = subprocess.check_output([sys.executable, child, checkout, path])
            res, peak_kb, secs = out.decode('ascii').split()
            results.append((num_sectors, len(data), res, int(peak_kb), float(secs)))
    finally:
        shutil.rmtree(tmpdir)

    for num_sectors, size, res, peak_kb, secs in results:
        print('shared area of %d sectors, image of %d bytes: %s, %d KiB more peak memory, %.1f s' % (num_sectors, size, res, peak_kb, secs))

    (unused1, size1, res1, peak1, unused2), (unused3, size2, res2, peak2, unused4) = results
    if 'MemoryError' in (res1, res2):
        print('MemoryError escaped')
        return 1
    size_ratio = float(size2) / size1
    mem_ratio = float(peak2) / max(peak1, 1)
    print('image grows by a factor of %.2f, memory by a factor of %.2f' % (size_ratio, mem_ratio))
    # Allow for a generous constant: up to 100 bytes of memory for each byte of the image
    if peak2 * 1024 > 100 * size2 and mem_ratio > 1.5 * size_ratio:
        print('memory use grows faster than the image and is %d times the size of the image' % (peak2 * 1024 // size2))
        return 1
    print('OK')
    return 0


if __name__ == '__main__':
    sys.exit(main())
