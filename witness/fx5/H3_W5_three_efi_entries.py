"""
Witness E: an ISO with three El Torito entries for the EFI platform that is
made an isohybrid with add_isohybrid(efi=True).  Either the call is refused
with PyCdlibInvalidInput (and the ISO stays usable), or the ISO can be written
and the hybrid data describes the image: valid MBR, GPT partition 2 delimits
the first EFI boot image.  What must not happen is that the call is accepted
and every later write fails with PyCdlibInternalError.

Usage: python W5_three_efi_entries.py <path-to-checkout>
"""
import io
import struct
import sys

sys.path.insert(0, sys.argv[1])

import pycdlib  # noqa: E402
from pycdlib import pycdlibexception  # noqa: E402


def build(num_efi, mac):
    iso = pycdlib.PyCdlib()
    iso.new()
    isolinuxstr = b'\x00' * 0x40 + b'\xfb\xc0\x78\x70'
    iso.add_fp(io.BytesIO(isolinuxstr), len(isolinuxstr), '/ISOLINUX.BIN;1')
    iso.add_eltorito('/ISOLINUX.BIN;1', '/BOOT.CAT;1', boot_load_size=4, boot_info_table=True)
    for i in range(num_efi):
        content = bytes(bytearray([ord('a') + i])) * (2048 * (i + 1))
        iso.add_fp(io.BytesIO(content), len(content), '/EFI%d.IMG;1' % (i))
        iso.add_eltorito('/EFI%d.IMG;1' % (i), efi=True)
    return iso


def check_image(data, iso, label, mac, problems):
    if data[510:512] != b'\x55\xaa':
        problems.append('%s: no MBR signature' % (label))
    active = [i for i in range(4) if bytearray(data[446 + 16 * i:447 + 16 * i])[0] == 0x80]
    if len(active) != 1:
        problems.append('%s: %d active MBR partitions' % (label, len(active)))
    if data[512:520] != b'EFI PART':
        problems.append('%s: no primary GPT header' % (label))
        return
    # The first EFI image is what GPT partition 2 (and MBR slot 2) describe.
    efi0 = iso.get_record(iso_path='/EFI0.IMG;1')
    part_lba, = struct.unpack_from('<Q', data, 512 + 72)
    first, last = struct.unpack_from('<QQ', data, part_lba * 512 + 128 + 32)
    if first != efi0.extent_location() * 4:
        problems.append('%s: GPT partition 2 starts at LBA %d, the first EFI image at %d' % (label, first, efi0.extent_location() * 4))
    mbr_lba, mbr_count = struct.unpack_from('<LL', data, 446 + 16 + 8)
    if mbr_lba != efi0.extent_location() * 4:
        problems.append('%s: MBR partition 2 starts at LBA %d, the first EFI image at %d' % (label, mbr_lba, efi0.extent_location() * 4))
    if last - first + 1 != mbr_count:
        problems.append('%s: GPT partition 2 has %d sectors, MBR partition 2 %d' % (label, last - first + 1, mbr_count))
    if mac:
        efi1 = iso.get_record(iso_path='/EFI1.IMG;1')
        first, last = struct.unpack_from('<QQ', data, part_lba * 512 + 2 * 128 + 32)
        if first != efi1.extent_location() * 4:
            problems.append('%s: GPT partition 3 starts at LBA %d, the second EFI image at %d' % (label, first, efi1.extent_location() * 4))


def main():
    problems = []
    for num_efi, mac in ((1, False), (2, False), (2, True), (3, False), (3, True), (4, True)):
        label = '%d EFI entries, add_isohybrid(%s)' % (num_efi, 'mac=True' if mac else 'efi=True')
        iso = build(num_efi, mac)
        accepted = True
        try:
            if mac:
                iso.add_isohybrid(mac=True)
            else:
                iso.add_isohybrid(efi=True)
        except pycdlibexception.PyCdlibInvalidInput:
            accepted = False

        # Whether accepted or refused, the object must remain usable.
        try:
            out = io.BytesIO()
            iso.write_fp(out)
            if accepted:
                check_image(out.getvalue(), iso, label, mac, problems)
                # and the image can be opened and written again
                iso2 = pycdlib.PyCdlib()
                iso2.open_fp(io.BytesIO(out.getvalue()))
                out2 = io.BytesIO()
                iso2.write_fp(out2)
                iso2.close()
                if out2.getvalue() != out.getvalue():
                    problems.append('%s: open + write changes the image' % (label))
            elif out.getvalue()[510:512] == b'\x55\xaa':
                problems.append('%s: refused, but a hybrid MBR is written' % (label))
            if num_efi <= 2 and not accepted:
                problems.append('%s: refused, although the documentation allows it' % (label))
        except pycdlibexception.PyCdlibException as e:
            problems.append('%s: add_isohybrid %s, then write_fp raises %s: %s' % (label, 'accepted' if accepted else 'refused', type(e).__name__, e))
        iso.close()

    # The same state reached the other way round: hybrid first, then the
    # third EFI entry; and an edit of an image that was opened.
    label = 'add_isohybrid(mac=True) with 2 EFI entries, then a third add_eltorito(efi=True)'
    iso = build(2, True)
    iso.add_isohybrid(mac=True)
    iso.add_fp(io.BytesIO(b'c' * 6144), 6144, '/EFI2.IMG;1')
    accepted = True
    try:
        iso.add_eltorito('/EFI2.IMG;1', efi=True)
    except pycdlibexception.PyCdlibInvalidInput:
        accepted = False
    try:
        out = io.BytesIO()
        iso.write_fp(out)
        check_image(out.getvalue(), iso, label, True, problems)
        if accepted:
            label = 'image with 3 EFI entries and hybrid opened, file added'
            iso2 = pycdlib.PyCdlib()
            iso2.open_fp(io.BytesIO(out.getvalue()))
            iso2.add_fp(io.BytesIO(b'new\n'), 4, '/AAA.;1')
            out2 = io.BytesIO()
            iso2.write_fp(out2)
            check_image(out2.getvalue(), iso2, label, True, problems)
            iso2.close()
    except pycdlibexception.PyCdlibException as e:
        problems.append('%s: add_eltorito %s, then write_fp raises %s: %s' % (label, 'accepted' if accepted else 'refused', type(e).__name__, e))
    iso.close()

    if problems:
        for p in problems:
            print(p)
        return 1
    print('OK')
    return 0


if __name__ == '__main__':
    sys.exit(main())
