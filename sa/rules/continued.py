"""SA-SIB.continued: whenever a further record of a chain is started, the previous one is marked "continued"
(C08; the SL, AL and NM records of Rock Ridge).

A symbolic link target, an attribute list or a name that does not fit one SUSP entry is spread over several entries of
the same kind; every entry but the last carries the CONTINUE flag, and a reader stops at the first entry without it.
The three builders have the same shape: inside a loop, `curr = Cls()` starts the next entry after the previous one
was closed with `curr.set_continued()`.  The mark belongs to *starting another entry*, so it has to be made on every
path to the re-binding - in the same block, not inside a condition about something else (whether the entry boundary
falls inside a component only decides the additional mark of the last component).  Marked under such a condition, a
target whose boundary falls between two components is written with a clear flag and reads back truncated, while the
library's own reader, which ignores the entry-level flag, still sees the whole target.

Decided for every `V = Cls()` inside a loop where Cls has a `set_continued` method and the function calls
`V.set_continued()` somewhere (a builder; the parser creates entries in a loop too but never marks them): a call
`V.set_continued()` precedes it in the same block (or one level up), guarded at most by `V is not None`.
"""
import ast

from ..registry import rule, props
from ..report import Ob
from ..model import norm, AnalysisError


def _in_loop(par, node, fn):
    cur = node
    while cur is not None and cur is not fn:
        cur = par.get(id(cur))
        if isinstance(cur, (ast.For, ast.While)):
            return cur
    return None


@rule('SA-SIB.continued')
@props('C08')
def continued(ctx):
    obs = []
    n = 0
    for fi in ctx.m.pkg_functions():
        if fi.module != 'rockridge':
            continue
        par = ctx.parents(fi)
        for st in ctx.own_nodes(fi):
            if not (isinstance(st, ast.Assign) and len(st.targets) == 1 and isinstance(st.targets[0], ast.Name) and isinstance(st.value, ast.Call) and not st.value.args):
                continue
            cs, kind = ctx.t._resolve(st.value, fi)
            if kind != 'ctor':
                continue
            ci = ctx.m.classes.get(cs)
            if ci is None or 'set_continued' not in ci.methods:
                continue
            loop = _in_loop(par, st, fi.node)
            if loop is None:
                continue
            v = st.targets[0].id
            # builders only: the function marks entries of this chain as continued somewhere (a parser never does)
            if not any(isinstance(c, ast.Call) and isinstance(c.func, ast.Attribute) and c.func.attr == 'set_continued' and
                       isinstance(c.func.value, ast.Name) and c.func.value.id == v for c in ctx.own_nodes(fi)):
                continue
            n += 1
            # the statements before st in its block, and before its parent statement one level up (within the loop)
            ok = False
            cur = st
            for _level in (0, 1):
                p = par.get(id(cur))
                blk = None
                for fld in ('body', 'orelse'):
                    b = getattr(p, fld, None)
                    if isinstance(b, list) and any(x is cur for x in b):
                        blk = b
                if blk is None:
                    break
                for x in blk:
                    if x is cur:
                        break
                    if _marks(x, v):
                        ok = True
                if ok or p is loop or not isinstance(p, ast.If):
                    break
                cur = p
            obs.append(Ob('SA-SIB.continued', '%s|%s = %s() inside the loop' % (fi.qual, v, norm(st.value.func)), ok, ctx.loc(fi, st),
                          '' if ok else 'a further %s entry is started here, but `%s.set_continued()` is not called on every path before it (it is missing, or sits under a '
                          'condition about something else): an entry that is followed by another one is written without the CONTINUE flag, and a reader that '
                          'follows the standard stops there - the symbolic link target, attribute list or name reads back truncated' % (norm(st.value.func), v)))
    if n < 2:
        raise AnalysisError('anchor-vanished: chained Rock Ridge entries started inside a loop (%d)' % n)
    return obs


def _marks(x, v):
    """x is `V.set_continued()` or `if V is not None: V.set_continued()`"""
    def call(y):
        return isinstance(y, ast.Expr) and isinstance(y.value, ast.Call) and isinstance(y.value.func, ast.Attribute) and \
            y.value.func.attr == 'set_continued' and isinstance(y.value.func.value, ast.Name) and y.value.func.value.id == v
    if call(x):
        return True
    if isinstance(x, ast.If) and not x.orelse and norm(x.test) in ('%s is not None' % v, v) and any(call(y) for y in x.body):
        return True
    return False
