"""SA-PARSE.header_fits: a loop that walks records with a fixed-size header consumes every record whose header fits
(C20; the UDF path components read by pycdlib-extract-files).

        while off + c OP len(data):            # OP is <= or <
            ... data[off + k] ...               # header fields
            off += H + <variable part>

The test guarantees g bytes from `off` on (g = c for <=, c + 1 for <).  Two necessary conditions are decided:
  completeness   g <= H: the loop must not ask for more than the fixed header before it looks at a record - a record that
                 consists of the header alone (a `..`, `.` or root component has no identifier) and ends the buffer is
                 otherwise dropped, and a symbolic link `lib/current/..` is extracted as `lib/current`;
  safety         every constant header index k read in the body is below g (no IndexError on a truncated buffer).
Loops whose advance has no constant part (the record parser returns the length) are not instances.
"""
import ast

from ..registry import rule, props
from ..report import Ob
from ..model import norm


def _const_plus(e):
    """(constant part, has variable part) of an additive expression"""
    if isinstance(e, ast.Constant) and isinstance(e.value, int):
        return e.value, False
    if isinstance(e, ast.BinOp) and isinstance(e.op, ast.Add):
        a, av = _const_plus(e.left)
        b, bv = _const_plus(e.right)
        return (a or 0) + (b or 0) if (a is not None or b is not None) else None, av or bv or a is None or b is None
    return None, True


@rule('SA-PARSE.header_fits')
@props('C20')
def header_fits(ctx):
    obs = []
    n = 0
    funcs = list(ctx.m.pkg_functions()) + [f for f in ctx.m.functions.values() if f.module.startswith('tool_')]
    for fi in funcs:
        for loop in ctx.own_nodes(fi):
            if not isinstance(loop, ast.While):
                continue
            t = loop.test
            if not (isinstance(t, ast.Compare) and len(t.ops) == 1 and isinstance(t.ops[0], (ast.Lt, ast.LtE)) and
                    isinstance(t.comparators[0], ast.Call) and norm(t.comparators[0].func) == 'len' and len(t.comparators[0].args) == 1):
                continue
            buf = norm(t.comparators[0].args[0])
            left = t.left
            if isinstance(left, ast.Name):
                off, c = left.id, 0
            elif isinstance(left, ast.BinOp) and isinstance(left.op, ast.Add) and isinstance(left.left, ast.Name) and \
                    isinstance(left.right, ast.Constant) and isinstance(left.right.value, int):
                off, c = left.left.id, left.right.value
            else:
                continue
            adv = [st for st in ast.walk(loop) if isinstance(st, ast.AugAssign) and isinstance(st.op, ast.Add) and isinstance(st.target, ast.Name) and st.target.id == off]
            if len(adv) != 1:
                continue
            H, _var = _const_plus(adv[0].value)
            if not H:
                continue
            n += 1
            g = c if isinstance(t.ops[0], ast.LtE) else c + 1
            ks = []
            for x in ast.walk(loop):
                if isinstance(x, ast.Subscript) and norm(x.value) == buf and not isinstance(x.slice, ast.Slice):
                    s = x.slice
                    if isinstance(s, ast.Name) and s.id == off:
                        ks.append(0)
                    elif isinstance(s, ast.BinOp) and isinstance(s.op, ast.Add) and isinstance(s.left, ast.Name) and s.left.id == off and \
                            isinstance(s.right, ast.Constant) and isinstance(s.right.value, int):
                        ks.append(s.right.value)
            why = ''
            if g > H:
                why = ('the loop runs only while %d bytes are left (`%s`), but a record is %d bytes plus a variable part that may be empty: a record that consists of its '
                       'header alone and ends the buffer is never looked at (the last `..`, `.` or `/` component of a symbolic link target is dropped)' % (g, norm(t), H))
            elif ks and max(ks) >= g:
                why = 'the body reads %s[%s + %d] although the test `%s` guarantees only %d bytes' % (buf, off, max(ks), norm(t), g)
            obs.append(Ob('SA-PARSE.header_fits', '%s|while %s' % (fi.qual, norm(t)), not why, ctx.loc(fi, loop), why))
    obs.append(Ob('SA-PARSE.header_fits', 'record loops with a fixed header examined', True, '', '%d' % n))
    return obs
