"""
At interchange levels 2 and 3 mangle_file_for_iso9660() cuts the base name to
30 characters and keeps up to 3 characters of extension, i.e. up to 33
characters of name + extension.  ECMA-119 7.5.2 (quoted in the function's own
comment) allows 30 for the sum.  The library does not check the length at
these levels, so the over-long identifier is recorded.
"""
import io
import sys

sys.path.insert(0, sys.argv[1])

import pycdlib  # noqa: E402 pylint: disable=wrong-import-position
from pycdlib import utils  # noqa: E402 pylint: disable=wrong-import-position


def main():
    problems = []
    for level in (2, 3):
        base, ext = utils.mangle_file_for_iso9660('a' * 40 + '.txt', level)
        ext = ext.split(';')[0]
        if len(base) + len(ext) > 30:
            problems.append('level %d: mangle_file_for_iso9660 gives %d + %d characters' % (level, len(base), len(ext)))

        iso = pycdlib.PyCdlib()
        iso.new(interchange_level=level, rock_ridge='1.09')
        facade = iso.get_rock_ridge_facade()
        facade.add_fp(io.BytesIO(b'a'), 1, '/' + 'a' * 40 + '.txt', 0o100444)
        for child in iso.list_children(iso_path='/'):
            if child.is_dot() or child.is_dotdot():
                continue
            ident = child.file_identifier().split(b';')[0]
            if len(ident.replace(b'.', b'', 1)) > 30:
                problems.append('level %d: identifier %r recorded (%d characters without the dot)' % (level, ident, len(ident) - 1))
        iso.close()

    if problems:
        for problem in problems:
            print(problem)
        return 1
    print('OK')
    return 0


if __name__ == '__main__':
    sys.exit(main())
