"""Observation C: an 8-bit UDF name and a 16-bit UDF name whose stored bytes
happen to be equal (N- is 4E 2D, U+4E2D is 4E 2D) are different names.

Usage: W3_udf_dup_encoding.py <path-to-checkout>
"""
import io
import sys

sys.path.insert(0, sys.argv[1])

import pycdlib
from pycdlib.pycdlibexception import PyCdlibInvalidInput

NARROW = 'N-'
WIDE = u'中'


def names(iso, path):
    for root, dirs, files in iso.walk(udf_path=path):
        return sorted(dirs + files)
    return []


def read(iso, path):
    buf = io.BytesIO()
    iso.get_file_from_iso_fp(buf, udf_path=path)
    return buf.getvalue()


def main():
    problems = []

    for first, second in ((NARROW, WIDE), (WIDE, NARROW)):
        iso = pycdlib.PyCdlib()
        iso.new(udf='2.60')
        iso.add_fp(io.BytesIO(b'first'), 5, '/A.;1', udf_path='/' + first)
        try:
            iso.add_fp(io.BytesIO(b'second'), 6, '/B.;1', udf_path='/' + second)
        except PyCdlibInvalidInput as e:
            problems.append('%r after %r in one UDF directory was refused: %s' % (second, first, e))
            iso.close()
            continue

        out = io.BytesIO()
        iso.write_fp(out)
        iso.close()

        chk = pycdlib.PyCdlib()
        chk.open_fp(out)
        if names(chk, '/') != sorted([first, second]):
            problems.append('written image lists %r' % (names(chk, '/')))
        elif read(chk, '/' + first) != b'first' or read(chk, '/' + second) != b'second':
            problems.append('written image: %r reads %r, %r reads %r' % (first, read(chk, '/' + first), second, read(chk, '/' + second)))
        else:
            # Removing one of the two must remove that one.
            chk.rm_hard_link(udf_path='/' + second)
            if names(chk, '/') != [first]:
                problems.append('after removing %r the directory lists %r' % (second, names(chk, '/')))
            elif read(chk, '/' + first) != b'first':
                problems.append('after removing %r, %r reads %r' % (second, first, read(chk, '/' + first)))
        chk.close()

    # Real duplicates are still refused (on an object of its own: what a
    # refused call leaves behind is not the subject here).
    iso = pycdlib.PyCdlib()
    iso.new(udf='2.60')
    try:
        iso.add_fp(io.BytesIO(b'first'), 5, '/A.;1', udf_path='/' + NARROW)
        iso.add_fp(io.BytesIO(b'second'), 6, '/B.;1', udf_path='/' + WIDE)
    except PyCdlibInvalidInput:
        pass
    else:
        for dup in (NARROW, WIDE):
            try:
                iso.add_fp(io.BytesIO(b'dup'), 3, '/C.;1', udf_path='/' + dup)
                problems.append('a second %r was accepted' % (dup))
            except PyCdlibInvalidInput:
                pass
            try:
                iso.add_directory(udf_path='/' + dup)
                problems.append('a directory called %r was accepted next to the file' % (dup))
            except PyCdlibInvalidInput:
                pass
    iso.close()

    # The same for directories and rm_directory.
    iso = pycdlib.PyCdlib()
    iso.new(udf='2.60')
    try:
        iso.add_directory('/D1', udf_path='/' + NARROW)
        iso.add_directory('/D2', udf_path='/' + WIDE)
        iso.add_fp(io.BytesIO(b'inside'), 6, '/D1/A.;1', udf_path='/' + NARROW + '/a')
        iso.rm_directory(udf_path='/' + WIDE)
        if names(iso, '/') != [NARROW]:
            problems.append('after rm_directory of %r the root lists %r' % (WIDE, names(iso, '/')))
        elif read(iso, '/' + NARROW + '/a') != b'inside':
            problems.append('file in the remaining directory reads %r' % (read(iso, '/' + NARROW + '/a')))
    except PyCdlibInvalidInput as e:
        problems.append('directories %r and %r: %s' % (NARROW, WIDE, e))
    iso.close()

    if problems:
        for p in problems:
            print(p)
        return 1
    print('OK')
    return 0


if __name__ == '__main__':
    sys.exit(main())
