#!/usr/bin/env python
"""
Observation E2: a source tree with a top-level directory called rr_moved
and a directory nested eight or more deep makes pycdlib-genisoimage -R die
when the relocation directory is created.

usage: W6_genisoimage_rr_moved_source_dir.py <path-to-checkout>
"""
import os
import subprocess
import sys
import tempfile

CHECKOUT = os.path.abspath(sys.argv[1])
sys.path.insert(0, CHECKOUT)


def run_tool(tool, args):
    """Run a tool of the checkout; returns (exit code, output)."""
    env = dict(os.environ)
    env['PYTHONPATH'] = CHECKOUT
    proc = subprocess.run([sys.executable, os.path.join(CHECKOUT, 'tools', tool)] + args,
                          stdout=subprocess.PIPE, stderr=subprocess.STDOUT, env=env,
                          universal_newlines=True, check=False)
    return proc.returncode, proc.stdout


def snapshot(top):
    """The tree below top as {relative path: ('d',) | ('l', target) | ('f', contents)}."""
    result = {}
    for root, dirs, files in os.walk(top):
        for name in dirs + files:
            full = os.path.join(root, name)
            rel = os.path.relpath(full, top)
            if os.path.islink(full):
                result[rel] = ('l', os.readlink(full))
            elif os.path.isdir(full):
                result[rel] = ('d',)
            else:
                with open(full, 'rb') as infp:
                    result[rel] = ('f', infp.read())
    return result


def last_line(output):
    lines = [line for line in output.splitlines() if line.strip()]
    return lines[-1] if lines else ''


def extract(tmp, image, view):
    """Extract one view of the image; returns (snapshot or None, message)."""
    dest = os.path.join(tmp, 'x_' + view)
    os.makedirs(dest)
    code, output = run_tool('pycdlib-extract-files', ['-path-type', view, '-extract-to', dest, image])
    if code != 0:
        return None, last_line(output)
    return snapshot(dest), ''


def main():
    problems = []
    with tempfile.TemporaryDirectory() as tmp:
        src = os.path.join(tmp, 'src')
        deep = os.path.join(src, *['d%d' % level for level in range(1, 10)])
        os.makedirs(deep)
        with open(os.path.join(deep, 'deep.txt'), 'wb') as outfp:
            outfp.write(b'deep\n')
        os.makedirs(os.path.join(src, 'rr_moved'))
        with open(os.path.join(src, 'rr_moved', 'mine.txt'), 'wb') as outfp:
            outfp.write(b'a file of the user\n')
        want = snapshot(src)

        image = os.path.join(tmp, 'out.iso')
        code, output = run_tool('pycdlib-genisoimage', ['-quiet', '-R', '-o', image, src])
        if code != 0:
            problems.append('pycdlib-genisoimage -R failed (exit %d): %s' % (code, last_line(output)))
        else:
            got, message = extract(tmp, image, 'rockridge')
            if got is None:
                problems.append('extracting the Rock Ridge view failed: %s' % message)
            else:
                for rel, entry in sorted(want.items()):
                    if got.get(rel) != entry:
                        problems.append('Rock Ridge view: %s differs from the source tree' % rel)

    if problems:
        for problem in problems:
            print(problem)
        return 1
    print('OK')
    return 0


if __name__ == '__main__':
    sys.exit(main())
