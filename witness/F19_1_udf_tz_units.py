"""F-19.1: UDFTimestamp.new stores the GMT offset in 15-minute intervals; ECMA-167 1/7.3 defines the
field in minutes.  Decode with an independent reading of the 12-byte timestamp."""
import os, sys, time, struct, calendar
os.environ['TZ'] = 'Europe/Berlin'
time.tzset()
sys.path.insert(0, '/repo')
from pycdlib import udf
instant = 1700000000   # 2023-11-14 22:13:20 UTC, CET (+60 min)
ts = udf.UDFTimestamp()
ts.new(instant)
raw = ts.record()
tt, year, mon, day, hh, mm, ss = struct.unpack_from('<HhBBBBB', raw, 0)
tz = tt & 0x0fff
if tz & 0x800:
    tz -= 0x1000
decoded = calendar.timegm((year, mon, day, hh, mm, ss)) - tz * 60
print('recorded offset field:', tz, 'decoded instant', decoded, 'original', instant)
ok = decoded == instant
print('OK' if ok else 'DEFECT')
sys.exit(0 if ok else 1)
