#!/usr/bin/env python
# Witness F: a hard link with a Rock Ridge name whose old path is not an
# ISO9660 one (Joliet or UDF old path) has to get a usable POSIX file mode in
# its PX entry: a regular file, with the mode of the other Rock Ridge names
# of the same contents if there are any.  A mode of 0 has no file type at all.
#
# usage: W6_hardlink_rr_mode.py <pycdlib checkout>
import io
import stat
import struct
import sys

sys.path.insert(0, sys.argv[1])
import pycdlib  # noqa: E402

BS = 2048


def px_modes(image):
    # returns {ISO9660 identifier: POSIX file mode from the PX entry} for the
    # root directory of the PVD, read straight from the image
    vd = 16 * BS
    ext = struct.unpack_from('<L', image, vd + 156 + 2)[0]
    length = struct.unpack_from('<L', image, vd + 156 + 10)[0]
    off = ext * BS
    end = off + length
    out = {}
    while off < end:
        rlen = bytearray(image[off:off + 1])[0]
        if rlen == 0:
            off = (off // BS + 1) * BS
            continue
        len_fi = bytearray(image[off + 32:off + 33])[0]
        name = image[off + 33:off + 33 + len_fi]
        su = image[off + 33 + len_fi + (1 - len_fi % 2):off + rlen]
        pos = 0
        while pos + 4 <= len(su):
            sig = su[pos:pos + 2]
            elen = bytearray(su[pos + 2:pos + 3])[0]
            if elen < 4:
                break
            if sig == b'PX':
                out[name] = struct.unpack_from('<L', su, pos + 4)[0]
            pos += elen
        off += rlen
    return out


def check_mode(problems, what, mode, want=None):
    if mode is None:
        problems.append('%s: no PX entry found' % (what))
    elif not stat.S_ISREG(mode):
        problems.append('%s: PX file mode is 0o%o, which is not a regular file' % (what, mode))
    elif stat.S_IMODE(mode) & 0o444 == 0:
        problems.append('%s: PX file mode 0o%o makes the file unreadable' % (what, mode))
    elif want is not None and mode != want:
        problems.append('%s: PX file mode is 0o%o, the other name of the same file has 0o%o' % (what, mode, want))


def main():
    problems = []

    # 1. The old file exists in Joliet only.
    iso = pycdlib.PyCdlib()
    iso.new(rock_ridge='1.09', joliet=3)
    iso.add_fp(io.BytesIO(b'jonly\n'), 6, joliet_path='/jonly')
    iso.add_hard_link(joliet_old_path='/jonly', iso_new_path='/LINK.;1', rr_name='link')
    check_mode(problems, 'Joliet-only old file, in memory',
               iso.get_record(iso_path='/LINK.;1').rock_ridge.get_file_mode())
    out = io.BytesIO()
    iso.write_fp(out)
    iso.close()
    check_mode(problems, 'Joliet-only old file, written ISO', px_modes(out.getvalue()).get(b'LINK.;1'))
    iso = pycdlib.PyCdlib()
    iso.open_fp(io.BytesIO(out.getvalue()))
    got = io.BytesIO()
    iso.get_file_from_iso_fp(got, rr_path='/link')
    if got.getvalue() != b'jonly\n':
        problems.append('Joliet-only old file: /link has wrong contents')
    iso.close()

    # 2. The old file also has a Rock Ridge name, with a mode of its own; the
    #    link is made by way of the Joliet name.
    iso = pycdlib.PyCdlib()
    iso.new(rock_ridge='1.09', joliet=3)
    iso.add_fp(io.BytesIO(b'tool\n'), 5, '/TOOL.;1', rr_name='tool', joliet_path='/tool', file_mode=0o0100755)
    iso.add_hard_link(joliet_old_path='/tool', iso_new_path='/LINK.;1', rr_name='link')
    out = io.BytesIO()
    iso.write_fp(out)
    iso.close()
    modes = px_modes(out.getvalue())
    if modes.get(b'TOOL.;1') != 0o0100755:
        problems.append('precondition: /TOOL.;1 has mode %r' % (modes.get(b'TOOL.;1')))
    check_mode(problems, 'link by way of the Joliet name of a Rock Ridge file', modes.get(b'LINK.;1'), 0o0100755)

    # 3. The old path is a UDF one.
    iso = pycdlib.PyCdlib()
    iso.new(rock_ridge='1.09', udf='2.60')
    iso.add_fp(io.BytesIO(b'uonly\n'), 6, udf_path='/uonly')
    iso.add_hard_link(udf_old_path='/uonly', iso_new_path='/LINK.;1', rr_name='link')
    out = io.BytesIO()
    iso.write_fp(out)
    iso.close()
    check_mode(problems, 'UDF-only old file, written ISO', px_modes(out.getvalue()).get(b'LINK.;1'))

    # 4. An ISO9660 old path keeps handing its mode on.
    iso = pycdlib.PyCdlib()
    iso.new(rock_ridge='1.09')
    iso.add_fp(io.BytesIO(b'tool\n'), 5, '/TOOL.;1', rr_name='tool', file_mode=0o0100750)
    iso.add_hard_link(iso_old_path='/TOOL.;1', iso_new_path='/LINK.;1', rr_name='link')
    out = io.BytesIO()
    iso.write_fp(out)
    iso.close()
    check_mode(problems, 'link from an ISO9660 old path', px_modes(out.getvalue()).get(b'LINK.;1'), 0o0100750)

    if problems:
        for p in problems:
            print(p)
        return 1
    print('OK')
    return 0


if __name__ == '__main__':
    sys.exit(main())
