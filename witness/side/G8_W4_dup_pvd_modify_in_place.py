"""
modify_file_in_place() rewrites only the first PVD (with a fresh volume
modification date) and leaves the copy made by duplicate_pvd() untouched.  The
two PVDs then disagree and the modified image cannot be opened any more
("Multiple occurrences of PVD did not agree!").
"""
import io
import os
import sys
import tempfile
import time

sys.path.insert(0, sys.argv[1])
import pycdlib  # noqa: E402


def main():
    problems = []
    fd, path = tempfile.mkstemp(suffix='.iso')
    os.close(fd)
    try:
        iso = pycdlib.PyCdlib()
        iso.new()
        iso.add_fp(io.BytesIO(b'foo\n'), 4, '/FOO.;1')
        iso.duplicate_pvd()
        iso.write(path)
        iso.close()

        # The volume modification date has a resolution of one second.
        time.sleep(1.1)

        iso = pycdlib.PyCdlib()
        iso.open(path, 'r+b')
        iso.modify_file_in_place(io.BytesIO(b'bar\n'), 4, '/FOO.;1')
        iso.close()

        with open(path, 'rb') as f:
            img = f.read()
        first = img[16 * 2048:17 * 2048]
        second = img[17 * 2048:18 * 2048]
        if first[0:6] != b'\x01CD001' or second[0:6] != b'\x01CD001':
            problems.append('expected PVDs at sectors 16 and 17')
        elif first != second:
            problems.append('after modify_file_in_place the PVD copies differ: modification date %r vs %r'
                            % (first[830:847], second[830:847]))

        iso = pycdlib.PyCdlib()
        try:
            iso.open(path)
        except Exception as e:  # pylint: disable=broad-except
            problems.append('pycdlib cannot open the modified image: %s: %s' % (type(e).__name__, e))
        else:
            got = io.BytesIO()
            iso.get_file_from_iso_fp(got, iso_path='/FOO.;1')
            if got.getvalue() != b'bar\n':
                problems.append('modified file reads back as %r' % got.getvalue())
            iso.close()
    finally:
        os.unlink(path)

    if problems:
        for p in problems:
            print(p)
        return 1
    print('OK')
    return 0


if __name__ == '__main__':
    sys.exit(main())
