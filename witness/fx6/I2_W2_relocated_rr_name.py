#!/usr/bin/env python
"""
Observation B: set_relocated_name(name, rr_name) validates `name` but not
`rr_name`; 'a/b' and '' are accepted, and 'a/b' ends up as the NM name of the
relocation directory in the written image.  Every other entry point refuses
such Rock Ridge names with PyCdlibInvalidInput.

usage: W2_relocated_rr_name.py <path-to-checkout>
"""
import io
import sys

sys.path.insert(0, sys.argv[1])

import pycdlib
from pycdlib import pycdlibexception

problems = []


def deep(iso):
    path = ''
    for i in range(1, 9):
        path += '/D%d' % (i)
        iso.add_directory(path, rr_name='d%d' % (i))


def root_rr_names(iso):
    return [c.rock_ridge.name() for c in iso.list_children(iso_path='/') if c.rock_ridge is not None and not c.is_dot() and not c.is_dotdot()]


for bad in ('a/b', '', '/', 'a/'):
    iso = pycdlib.PyCdlib()
    iso.new(rock_ridge='1.09')
    try:
        iso.set_relocated_name('XX_MOVED', bad)
    except pycdlibexception.PyCdlibInvalidInput:
        # Refused; the default must still be in effect afterwards.
        deep(iso)
        names = root_rr_names(iso)
        if b'rr_moved' not in names:
            problems.append('set_relocated_name(rr_name=%r) was refused but left a trace: root is %r' % (bad, names))
    except Exception as e:  # pylint: disable=broad-except
        problems.append('set_relocated_name(rr_name=%r) raised %s(%s) instead of PyCdlibInvalidInput' % (bad, type(e).__name__, e))
    else:
        deep(iso)
        out = io.BytesIO()
        iso.write_fp(out)
        iso2 = pycdlib.PyCdlib()
        iso2.open_fp(out)
        problems.append('set_relocated_name(rr_name=%r) accepted; Rock Ridge names in the written root directory: %r' % (bad, root_rr_names(iso2)))
        iso2.close()
    iso.close()

# Sanity: a legal pair still works, and setting the same pair again is allowed.
iso = pycdlib.PyCdlib()
iso.new(rock_ridge='1.09')
iso.set_relocated_name('XX_MOVED', 'xx_moved')
iso.set_relocated_name('XX_MOVED', 'xx_moved')
try:
    iso.set_relocated_name('XX_MOVED', 'other')
    problems.append('changing the relocated name was accepted')
except pycdlibexception.PyCdlibInvalidInput:
    pass
deep(iso)
out = io.BytesIO()
iso.write_fp(out)
iso.close()
iso = pycdlib.PyCdlib()
iso.open_fp(out)
if sorted(root_rr_names(iso)) != [b'd1', b'xx_moved']:
    problems.append('legal relocated name not honoured: %r' % (root_rr_names(iso)))
iso.close()

if problems:
    print('\n'.join(problems))
    sys.exit(1)
print('OK')
