#!/usr/bin/env python
"""
Observation B: at interchange level 4 the identifiers 0x00 and 0x01 (reserved
for the "dot" and "dotdot" records) must be refused as names of new entries
with PyCdlibInvalidInput at the time of the edit.

usage: W2_level4_reserved_ident.py <path-to-checkout>
"""
import io
import sys

sys.path.insert(0, sys.argv[1])

import pycdlib  # noqa: E402
from pycdlib import pycdlibexception  # noqa: E402


def new_iso(**kwargs):
    iso = pycdlib.PyCdlib()
    iso.new(interchange_level=4, **kwargs)
    iso.add_fp(io.BytesIO(b'abc'), 3, '/KEEP.;1', **({'rr_name': 'keep'} if kwargs.get('rock_ridge') else {}))
    iso.add_directory('/SUB', **({'rr_name': 'sub'} if kwargs.get('rock_ridge') else {}))
    return iso


def idents(iso, path):
    return [c.file_identifier() for c in iso.list_children(iso_path=path)]


def main():
    problems = []

    edits = []
    for ident in ('\x00', '\x01'):
        for parent in ('/', '/SUB/'):
            p = parent + ident
            edits.append(('add_fp(%r)' % p, {}, lambda iso, p=p: iso.add_fp(io.BytesIO(b'abc'), 3, p)))
            edits.append(('add_directory(%r)' % p, {}, lambda iso, p=p: iso.add_directory(p)))
            edits.append(('add_hard_link(iso_new_path=%r)' % p, {}, lambda iso, p=p: iso.add_hard_link(iso_old_path='/KEEP.;1', iso_new_path=p)))
            edits.append(('add_symlink(%r)' % p, {'rock_ridge': '1.09'}, lambda iso, p=p: iso.add_symlink(p, 'sym', 'keep')))
            edits.append(('rock ridge add_fp(%r)' % p, {'rock_ridge': '1.09'}, lambda iso, p=p: iso.add_fp(io.BytesIO(b'abc'), 3, p, rr_name='x')))
            edits.append(('rock ridge add_directory(%r)' % p, {'rock_ridge': '1.09'}, lambda iso, p=p: iso.add_directory(p, rr_name='x')))

    for what, kwargs, edit in edits:
        iso = new_iso(**kwargs)
        before = (idents(iso, '/'), idents(iso, '/SUB'))
        try:
            edit(iso)
        except pycdlibexception.PyCdlibInvalidInput:
            pass
        except Exception as e:  # pylint: disable=broad-except
            problems.append('%s raised %s: %s' % (what, type(e).__name__, e))
        else:
            after = (idents(iso, '/'), idents(iso, '/SUB'))
            msg = '%s was accepted' % what
            for lst in after:
                if lst.count(b'\x01') > 1 or lst.count(b'\x00') > 1:
                    msg += '; directory now lists %r' % (lst,)
            try:
                iso.write_fp(io.BytesIO())
            except Exception as e:  # pylint: disable=broad-except
                msg += '; write_fp then fails with %s: %s' % (type(e).__name__, e)
            problems.append(msg)
            iso.close()
            continue
        # a refused edit leaves the image usable and unchanged
        after = (idents(iso, '/'), idents(iso, '/SUB'))
        if after != before:
            problems.append('%s was refused but the directory changed: %r -> %r' % (what, before, after))
        try:
            iso.write_fp(io.BytesIO())
        except Exception as e:  # pylint: disable=broad-except
            problems.append('%s was refused, but write_fp then fails with %s: %s' % (what, type(e).__name__, e))
        iso.close()

    # Level 4 keeps accepting any other byte string, including ones that
    # merely start with 0x00/0x01.
    iso = new_iso()
    try:
        iso.add_fp(io.BytesIO(b'one'), 3, '/\x01;1')
        iso.add_fp(io.BytesIO(b'two'), 3, '/\x01\x01')
        iso.add_directory('/\x00\x00')
        out = io.BytesIO()
        iso.write_fp(out)
        iso.close()
        iso2 = pycdlib.PyCdlib()
        iso2.open_fp(out)
        got = idents(iso2, '/')
        for want in (b'\x01;1', b'\x01\x01', b'\x00\x00'):
            if got.count(want) != 1:
                problems.append('legal level 4 identifier %r not found once after reopen: %r' % (want, got))
        data = io.BytesIO()
        iso2.get_file_from_iso_fp(data, iso_path='/\x01;1')
        if data.getvalue() != b'one':
            problems.append('content of /\\x01;1 wrong: %r' % (data.getvalue(),))
        iso2.close()
    except Exception as e:  # pylint: disable=broad-except
        problems.append('legal level 4 identifiers: %s: %s' % (type(e).__name__, e))

    if problems:
        print('\n'.join(problems))
        return 1
    print('OK')
    return 0


if __name__ == '__main__':
    sys.exit(main())
