"""
The parent ("..") File Identifier Descriptor of every UDF directory is written
with ICB block 2, i.e. it always points at the root directory's File Entry.
For a directory nested two or more levels deep that is the wrong File Entry:
the parent identifier inside /a/b must point at the File Entry of /a.
"""
import io
import struct
import sys

sys.dont_write_bytecode = True
sys.path.insert(0, sys.argv[1])
import pycdlib  # noqa: E402  pylint: disable=wrong-import-position


def walk_image(img, what, problems):
    def sector(num):
        return img[num * 2048:(num + 1) * 2048]

    part_start = None
    for num in range(32, 48):
        if struct.unpack_from('<H', sector(num), 0)[0] == 5:
            part_start, = struct.unpack_from('<L', sector(num), 188)
            break
    if part_start is None:
        problems.append('%s: no UDF partition descriptor found' % (what,))
        return 0

    # Root directory ICB (long_ad) of the File Set Descriptor.
    root_block, = struct.unpack_from('<L', sector(part_start), 404)

    def identifiers(fe_block):
        fe = sector(part_start + fe_block)
        if struct.unpack_from('<H', fe, 0)[0] != 261:
            problems.append('%s: block %d is not a File Entry' % (what, fe_block))
            return []
        len_ea, len_ad = struct.unpack_from('<LL', fe, 168)
        length, pos = struct.unpack_from('<LL', fe, 176 + len_ea)
        length &= 0x3fffffff
        start = (part_start + pos) * 2048
        data = img[start:start + length]
        out = []
        offset = 0
        while offset < len(data):
            if struct.unpack_from('<H', data, offset)[0] != 257:
                problems.append('%s: bad File Identifier tag in directory at block %d' % (what, fe_block))
                break
            chars, len_fi = struct.unpack_from('<BB', data, offset + 18)
            icb_block, = struct.unpack_from('<L', data, offset + 24)
            len_iu, = struct.unpack_from('<H', data, offset + 36)
            name = data[offset + 38 + len_iu + 1:offset + 38 + len_iu + len_fi]
            out.append((chars, name, icb_block))
            offset += (38 + len_iu + len_fi + 3) // 4 * 4
        return out

    checked = [0]

    def walk(fe_block, parent_block, path):
        for chars, name, icb_block in identifiers(fe_block):
            if chars & 0x8:
                checked[0] += 1
                if icb_block != parent_block:
                    problems.append('%s: parent identifier of %s has ICB block %d, the parent File Entry is at block %d' % (what, path, icb_block, parent_block))
            elif chars & 0x2:
                walk(icb_block, fe_block, path + name.decode('latin-1') + '/')

    walk(root_block, root_block, '/')
    return checked[0]


def main():
    problems = []
    iso = pycdlib.PyCdlib()
    iso.new(udf='2.60')
    iso.add_directory('/A', udf_path='/a')
    iso.add_directory('/A/B', udf_path='/a/b')
    iso.add_directory('/A/B/C', udf_path='/a/b/c')
    iso.add_directory('/D', udf_path='/d')
    iso.add_directory('/D/E', udf_path='/d/e')
    out = io.BytesIO()
    iso.write_fp(out)
    iso.close()
    first = out.getvalue()
    if walk_image(first, 'new image', problems) != 6:
        problems.append('new image: did not find the 6 expected parent identifiers')

    # Open the image again and shift everything by adding another directory.
    iso = pycdlib.PyCdlib()
    iso.open_fp(io.BytesIO(first))
    iso.add_directory('/A/B/F', udf_path='/a/b/f')
    iso.add_fp(io.BytesIO(b'x'), 1, '/A/X.;1', udf_path='/a/x')
    out = io.BytesIO()
    iso.write_fp(out)
    iso.close()
    if walk_image(out.getvalue(), 'modified image', problems) != 7:
        problems.append('modified image: did not find the 7 expected parent identifiers')

    if problems:
        for problem in problems:
            print(problem)
        return 1
    print('OK')
    return 0


if __name__ == '__main__':
    sys.exit(main())
