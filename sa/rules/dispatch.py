"""SA-DISPATCH.shadow: no alternative of a constant dispatch is shadowed by an earlier branch (C01, C05, C08, C10, C11).

Parsers dispatch on a type byte / signature with if/elif chains (`if val == b'\\x00': ... elif val in
(b'\\x88', b'\\x00'): ...`).  When a later branch lists a constant that an earlier branch of the same
chain already takes unconditionally, the code states two beliefs about that value and only the first
one can ever run (Engler's contradiction rule): the handler the author wrote for it is dead, and whatever
the writer emits with that value is parsed as something else.  The rule folds the constants of every
chain over one unmodified subject expression and reports each shadowed alternative.
"""
import ast

from ..registry import rule, props
from ..report import Ob
from ..model import norm, fold, NotConst, AnalysisError


def _chain(ifnode):
    out = []
    cur = ifnode
    while True:
        out.append(cur)
        if len(cur.orelse) == 1 and isinstance(cur.orelse[0], ast.If):
            cur = cur.orelse[0]
        else:
            break
    return out


def _alts(ctx, fi, test):
    """(subject text, [constants], unconditional?) for `X == c` / `X in (c1, ...)` tests; None otherwise"""
    cond = False
    t = test
    if isinstance(t, ast.BoolOp) and isinstance(t.op, ast.And):
        cond = True
        t = t.values[0]
    if not (isinstance(t, ast.Compare) and len(t.ops) == 1):
        return None
    mi = ctx.m.modules[fi.module]
    try:
        if isinstance(t.ops[0], ast.Eq):
            return norm(t.left), [fold(t.comparators[0], ctx.m, mi, fi.cls)], not cond
        if isinstance(t.ops[0], ast.In) and isinstance(t.comparators[0], (ast.Tuple, ast.List, ast.Set)):
            return norm(t.left), [fold(e, ctx.m, mi, fi.cls) for e in t.comparators[0].elts], not cond
    except NotConst:
        return None
    return None


@rule('SA-DISPATCH.shadow')
@props('C01', 'C05', 'C08', 'C10', 'C11')
def shadow(ctx):
    obs = []
    nchains = 0
    for fi in ctx.m.functions.values():
        par = None
        for n in ctx.own_nodes(fi):
            if not isinstance(n, ast.If):
                continue
            if par is None:
                par = ctx.parents(fi)
            p = par.get(id(n))
            if isinstance(p, ast.If) and len(p.orelse) == 1 and p.orelse[0] is n:
                continue          # not the head of its chain
            ch = _chain(n)
            if len(ch) < 2:
                continue
            covered = {}
            subject = None
            counted = False
            for br in ch:
                a = _alts(ctx, fi, br.test)
                if a is None:
                    continue
                subj, consts, uncond = a
                if subject is None:
                    subject = subj
                if subj != subject:
                    continue
                if not counted:
                    nchains += 1
                    counted = True
                for c in consts:
                    try:
                        hash(c)
                    except TypeError:
                        continue
                    key = '%s|%s: %r' % (fi.qual, subject, c)
                    if c in covered:
                        obs.append(Ob('SA-DISPATCH.shadow', key, False, ctx.loc(fi, br),
                                      'the branch `%s` lists %r, but the earlier branch `%s` (line %d) of the same chain already takes every `%s` equal to it: '
                                      'this alternative can never run, so data the writer emits with that value is handled as the earlier case'
                                      % (norm(br.test)[:80], c, norm(covered[c].test)[:60], covered[c].lineno, subject)))
                    else:
                        obs.append(Ob('SA-DISPATCH.shadow', key, True, ctx.loc(fi, br)))
                        if uncond:
                            covered[c] = br
    if nchains < 20:
        raise AnalysisError('anchor-vanished: constant dispatch chains (%d)' % nchains)
    return obs
