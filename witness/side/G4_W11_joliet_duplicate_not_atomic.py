"""
Residue of the non-atomic refusals: when add_fp() is given a new ISO9660 path
together with a Joliet path that already exists, the duplicate is only
noticed after the ISO9660 record has been linked in.  The call raises
PyCdlibInvalidInput but the object is left without the space accounting and
cannot be written any more.
"""
import io
import sys

sys.path.insert(0, sys.argv[1])

import pycdlib  # noqa: E402 pylint: disable=wrong-import-position


def main():
    problems = []
    iso = pycdlib.PyCdlib()
    iso.new(joliet=3)
    iso.add_fp(io.BytesIO(b'a'), 1, '/A.;1', joliet_path='/a')
    try:
        iso.add_fp(io.BytesIO(b'b'), 1, '/B.;1', joliet_path='/a')
        problems.append('duplicate Joliet name accepted')
    except pycdlib.pycdlibexception.PyCdlibInvalidInput:
        pass
    try:
        names = [c.file_identifier() for c in iso.list_children(iso_path='/')]
        if b'B.;1' in names:
            problems.append('the refused call left B.;1 in the ISO9660 root')
    except Exception as exc:  # pylint: disable=broad-except
        problems.append('list_children after the refusal: %s: %s' % (type(exc).__name__, exc))
    try:
        iso.write_fp(io.BytesIO())
    except Exception as exc:  # pylint: disable=broad-except
        problems.append('write_fp after the refusal: %s: %s' % (type(exc).__name__, exc))

    if problems:
        for problem in problems:
            print(problem)
        return 1
    print('OK')
    return 0


if __name__ == '__main__':
    sys.exit(main())
