"""SA-SYM.conv: a value that parse() converts on the way in is converted back by the inverse on the way out (C05, C12).

parse() often does not store the raw field but a converted form (`uuid.UUID(bytes=raw)`, `raw.decode('utf-16_le')`)
and record() converts back (`.bytes`, `.encode('utf-16_le')`).  The two conversions have to be inverse to each
other, otherwise open + write changes the bytes (and a second open + write changes them back).  For every class
with parse and record methods and every attribute assigned in parse from such a conversion, the rule finds
the emissions of that attribute in record and compares the conversions:
    uuid.UUID(bytes=x)     <->  .bytes            uuid.UUID(bytes_le=x)  <->  .bytes_le
    x.decode(CODEC)[...]   <->  .encode(CODEC)    (codec names compared after codecs.lookup normalisation)
"""
import ast
import codecs

from ..registry import rule, props
from ..report import Ob
from ..model import norm, AnalysisError


def _self_attr(e):
    if isinstance(e, ast.Attribute) and isinstance(e.value, ast.Name) and e.value.id == 'self':
        return e.attr
    return None


def _codec(n):
    if isinstance(n, ast.Constant) and isinstance(n.value, str):
        try:
            return codecs.lookup(n.value).name
        except LookupError:
            return n.value.lower()
    return None


def _in_conv(v):
    """conversion applied to the raw field in parse: ('uuid', 'bytes'|'bytes_le') / ('codec', name) / None"""
    for sub in ast.walk(v):
        if isinstance(sub, ast.Call) and norm(sub.func) in ('uuid.UUID', 'UUID'):
            for kw in sub.keywords:
                if kw.arg in ('bytes', 'bytes_le'):
                    return ('uuid', kw.arg)
        if isinstance(sub, ast.Call) and isinstance(sub.func, ast.Attribute) and sub.func.attr == 'decode' and sub.args:
            c = _codec(sub.args[0])
            if c:
                return ('codec', c)
    return None


def _out_convs(fi_node, attr):
    out = []
    for sub in ast.walk(fi_node):
        if isinstance(sub, ast.Attribute) and sub.attr in ('bytes', 'bytes_le') and _self_attr(sub.value) == attr:
            out.append((('uuid', sub.attr), sub))
        if isinstance(sub, ast.Call) and isinstance(sub.func, ast.Attribute) and sub.func.attr == 'encode' and sub.args:
            base = sub.func.value
            # self.attr.encode(...) possibly after .ljust()/slicing
            names = [_self_attr(x) for x in ast.walk(base)]
            if attr in names:
                c = _codec(sub.args[0])
                if c:
                    out.append((('codec', c), sub))
    return out


@rule('SA-SYM.conv')
@props('C05', 'C12')
def conv(ctx):
    obs = []
    n = 0
    for ci in sorted(ctx.m.classes.values(), key=lambda c: c.qual):
        if ctx.m.modules[ci.module].is_tool:
            continue
        parses = [f for nm, f in ci.methods.items() if nm == 'parse' or nm.startswith('parse')]
        records = [f for nm, f in ci.methods.items() if nm == 'record' or nm.startswith('record') or nm == '_record']
        if not parses or not records:
            continue
        for pf in parses:
            for st in ctx.own_nodes(pf):
                if not (isinstance(st, ast.Assign) and len(st.targets) == 1 and _self_attr(st.targets[0])):
                    continue
                attr = _self_attr(st.targets[0])
                ic = _in_conv(st.value)
                if ic is None:
                    continue
                outs = []
                for rf in records:
                    outs += [(oc, node, rf) for oc, node in _out_convs(rf.node, attr)]
                if not outs:
                    continue
                n += 1
                for oc, node, rf in outs:
                    ok = oc == ic
                    obs.append(Ob('SA-SYM.conv', '%s.%s|%s' % (ci.qual, attr, rf.name), ok, ctx.loc(rf, node),
                                  '' if ok else '%s.%s reads self.%s with %s but %s writes it back with %s: the two are not inverse, so opening and re-writing '
                                  'an image changes these bytes (and doing it again changes them back)'
                                  % (ci.name, pf.name, attr, '%s=%s' % ic if ic[0] == 'uuid' else 'decode(%r)' % ic[1], rf.name,
                                     '.%s' % oc[1] if oc[0] == 'uuid' else 'encode(%r)' % oc[1])))
    if n < 4:
        raise AnalysisError('anchor-vanished: converted attributes with a parse/record pair (%d)' % n)
    return obs
