"""
Two files with different ISO9660 names but the same Rock Ridge name can be
added to one directory; there is no uniqueness check in the Rock Ridge
namespace.  The written directory has two entries that a Rock Ridge aware
reader shows under one name, and only one of them can be reached by rr_path.
"""
import io
import sys

sys.dont_write_bytecode = True
sys.path.insert(0, sys.argv[1])
import pycdlib  # noqa: E402


def main():
    iso = pycdlib.PyCdlib()
    iso.new(rock_ridge='1.09')
    iso.add_fp(io.BytesIO(b'first'), 5, '/FOO.;1', rr_name='same')
    try:
        iso.add_fp(io.BytesIO(b'second'), 6, '/BAR.;1', rr_name='same')
    except pycdlib.pycdlibexception.PyCdlibInvalidInput:
        iso.close()
        print('OK')
        return 0
    out = io.BytesIO()
    iso.write_fp(out)
    iso.close()

    iso = pycdlib.PyCdlib()
    iso.open_fp(io.BytesIO(out.getvalue()))
    names = [c.rock_ridge.name() for c in iso.list_children(iso_path='/')
             if not c.is_dot() and not c.is_dotdot()]
    iso.close()
    print('both adds accepted; Rock Ridge names in the root directory: %r' % names)
    return 1


if __name__ == '__main__':
    sys.exit(main())
