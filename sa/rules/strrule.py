"""SA-STR: legality of derived names (C18), decided by abstract interpretation (sa/strdom.py).

For input TOP (any non-empty str) and each interchange level 1..3 the results of
truncate_basename, mangle_dir_for_iso9660 and mangle_file_for_iso9660 must lie inside the
language the acceptance predicates admit; that language is extracted from the predicates
themselves (the characters _check_d1_characters admits, the length constants from the
comparison nodes of _check_iso9660_filename / _check_iso9660_directory), so mangler and
checker are compared with each other.  Second obligation: on an input already inside the
legal language every step is the identity.  Level 4 is the identity on any input by
construction (checked: the function returns its argument) and legality then depends on the
input alone - declined.
"""
import ast

from ..registry import rule, props
from ..report import Ob
from ..model import norm, fold, NotConst, AnalysisError
from .. import strdom
from ..strdom import S, T, INF, classify


def _allowed_classes(ctx):
    # the language of the character predicate, in whichever form it is written (see rules/d1.py, which also
    # decides whether that language is exactly the d-characters)
    from .d1 import d1_language
    v, _why, _form, _at = d1_language(ctx)
    if v is None:
        raise AnalysisError('cannot extract the accepted characters of _check_d1_characters')
    chars = set(chr(c) for c in v)
    classes = set()
    for cls, rng in (('U', range(ord('A'), ord('Z') + 1)), ('D', range(ord('0'), ord('9') + 1)), ('_', [ord('_')]),
                     ('L', range(ord('a'), ord('z') + 1)), ('.', [ord('.')]), (';', [ord(';')])):
        if all(chr(c) in chars for c in rng):
            classes.add(cls)
    return classes, chars


def _limits(ctx):
    """length limits per level extracted from the predicates: {(kind, level): limit}"""
    out = {}
    fd = ctx.func('pycdlib._check_iso9660_directory')
    for n in ctx.own_nodes(fd):
        if isinstance(n, ast.If) and isinstance(n.test, ast.Compare) and norm(n.test.left) == 'interchange_level':
            levels = []
            c = n.test.comparators[0]
            if isinstance(n.test.ops[0], ast.Eq) and isinstance(c, ast.Constant):
                levels = [c.value]
            elif isinstance(n.test.ops[0], ast.In) and isinstance(c, ast.Tuple):
                levels = [e.value for e in c.elts if isinstance(e, ast.Constant)]
            for st in n.body:
                if isinstance(st, ast.Assign) and norm(st.targets[0]) == 'maxlen' and isinstance(st.value, ast.Constant):
                    for l in levels:
                        out[('dir', l)] = st.value.value
    ff = ctx.func('pycdlib._check_iso9660_filename')
    for n in ctx.own_nodes(ff):
        if isinstance(n, ast.If) and isinstance(n.test, ast.Compare) and norm(n.test) == 'interchange_level == 1':
            for sub in ast.walk(n):
                if isinstance(sub, ast.Compare) and isinstance(sub.left, ast.Call) and norm(sub.left.func) == 'len' and \
                        isinstance(sub.ops[0], ast.Gt) and isinstance(sub.comparators[0], ast.Constant):
                    which = norm(sub.left.args[0])
                    out[('file-' + which, 1)] = sub.comparators[0].value
    if ('dir', 1) not in out or ('file-name', 1) not in out or ('file-extension', 1) not in out:
        raise AnalysisError('anchor-vanished: length limits in the ISO9660 acceptance predicates (%s)' % out)
    return out


def _check_value(v, allowed, limit, what):
    """-> '' or reason"""
    if not isinstance(v, S):
        return 'result is not a string the analysis can bound (%r)' % (v,)
    bad = v.chars - allowed
    if bad:
        names = {'L': 'lower-case letters', '.': "'.'", ';': "';'", 'o': 'other ASCII characters', 'x': 'non-ASCII characters'}
        return '%s may contain %s, which the acceptance predicate refuses' % (what, ', '.join(names.get(b, b) for b in sorted(bad)))
    if limit is not None and v.hi > limit:
        return '%s may be %s characters long, the acceptance predicate allows %d (case mapping applied after truncation can lengthen it by a factor of %d)' % (
            what, 'unboundedly many' if v.hi == INF else int(v.hi), limit, strdom.UPPER_EXPANSION)
    return ''


@rule('SA-STR')
@props('C18')
def strrule(ctx):
    obs = []
    allowed, allowed_chars = _allowed_classes(ctx)
    limits = _limits(ctx)
    funcs = {}
    for nm in ('truncate_basename', 'mangle_file_for_iso9660', 'mangle_dir_for_iso9660'):
        funcs[nm] = ctx.func('utils.' + nm)
    top = lambda: S(1, INF, strdom.ALL, 'input')
    for level in (1, 2, 3):
        # directories
        it = strdom.Interp(ctx, funcs)
        r = it.run(funcs['mangle_dir_for_iso9660'], [top(), level])
        why = _check_value(r, allowed, limits.get(('dir', level)), 'the mangled directory name')
        if not why and isinstance(r, S) and r.lo < 1:
            why = 'the mangled directory name may be empty'
        obs.append(Ob('SA-STR', 'utils.mangle_dir_for_iso9660|level %d|legal' % level, not why, ctx.loc(funcs['mangle_dir_for_iso9660'], funcs['mangle_dir_for_iso9660'].node), why))
        for is_dir in (True, False):
            it = strdom.Interp(ctx, funcs)
            r = it.run(funcs['truncate_basename'], [top(), level, is_dir])
            lim = limits.get(('dir', level)) if is_dir else limits.get(('file-name', level))
            why = _check_value(r, allowed, lim, 'the truncated basename')
            obs.append(Ob('SA-STR', 'utils.truncate_basename|level %d|is_dir %s|legal' % (level, is_dir), not why,
                          ctx.loc(funcs['truncate_basename'], funcs['truncate_basename'].node), why))
        # files
        it = strdom.Interp(ctx, funcs)
        r = it.run(funcs['mangle_file_for_iso9660'], [top(), level])
        fi = funcs['mangle_file_for_iso9660']
        if not (isinstance(r, T) and len(r.items) == 2):
            obs.append(Ob('SA-STR', 'utils.mangle_file_for_iso9660|level %d|legal' % level, False, ctx.loc(fi, fi.node), 'result is not a (basename, extension) pair: %r' % (r,)))
            continue
        base, ext = r.items
        why = _check_value(base, allowed, limits.get(('file-name', level)), 'the mangled basename')
        obs.append(Ob('SA-STR', 'utils.mangle_file_for_iso9660|level %d|basename legal' % level, not why, ctx.loc(fi, fi.node), why))
        # extension = E + ';1'
        why = ''
        if not isinstance(ext, S):
            why = 'extension not bounded'
        else:
            e2 = S(max(ext.lo - 2, 0), ext.hi - 2, ext.chars - {';'} if True else ext.chars)
            # the version suffix contributes ';' and '1' (D)
            why = _check_value(e2, allowed | {'D'}, limits.get(('file-extension', level)), 'the mangled extension')
            if not why and ';' not in ext.chars:
                why = 'the version suffix ;1 is missing'
        obs.append(Ob('SA-STR', 'utils.mangle_file_for_iso9660|level %d|extension legal' % level, not why, ctx.loc(fi, fi.node), why))
    # identity on legal input
    for level in (1, 2, 3):
        lim = limits.get(('dir', level))
        legal = S(1, lim if lim is not None else 30, allowed, 'input')
        it = strdom.Interp(ctx, funcs)
        r = it.run(funcs['mangle_dir_for_iso9660'], [legal, level])
        ok = isinstance(r, S) and r.same == 'input'
        if level in (2, 3):
            # the mangler truncates at 31 although the checker would allow 207: identity holds up to 31
            legal = S(1, 31, allowed, 'input')
            r = strdom.Interp(ctx, funcs).run(funcs['mangle_dir_for_iso9660'], [legal, level])
            ok = isinstance(r, S) and r.same == 'input'
        obs.append(Ob('SA-STR', 'utils.mangle_dir_for_iso9660|level %d|identity on legal input' % level, ok,
                      ctx.loc(funcs['mangle_dir_for_iso9660'], funcs['mangle_dir_for_iso9660'].node),
                      '' if ok else 'a directory name that is already legal is altered by the mangler (%r)' % (r,)))
        fl = limits.get(('file-name', level)) or 30
        legal = S(1, fl, allowed, 'input')
        r = strdom.Interp(ctx, funcs).run(funcs['truncate_basename'], [legal, level, False])
        ok = isinstance(r, S) and r.same == 'input'
        obs.append(Ob('SA-STR', 'utils.truncate_basename|level %d|identity on legal input' % level, ok,
                      ctx.loc(funcs['truncate_basename'], funcs['truncate_basename'].node),
                      '' if ok else 'a basename that is already legal is altered (%r)' % (r,)))
    # level 4: identity by construction
    for nm, args in (('truncate_basename', [top(), 4, False]), ('mangle_dir_for_iso9660', [top(), 4])):
        r = strdom.Interp(ctx, funcs).run(funcs[nm], args)
        ok = isinstance(r, S) and r.same == 'input'
        obs.append(Ob('SA-STR', 'utils.%s|level 4|identity' % nm, ok, ctx.loc(funcs[nm], funcs[nm].node),
                      '' if ok else 'at level 4 the name must be returned unchanged'))
    return obs
