"""
rm_eltorito() leaves the boot info table attached to the former boot file:
after new / add_fp / add_eltorito(boot_info_table=True) / rm_eltorito the file
is still written out (and read back) with a boot info table patched over bytes
8..64, although the ISO has no El Torito anymore.
"""
import io
import sys

sys.path.insert(0, sys.argv[1])
import pycdlib  # noqa: E402


def main():
    boot = bytes(range(256)) * 8

    iso = pycdlib.PyCdlib()
    iso.new()
    iso.add_fp(io.BytesIO(boot), len(boot), '/BOOT.;1')
    iso.add_eltorito('/BOOT.;1', '/BOOT.CAT;1', boot_info_table=True)
    iso.rm_eltorito()
    out = io.BytesIO()
    iso.write_fp(out)
    iso.close()
    img = out.getvalue()

    problems = []
    if img[17 * 2048:17 * 2048 + 7] == b'\x00CD001\x01':
        problems.append('the image still has a boot record')

    iso2 = pycdlib.PyCdlib()
    iso2.open_fp(io.BytesIO(img))
    got = io.BytesIO()
    iso2.get_file_from_iso_fp(got, iso_path='/BOOT.;1')
    iso2.close()
    data = got.getvalue()
    if data != boot:
        diff = [i for i in range(min(len(data), len(boot))) if data[i] != boot[i]]
        problems.append('after rm_eltorito the former boot file differs from what was added '
                        '(%d bytes, offsets %d..%d; length %d vs %d)'
                        % (len(diff), diff[0] if diff else -1, diff[-1] if diff else -1, len(data), len(boot)))

    if problems:
        for p in problems:
            print(p)
        return 1
    print('OK')
    return 0


if __name__ == '__main__':
    sys.exit(main())
