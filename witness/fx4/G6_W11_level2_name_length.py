#!/usr/bin/env python3
"""
Witness for observation J (notes item 10): at interchange levels 2 and 3 the
file name and the extension together may have at most 30 characters
(ECMA-119 7.5.1).  mangle_file_for_iso9660() must not return more, must leave
legal names alone, and pycdlib-genisoimage -iso-level 2 must not write longer
identifiers.

  python W11_level2_name_length.py <path-to-checkout>
"""
import os
import shutil
import subprocess
import sys
import tempfile

CHECKOUT = os.path.abspath(sys.argv[1])
sys.path.insert(0, CHECKOUT)

import pycdlib  # noqa: E402,F401  pylint: disable=wrong-import-position,unused-import


def tool(name, *args):
    """Run one of the tools of the checkout; returns (exit code, stdout, stderr)."""
    env = dict(os.environ)
    env['PYTHONPATH'] = CHECKOUT
    proc = subprocess.run([sys.executable, os.path.join(CHECKOUT, 'tools', name)] + list(args),
                          env=env, stdout=subprocess.PIPE, stderr=subprocess.PIPE,
                          universal_newlines=True, check=False)
    return proc.returncode, proc.stdout, proc.stderr


def last_line(text):
    lines = text.strip().splitlines()
    return lines[-1] if lines else ''


def make_tree(root, files):
    """files: relative path -> bytes (file), (target,) (symlink) or None (directory)."""
    os.makedirs(root)
    for rel, content in files.items():
        full = os.path.join(root, rel)
        if content is None:
            os.makedirs(full, exist_ok=True)
            continue
        os.makedirs(os.path.dirname(full), exist_ok=True)
        if isinstance(content, tuple):
            os.symlink(content[0], full)
        else:
            with open(full, 'wb') as outfp:
                outfp.write(content)


def tree(root):
    """relative path -> 'dir', ('link', target) or the file contents."""
    out = {}
    for dirpath, dirnames, filenames in os.walk(root):
        for name in dirnames + filenames:
            full = os.path.join(dirpath, name)
            rel = os.path.relpath(full, root)
            if os.path.islink(full):
                out[rel] = ('link', os.readlink(full))
            elif os.path.isdir(full):
                out[rel] = 'dir'
            else:
                with open(full, 'rb') as infp:
                    out[rel] = infp.read()
    return out


def diff_trees(want, got):
    problems = []
    for rel in sorted(set(want) - set(got)):
        problems.append('missing from the extracted tree: %s' % (rel))
    for rel in sorted(set(got) - set(want)):
        problems.append('not in the source tree: %s' % (rel))
    for rel in sorted(set(got) & set(want)):
        if got[rel] != want[rel]:
            problems.append('%s differs: source %r, extracted %r' % (rel, want[rel][:80], got[rel][:80]))
    return problems


def build(tmp, files, opts):
    """Build tmp/out.iso from a fresh tmp/src; returns (src, isoname, exit code, stderr)."""
    src = os.path.join(tmp, 'src')
    make_tree(src, files)
    isoname = os.path.join(tmp, 'out.iso')
    ret, _, err = tool('pycdlib-genisoimage', '-quiet', *(list(opts) + ['-o', isoname, src]))
    return src, isoname, ret, err


def extract(tmp, isoname, view):
    """Extract one view to a fresh directory; returns (dest, exit code, stderr)."""
    dest = os.path.join(tmp, 'dest_' + view)
    os.makedirs(dest)
    ret, _, err = tool('pycdlib-extract-files', '-path-type', view, '-extract-to', dest, isoname)
    return dest, ret, err


def run(check):
    tmp = tempfile.mkdtemp()
    try:
        problems = check(tmp)
    finally:
        shutil.rmtree(tmp, ignore_errors=True)
    if problems:
        for problem in problems:
            print(problem)
        return 1
    print('OK')
    return 0


def check(tmp):
    problems = []
    import io
    from pycdlib import utils

    for level in (2, 3):
        for name in ('x' * 30 + '.txt', 'x' * 29 + '.t', 'x' * 28 + '.txt', 'x' * 40, 'x' * 40 + '.tar.gz',
                     '.' + 'x' * 40, 'x' * 35 + '.a_b'):
            base, ext = utils.mangle_file_for_iso9660(name, level)
            extonly = ext.split(';')[0]
            if len(base) + len(extonly) > 30:
                problems.append('level %d: mangle_file_for_iso9660(%r) returns %d + %d characters'
                                % (level, name, len(base), len(extonly)))
            if not base and not extonly:
                problems.append('level %d: mangle_file_for_iso9660(%r) returns an empty name' % (level, name))
            iso = pycdlib.PyCdlib()
            iso.new(interchange_level=level)
            try:
                iso.add_fp(io.BytesIO(b'x'), 1, '/' + base + '.' + ext)
            except pycdlib.pycdlibexception.PyCdlibInvalidInput as e:
                problems.append('level %d: the library refuses %r: %s' % (level, base + '.' + ext, e))
            iso.close()
        # Names that are legal already come back unchanged.
        for name in ('X' * 27 + '.TXT', 'X' * 30, 'A.B', 'X' * 8 + '.TXT'):
            base, ext = utils.mangle_file_for_iso9660(name, level)
            got = base + ('.' if '.' in name else '') + ext
            if got != name + ';1':
                problems.append('level %d: the legal name %r is changed to %r' % (level, name, got))
    # Level 1 is unchanged.
    if utils.mangle_file_for_iso9660('x' * 30 + '.txt', 1) != ('X' * 8, 'TXT;1'):
        problems.append('level 1: %r' % (utils.mangle_file_for_iso9660('x' * 30 + '.txt', 1),))

    # Tool level.
    files = {'x' * 30 + '.txt': b'one\n', 'x' * 30 + 'y.txt': b'two\n', 'short.txt': b'three\n'}
    src, isoname, ret, err = build(tmp, files, ['-iso-level', '2'])
    if ret != 0:
        problems.append('pycdlib-genisoimage failed: %s' % (last_line(err)))
        return problems
    iso = pycdlib.PyCdlib()
    iso.open(isoname)
    contents = []
    for child in iso.list_children(iso_path='/'):
        if child.is_dot() or child.is_dotdot():
            continue
        ident = child.file_identifier().decode('utf-8')
        if len(ident.split(';')[0].replace('.', '', 1)) > 30:
            problems.append('-iso-level 2 wrote the identifier %r' % (ident))
        out = io.BytesIO()
        iso.get_file_from_iso_fp(out, iso_path='/' + ident)
        contents.append(out.getvalue())
    iso.close()
    if sorted(contents) != sorted(files.values()):
        problems.append('the ISO9660 view does not hold every source file exactly once: %r' % (sorted(contents)))
    return problems


if __name__ == '__main__':
    sys.exit(run(check))
