"""F-18.1: case mapping after truncation lengthens the result: the mangled name is refused by the
library's own acceptance predicate."""
import sys
sys.path.insert(0, '/repo')
from pycdlib import utils, pycdlib as pm
bad = []
for name in ('straße_ßßßß', 'aaaaaaaß', 'x.ßßß', 'ŉŉŉŉŉŉŉŉ'):
    base, ext = utils.mangle_file_for_iso9660(name, 1)
    full = ('.'.join([base, ext])).encode('utf-8')
    try:
        pm._check_iso9660_filename(full, 1)
    except Exception as e:
        bad.append('%r -> %r refused: %s' % (name, full, e))
    d = utils.mangle_dir_for_iso9660(name, 1).encode('utf-8')
    try:
        pm._check_iso9660_directory(d, 1)
    except Exception as e:
        bad.append('dir %r -> %r refused: %s' % (name, d, e))
for b in bad:
    print(b)
print('DEFECT' if bad else 'OK')
sys.exit(1 if bad else 0)
