#!/usr/bin/env python
"""
Witness for observation C: a file that needs three directory records (9 GiB)
loses its middle part.

DirectoryRecord._add_child attached every further part of a very large file
to the FIRST record of that name, so the third part overwrote the
data_continuation of the first one: get_file_from_iso_fp returned part 1 and
part 3 only, and the directory was written as part 1, part 3, part 2 with the
multi-extent flag missing on part 2.

Usage: W3_three_part_file.py <path-to-checkout>
No real data is used: the source is a synthetic file of zeros with a few
markers, the image is written to an in-memory sparse file.
"""
import struct
import sys

sys.path.insert(0, sys.argv[1])

import pycdlib  # noqa: E402

GIB = 1 << 30
PART = 0xfffff800  # the most that pycdlib stores in one directory record
LENGTH = 9 * GIB
BLOCKSIZE = 1 << 24
MARKERS = {
    0: b'HEAD-OF-FILE',
    PART - 8: b'end-of-1start-of-2',
    2 * PART - 8: b'end-of-2start-of-3',
    LENGTH - 12: b'TAIL-OF-FILE',
}


_ZEROS = {}


def zeros(n):
    """A shared bytes object of n zero bytes (comparing it to itself is free)."""
    if n not in _ZEROS:
        if len(_ZEROS) > 8:
            _ZEROS.clear()
        _ZEROS[n] = bytes(n)
    return _ZEROS[n]


class Synth(object):
    """A read-only seekable file of zeros with a few marker strings in it."""
    mode = 'rb'

    def __init__(self, length, markers):
        self.length = length
        self.markers = markers
        self.pos = 0

    def seek(self, off, whence=0):
        if whence == 0:
            self.pos = off
        elif whence == 1:
            self.pos += off
        else:
            self.pos = self.length + off
        return self.pos

    def tell(self):
        return self.pos

    def read(self, n=-1):
        if n is None or n < 0:
            n = self.length - self.pos
        n = max(0, min(n, self.length - self.pos))
        start = self.pos
        self.pos += n
        hits = [(off, m) for off, m in self.markers.items()
                if off < start + n and off + len(m) > start]
        if not hits:
            return zeros(n)
        buf = bytearray(n)
        for off, m in hits:
            lo = max(off, start)
            hi = min(off + len(m), start + n)
            buf[lo - start:hi - start] = m[lo - off:hi - off]
        return bytes(buf)


class Sparse(object):
    """A read/write seekable file that stores only blocks that are not zero."""
    mode = 'r+b'
    BS = 2048

    def __init__(self):
        self.blocks = {}
        self.size = 0
        self.pos = 0

    def seek(self, off, whence=0):
        if whence == 0:
            self.pos = off
        elif whence == 1:
            self.pos += off
        else:
            self.pos = self.size + off
        return self.pos

    def tell(self):
        return self.pos

    def _put(self, b, off, piece):
        blk = bytearray(self.blocks.get(b, bytes(self.BS)))
        blk[off - b * self.BS:off - b * self.BS + len(piece)] = piece
        if any(blk):
            self.blocks[b] = bytes(blk)
        else:
            self.blocks.pop(b, None)

    def write(self, data):
        n = len(data)
        start = self.pos
        self.pos += n
        self.size = max(self.size, self.pos)
        if data == zeros(n):
            for b in [b for b in self.blocks
                      if start // self.BS <= b <= (start + n) // self.BS]:
                lo = max(start, b * self.BS)
                hi = min(start + n, (b + 1) * self.BS)
                if lo < hi:
                    self._put(b, lo, bytes(hi - lo))
            return n
        off = start
        while off < start + n:
            b = off // self.BS
            end = min(start + n, (b + 1) * self.BS)
            self._put(b, off, data[off - start:end - start])
            off = end
        return n

    def read(self, n=-1):
        if n is None or n < 0:
            n = self.size - self.pos
        n = max(0, min(n, self.size - self.pos))
        start = self.pos
        self.pos += n
        first = start // self.BS
        last = (start + n + self.BS - 1) // self.BS
        if last - first > len(self.blocks):
            hit = [b for b in self.blocks if first <= b < last]
        else:
            hit = [b for b in range(first, last) if b in self.blocks]
        if not hit:
            return zeros(n)
        buf = bytearray(n)
        for b in hit:
            lo = max(start, b * self.BS)
            hi = min(start + n, (b + 1) * self.BS)
            buf[lo - start:hi - start] = self.blocks[b][lo - b * self.BS:hi - b * self.BS]
        return bytes(buf)


def check_content(what, fp, problems):
    """fp is a Sparse file that received the content of the file."""
    if fp.size != LENGTH:
        problems.append('%s: got %d bytes, expected %d' % (what, fp.size, LENGTH))
    for off, m in sorted(MARKERS.items()):
        fp.seek(off)
        got = fp.read(len(m))
        if got != m:
            problems.append('%s: at offset %d got %r, expected %r' % (what, off, got, m))
    stored = sorted(fp.blocks)
    expected = sorted(set(b for off, m in MARKERS.items()
                          for b in (off // 2048, (off + len(m) - 1) // 2048)))
    if stored != expected:
        problems.append('%s: data that is not zero in blocks %s, expected %s' % (what, stored, expected))


def records_on_disk(img):
    """The directory records of the root directory, read without pycdlib."""
    img.seek(16 * 2048 + 156)
    root = img.read(34)
    extent, = struct.unpack_from('<L', root, 2)
    length, = struct.unpack_from('<L', root, 10)
    img.seek(extent * 2048)
    data = img.read(length)
    out = []
    off = 0
    while off < length:
        reclen = data[off]
        if reclen == 0:
            off = (off // 2048 + 1) * 2048
            continue
        rec_extent, = struct.unpack_from('<L', data, off + 2)
        rec_len, = struct.unpack_from('<L', data, off + 10)
        flags = data[off + 25]
        namelen = data[off + 32]
        name = data[off + 33:off + 33 + namelen]
        out.append((name, rec_extent, rec_len, flags))
        off += reclen
    return out


def main():
    problems = []

    iso = pycdlib.PyCdlib()
    iso.new(interchange_level=3)
    iso.add_fp(Synth(LENGTH, MARKERS), LENGTH, '/NINE.;1')

    got = Sparse()
    iso.get_file_from_iso_fp(got, iso_path='/NINE.;1', blocksize=BLOCKSIZE)
    check_content('new image, get_file_from_iso_fp', got, problems)

    img = Sparse()
    iso.write_fp(img, blocksize=BLOCKSIZE)
    iso.close()

    parts = [r for r in records_on_disk(img) if r[0] == b'NINE.;1']
    if [r[2] for r in parts] != [PART, PART, LENGTH - 2 * PART]:
        problems.append('written directory: lengths of the parts are %s, expected %s'
                        % ([r[2] for r in parts], [PART, PART, LENGTH - 2 * PART]))
    if [r[3] & 0x80 for r in parts] != [0x80, 0x80, 0]:
        problems.append('written directory: multi-extent flags of the parts are %s, expected [128, 128, 0]'
                        % ([r[3] & 0x80 for r in parts]))
    if len(parts) == 3:
        pos = 0
        for name, extent, length, flags in parts:
            for off, m in sorted(MARKERS.items()):
                if pos <= off and off + len(m) <= pos + length:
                    img.seek(extent * 2048 + off - pos)
                    if img.read(len(m)) != m:
                        problems.append('written image: marker %r not found in the extent of its part' % (m,))
            pos += length

    iso2 = pycdlib.PyCdlib()
    iso2.open_fp(img)
    got = Sparse()
    iso2.get_file_from_iso_fp(got, iso_path='/NINE.;1', blocksize=BLOCKSIZE)
    check_content('reopened image, get_file_from_iso_fp', got, problems)

    # One edit-and-write generation must keep the file intact, and removing the
    # file must remove all of its parts.
    iso2.add_fp(Synth(5, {0: b'hello'}), 5, '/A.;1')
    img2 = Sparse()
    iso2.write_fp(img2, blocksize=BLOCKSIZE)
    iso2.close()
    iso3 = pycdlib.PyCdlib()
    iso3.open_fp(img2)
    got = Sparse()
    iso3.get_file_from_iso_fp(got, iso_path='/NINE.;1', blocksize=BLOCKSIZE)
    check_content('second generation, get_file_from_iso_fp', got, problems)
    iso3.rm_file('/NINE.;1')
    left = [c.file_identifier() for c in iso3.list_children(iso_path='/')
            if c is not None and c.file_identifier() == b'NINE.;1']
    if left:
        problems.append('after rm_file %d record(s) of the file are still in the directory' % (len(left)))
    iso3.close()

    if problems:
        print('DEFECT: a three-part (9 GiB) file is not kept together')
        for p in problems:
            print('  ' + p)
        return 1
    print('OK')
    return 0


if __name__ == '__main__':
    sys.exit(main())
