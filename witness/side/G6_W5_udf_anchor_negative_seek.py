"""
The UDF anchor search seeks to 'last extent - 256' without checking the sign.
On an image that claims UDF but has fewer than 257 extents (physically or
according to the PVD) open() on a real file fails with OSError (EINVAL) and
open_fp() on a BytesIO reports a 'negative seek value' instead of a proper error.
"""
import io
import os
import sys
import tempfile

sys.path.insert(0, sys.argv[1])
import pycdlib  # noqa: E402


def build():
    iso = pycdlib.PyCdlib()
    iso.new()
    iso.add_fp(io.BytesIO(b'x' * 10), 10, '/A.;1')
    out = io.BytesIO()
    iso.write_fp(out)
    iso.close()
    img = bytearray(out.getvalue())
    # Turn the (all zero) version descriptor at extent 18 into a UDF Beginning
    # Extended Area Descriptor, and pad the image so that extent 256 exists
    # while the PVD still says that the volume is only a few extents long.
    img[18 * 2048:18 * 2048 + 7] = b'\x00BEA01\x01'
    img += b'\x00' * (300 * 2048 - len(img))
    return bytes(img)


def main():
    img = build()
    problems = []
    for how in ('open_fp', 'open'):
        iso = pycdlib.PyCdlib()
        path = None
        try:
            if how == 'open_fp':
                iso.open_fp(io.BytesIO(img))
            else:
                fd, path = tempfile.mkstemp(suffix='.iso')
                os.write(fd, img)
                os.close(fd)
                iso.open(path)
            iso.close()
        except pycdlib.pycdlibexception.PyCdlibInvalidISO as e:
            if 'negative seek' in str(e):
                problems.append('%s: seek to a negative offset attempted: %s' % (how, e))
        except Exception as e:  # pylint: disable=broad-except
            problems.append('%s: %s: %s' % (how, type(e).__name__, e))
        finally:
            if path is not None:
                os.unlink(path)

    if problems:
        print('\n'.join(problems))
        return 1
    print('OK')
    return 0


if __name__ == '__main__':
    sys.exit(main())
