"""
The ISO9660 facade derives the Rock Ridge name from the ISO9660 identifier
with the version still attached: 'ABCDEFGH.TXT;1' and 'ABCDEFGH.DOC;1' both
become 'ABCDEFGH.;1' ('/FOO.TXT;1' becomes 'FOO_TXT_.;1').  Two files added
through the facade get the same Rock Ridge name, so a Rock Ridge path reaches
only one of them.
"""
import io
import sys

sys.path.insert(0, sys.argv[1])

import pycdlib  # noqa: E402 pylint: disable=wrong-import-position


def main():
    problems = []

    iso = pycdlib.PyCdlib()
    iso.new(interchange_level=1, rock_ridge='1.09')
    facade = iso.get_iso9660_facade()
    facade.add_fp(io.BytesIO(b'txt'), 3, '/ABCDEFGH.TXT;1')
    facade.add_fp(io.BytesIO(b'doc'), 3, '/ABCDEFGH.DOC;1')

    out = io.BytesIO()
    iso.write_fp(out)
    iso.close()

    chk = pycdlib.PyCdlib()
    chk.open_fp(out)
    rr_names = {}
    for child in chk.list_children(iso_path='/'):
        if child.is_dot() or child.is_dotdot() or child.rock_ridge is None:
            continue
        rr_names.setdefault(child.rock_ridge.name(), []).append(child.file_identifier())
    for rr_name, idents in sorted(rr_names.items()):
        if len(idents) > 1:
            problems.append('Rock Ridge name %r is shared by %r' % (rr_name, idents))
    # Every file must be reachable, with its own contents, by its Rock Ridge name.
    contents = set()
    for rr_name in rr_names:
        got = io.BytesIO()
        chk.get_file_from_iso_fp(got, rr_path='/' + rr_name.decode('utf-8'))
        contents.add(got.getvalue())
    if contents != {b'txt', b'doc'}:
        problems.append('via Rock Ridge paths only %r can be read' % (sorted(contents),))
    chk.close()

    if problems:
        for problem in problems:
            print(problem)
        return 1
    print('OK')
    return 0


if __name__ == '__main__':
    sys.exit(main())
