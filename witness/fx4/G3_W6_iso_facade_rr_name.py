"""Observation F: the Rock Ridge names that the ISO9660 facade derives on a
Rock Ridge image must be distinct for distinct identifiers, so that both adds
succeed and every derived name addresses the entry it was derived for.

Usage: W6_iso_facade_rr_name.py <path-to-checkout>
"""
import io
import sys

sys.path.insert(0, sys.argv[1])

import pycdlib
from pycdlib.pycdlibexception import PyCdlibInvalidInput

LONG = 'ABCDEFGHIJKLMNOPQRSTUVWXYZ01234'

CASES = {
    1: (['/ABCDE.TXT;1', '/ABCDE.TXU;1', '/FOO.;1', '/FOO_.;1', '/FOO__1.;1', '/ABCDEFG.;1', '/ABCDEFG_.;1',
         '/A.TXT;1', '/A.TXT;2', '/.EXT;1', '/DIR1/IN.DIR;1'],
        ['/DIR1', '/DIR2']),
    3: (['/ABCDE.TXT;1', '/ABCDE.TXU;1', '/' + LONG + '1.TXT;1', '/' + LONG + '2.TXT;1', '/DIR1/IN.DIR;1'],
        ['/DIR1', '/' + LONG + '_A', '/' + LONG + '_B']),
}


def main():
    problems = []

    for level, (files, dirs) in sorted(CASES.items()):
        iso = pycdlib.PyCdlib()
        iso.new(interchange_level=level, rock_ridge='1.09')
        facade = iso.get_iso9660_facade()
        done = []
        for path in dirs:
            try:
                facade.add_directory(path)
                done.append(path)
            except PyCdlibInvalidInput as e:
                problems.append('level %d: add_directory(%s) failed: %s' % (level, path, e))
        for path in files:
            try:
                facade.add_fp(io.BytesIO(path.encode('ascii')), len(path), path)
                done.append(path)
            except PyCdlibInvalidInput as e:
                problems.append('level %d: add_fp(%s) failed: %s' % (level, path, e))

        out = io.BytesIO()
        iso.write_fp(out)
        iso.close()

        chk = pycdlib.PyCdlib()
        chk.open_fp(out)
        for path in done:
            # The Rock Ridge path of this entry, component by component.
            rr_path = ''
            sofar = ''
            for comp in path.strip('/').split('/'):
                sofar += '/' + comp
                rr_path += '/' + chk.get_record(iso_path=sofar).rock_ridge.name().decode('utf-8')
            try:
                rec = chk.get_record(rr_path=rr_path)
            except PyCdlibInvalidInput as e:
                problems.append('level %d: Rock Ridge path %s derived for %s: %s' % (level, rr_path, path, e))
                continue
            if chk.full_path_from_dirrecord(rec) != path:
                problems.append('level %d: Rock Ridge path %s derived for %s addresses %s' % (level, rr_path, path, chk.full_path_from_dirrecord(rec)))
            elif path in files:
                buf = io.BytesIO()
                chk.get_file_from_iso_fp(buf, rr_path=rr_path)
                if buf.getvalue() != path.encode('ascii'):
                    problems.append('level %d: Rock Ridge path %s derived for %s reads %r' % (level, rr_path, path, buf.getvalue()))
        chk.close()

    if problems:
        for p in problems:
            print(p)
        return 1
    print('OK')
    return 0


if __name__ == '__main__':
    sys.exit(main())
