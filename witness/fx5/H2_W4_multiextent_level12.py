#!/usr/bin/env python
"""
Observation D: a file that does not fit into one directory record (more than
0xfffff800 bytes) is recorded as a multi-extent file, which Ecma-119 10.1/10.2
only allows at interchange level 3.  At levels 1 and 2 such a file must be
refused with PyCdlibInvalidInput.  Only lengths are declared here, no large
image is written.

usage: W4_multiextent_level12.py <path-to-checkout>
"""
import io
import sys

sys.path.insert(0, sys.argv[1])

import pycdlib  # noqa: E402
from pycdlib import pycdlibexception  # noqa: E402

ONE_RECORD = 0xfffff800


def records(iso, **kwargs):
    return [(c.file_identifier(), c.get_data_length(), bool(c.file_flags & 0x80))
            for c in iso.list_children(**kwargs)][2:]


def main():
    problems = []
    for level in (1, 2, 3, 4):
        for length in (ONE_RECORD, ONE_RECORD + 1, 0xffffffff, 0x100000000, 5 * 1024 ** 3):
            for ns in ('iso', 'iso+joliet', 'joliet'):
                iso = pycdlib.PyCdlib()
                iso.new(interchange_level=level, joliet=3 if 'joliet' in ns else None)
                kwargs = {}
                if 'iso' in ns:
                    kwargs['iso_path'] = '/BIG.;1'
                if 'joliet' in ns:
                    kwargs['joliet_path'] = '/big'
                what = 'level %d, %s, %#x bytes' % (level, ns, length)
                try:
                    iso.add_fp(io.BytesIO(b''), length, **kwargs)
                    accepted = True
                except pycdlibexception.PyCdlibInvalidInput:
                    accepted = False
                except Exception as e:  # pylint: disable=broad-except
                    problems.append('%s: %s: %s' % (what, type(e).__name__, e))
                    continue
                recs = []
                if 'iso' in ns:
                    recs += records(iso, iso_path='/')
                if 'joliet' in ns:
                    recs += records(iso, joliet_path='/')
                multi = len(recs) > len(ns.split('+')) or any(r[2] for r in recs)
                if accepted and multi and level < 3:
                    problems.append('%s: accepted and recorded in several extents: %r' % (what, recs))
                if accepted and not multi and length > ONE_RECORD:
                    problems.append('%s: accepted, records look wrong: %r' % (what, recs))
                if not accepted and recs:
                    problems.append('%s: refused but records were left behind: %r' % (what, recs))
                if not accepted and (level >= 3 or length <= ONE_RECORD):
                    problems.append('%s: refused although it is legal' % what)
                iso.close()

    if problems:
        print('\n'.join(problems))
        return 1
    print('OK')
    return 0


if __name__ == '__main__':
    sys.exit(main())
