"""C19 rules.

SA-DATE   same-source rule: in every new() that records a timestamp, the broken-down fields and
          the struct_time handed to utils.gmtoffset_from_tm are the same local variable, obtained
          from time.localtime(tm) with the same tm that is passed as the instant; and the field at
          each record() position is the tm_* member the standard puts there.
SA-UNITS  the unit of the recorded GMT offset: the source returns 15-minute intervals (its last
          operation is `// 15`); ECMA-119 9.1.5 / 8.4.26.1 want 15-minute intervals, ECMA-167 1/7.3
          wants minutes.  A small dimension algebra over the expression between source and sink.
"""
import ast

from ..registry import rule, props
from ..report import Ob
from ..model import norm, AnalysisError
from .. import structfmt as sf

SRC = 'gmtoffset_from_tm'

# record() position -> tm member, per class (positions are those of the standards' layouts, see spec_layout.json)
TM_ORDER = {
    'dates.DirectoryRecordDate': {0: ('tm_year', -1900), 1: ('tm_mon', 0), 2: ('tm_mday', 0), 3: ('tm_hour', 0), 4: ('tm_min', 0), 5: ('tm_sec', 0)},
    'udf.UDFTimestamp': {2: ('tm_year', 0), 3: ('tm_mon', 0), 4: ('tm_mday', 0), 5: ('tm_hour', 0), 6: ('tm_min', 0), 7: ('tm_sec', 0)},
}
# sink attribute -> unit the standard prescribes
SINK_UNITS = {
    ('dates.DirectoryRecordDate', 'gmtoffset'): ('q15', 'ECMA-119 9.1.5: 15-minute intervals'),
    ('dates.VolumeDescriptorDate', 'gmtoffset'): ('q15', 'ECMA-119 8.4.26.1: 15-minute intervals'),
    ('udf.UDFTimestamp', 'tz'): ('min', 'ECMA-167 1/7.3: minutes'),
}


def _self_attr(e):
    if isinstance(e, ast.Attribute) and isinstance(e.value, ast.Name) and e.value.id == 'self':
        return e.attr
    return None


def _src_names(ctx):
    """SRC and every package function that only forwards its own parameters to it (`return SRC(a, b)`):
    such a wrapper is the same function of the instant, so calls to it count as calls to the source."""
    c = getattr(ctx, '_date_src_names', None)
    if c is not None:
        return c
    names = {SRC}
    changed = True
    while changed:
        changed = False
        for fi in ctx.m.pkg_functions():
            if fi.name in names:
                continue
            body = [s for s in fi.node.body if not (isinstance(s, ast.Expr) and isinstance(s.value, ast.Constant))]
            if len(body) != 1 or not isinstance(body[0], ast.Return) or not isinstance(body[0].value, ast.Call):
                continue
            c = body[0].value
            fn = c.func.attr if isinstance(c.func, ast.Attribute) else c.func.id if isinstance(c.func, ast.Name) else None
            params = [p for p in fi.params if p != 'self']
            if fn in names and not c.keywords and [norm(a) for a in c.args] == params:
                names.add(fi.name)
                changed = True
    ctx._date_src_names = names
    return names


def _is_src(ctx, n):
    return isinstance(n, ast.Call) and ((isinstance(n.func, ast.Attribute) and n.func.attr in _src_names(ctx)) or
                                        (isinstance(n.func, ast.Name) and n.func.id in _src_names(ctx)))


def _src_calls(ctx, fi):
    return [n for n in ctx.own_nodes(fi) if _is_src(ctx, n)]


@rule('SA-DATE')
@props('C19')
def same_source(ctx):
    obs = []
    ctx.func('utils.' + SRC)
    nfun = 0
    for fi in ctx.m.pkg_functions():
        calls = _src_calls(ctx, fi)
        if not calls or fi.name in _src_names(ctx):
            continue
        nfun += 1
        sdefs = {}
        # definitions of struct_time locals: name -> list of (localtime call arg)
        ldefs = {}
        for n in ctx.own_nodes(fi):
            if isinstance(n, ast.Assign) and len(n.targets) == 1 and isinstance(n.targets[0], ast.Name) and \
                    isinstance(n.value, ast.Call) and norm(n.value.func) in ('time.localtime', 'time.gmtime'):
                ldefs.setdefault(n.targets[0].id, []).append(n.value)
        for c in calls:
            key = '%s|%s' % (fi.qual, norm(c))
            if len(c.args) != 2:
                obs.append(Ob('SA-DATE', key, False, ctx.loc(fi, c), 'unexpected arity'))
                continue
            inst, st = c.args
            why = ''
            if not isinstance(st, ast.Name) or st.id not in ldefs:
                why = 'the struct_time argument %s is not a local obtained from time.localtime' % norm(st)
            else:
                for d in ldefs[st.id]:
                    if norm(d.func) != 'time.localtime':
                        why = '%s is not local time' % st.id
                    elif not d.args or norm(d.args[0]) != norm(inst):
                        why = 'offset computed for instant %s but the broken-down time %s was made from %s' % (
                            norm(inst), st.id, norm(d.args[0]) if d.args else 'now')
                pnames = [p.lstrip('*') for p in fi.params]
                if not why and not (isinstance(inst, ast.Name) and inst.id in pnames):
                    why = 'instant %s is not the parameter of %s' % (norm(inst), fi.name)
            obs.append(Ob('SA-DATE', key, not why, ctx.loc(fi, c), why))
            # all tm_* reads in the function come from the same struct_time
            if not why:
                others = set()
                for n in ctx.own_nodes(fi):
                    if isinstance(n, ast.Attribute) and n.attr.startswith('tm_') and isinstance(n.value, ast.Name) and n.value.id != st.id:
                        others.add(n.value.id)
                    if isinstance(n, ast.Call) and norm(n.func) == 'time.strftime' and len(n.args) > 1 and norm(n.args[1]) != st.id:
                        others.add(norm(n.args[1]))
                ok = not others
                obs.append(Ob('SA-DATE', '%s|fields from %s' % (fi.qual, st.id), ok, ctx.loc(fi, c),
                              '' if ok else 'recorded fields are taken from %s, the offset from %s' % (sorted(others), st.id)))
    if nfun < 3:
        raise AnalysisError('anchor-vanished: timestamp constructors using %s (%d)' % (SRC, nfun))
    # field order
    for cq, order in TM_ORDER.items():
        ci = ctx.cls(cq)
        rec, new = ci.methods.get('record'), ci.methods.get('new')
        if rec is None or new is None:
            raise AnalysisError('anchor-vanished %s.record/new' % cq)
        site = None
        for s in sf.sites(ctx, rec):
            if s.kind == 'pack' and s.items:
                site = s
        if site is None:
            raise AnalysisError('anchor-vanished pack in %s.record' % cq)
        assigned = {}
        for n in ctx.own_nodes(new):
            if isinstance(n, ast.Assign) and len(n.targets) == 1 and _self_attr(n.targets[0]):
                assigned.setdefault(_self_attr(n.targets[0]), []).append(n.value)
        for pos, (tmf, delta) in sorted(order.items()):
            a = site.items[pos] if pos < len(site.items) else None
            at = _self_attr(a) if a is not None else None
            key = '%s|field %d = %s' % (cq, pos, tmf)
            if at is None:
                obs.append(Ob('SA-DATE', key, False, ctx.loc(rec, site.call), 'record() does not emit an attribute at position %d' % pos))
                continue
            vals = assigned.get(at, [])
            ok = bool(vals)
            why = '' if ok else 'self.%s is never assigned in new()' % at
            for v in vals:
                members = [x.attr for x in ast.walk(v) if isinstance(x, ast.Attribute) and x.attr.startswith('tm_')]
                consts = [x.value for x in ast.walk(v) if isinstance(x, ast.Constant) and isinstance(x.value, int)]
                sub = any(isinstance(x, ast.BinOp) and isinstance(x.op, ast.Sub) for x in ast.walk(v))
                if members != [tmf]:
                    ok, why = False, 'position %d of the recorded date (self.%s) is filled from %s, the standard puts %s there' % (pos, at, members or norm(v), tmf)
                elif delta and not (sub and consts == [-delta]):
                    ok, why = False, 'self.%s must be %s %+d' % (at, tmf, delta)
                elif not delta and consts:
                    ok, why = False, 'self.%s must be %s unmodified' % (at, tmf)
            obs.append(Ob('SA-DATE', key, ok, ctx.loc(new, vals[0] if vals else new.node), why))
    return obs


def _unit_of_source(ctx):
    fi = ctx.func('utils.' + SRC)
    rets = [n for n in ctx.own_nodes(fi) if isinstance(n, ast.Return) and n.value is not None]
    if len(rets) != 1:
        return None
    v = rets[0].value
    if isinstance(v, ast.BinOp) and isinstance(v.op, ast.FloorDiv) and isinstance(v.right, ast.Constant) and v.right.value == 15:
        # minutes // 15 ; the numerator must be in minutes: tmpmin + 60 * (...)
        num = norm(v.left)
        if '60 *' in num or '* 60' in num:
            return 'q15'
    if isinstance(v, ast.BinOp) and isinstance(v.op, ast.Add):
        num = norm(v)
        if '60 *' in num or '* 60' in num:
            return 'min'
    return None


def _unit(expr, src_unit, ctx=None):
    """unit of an expression built from a call to the source"""
    if _is_src(ctx, expr):
        return src_unit
    if isinstance(expr, ast.BinOp) and isinstance(expr.right, ast.Constant) and expr.right.value == 15:
        u = _unit(expr.left, src_unit, ctx)
        if isinstance(expr.op, ast.Mult) and u == 'q15':
            return 'min'
        if isinstance(expr.op, ast.FloorDiv) and u == 'min':
            return 'q15'
        return '?'
    if isinstance(expr, ast.BinOp) and isinstance(expr.left, ast.Constant) and expr.left.value == 15 and isinstance(expr.op, ast.Mult):
        u = _unit(expr.right, src_unit, ctx)
        return 'min' if u == 'q15' else '?'
    return '?'


@rule('SA-UNITS')
@props('C19')
def units(ctx):
    obs = []
    su = _unit_of_source(ctx)
    ok = su is not None
    obs.append(Ob('SA-UNITS', 'utils.%s|unit' % SRC, ok, 'pycdlib/utils.py',
                  '' if ok else 'cannot derive the unit of the GMT offset source from its return expression'))
    if not ok:
        return obs
    seen = set()
    for fi in ctx.m.pkg_functions():
        if fi.cls is None:
            continue
        for n in ctx.own_nodes(fi):
            if not (isinstance(n, ast.Assign) and len(n.targets) == 1 and _self_attr(n.targets[0])):
                continue
            if (fi.cls.qual, _self_attr(n.targets[0])) not in SINK_UNITS and not any(_is_src(ctx, x) for x in ast.walk(n.value)):
                continue
            from .. import expand as _ex
            value = _ex.expand(ctx, fi, n.value, n)
            if any(_is_src(ctx, x) for x in ast.walk(value)):
                k = (fi.cls.qual, _self_attr(n.targets[0]))
                seen.add(k)
                want = SINK_UNITS.get(k)
                key = '%s.%s' % k
                if want is None:
                    obs.append(Ob('SA-UNITS', key, False, ctx.loc(fi, n), 'unknown sink for a GMT offset: add its unit to the table after reading the standard'))
                    continue
                got = _unit(value, su, ctx)
                ok = got == want[0]
                obs.append(Ob('SA-UNITS', key, ok, ctx.loc(fi, n),
                              '' if ok else 'stores the offset in %s, the field is defined in %s (%s)' % (
                                  {'q15': '15-minute intervals', 'min': 'minutes'}.get(got, 'an unknown unit'),
                                  {'q15': '15-minute intervals', 'min': 'minutes'}[want[0]], want[1])))
    for k in SINK_UNITS:
        if k not in seen:
            raise AnalysisError('anchor-vanished: sink %s.%s no longer assigned from %s' % (k[0], k[1], SRC))
    # the UDF parser's own range check agrees with minutes (+-1440)
    ts = ctx.cls('udf.UDFTimestamp').methods.get('parse')
    if ts is not None:
        rng = [n for n in ctx.own_nodes(ts) if isinstance(n, ast.Compare) and 'self.tz' in norm(n) and '1440' in norm(n)]
        obs.append(Ob('SA-UNITS', 'udf.UDFTimestamp.parse|range', bool(rng), ctx.loc(ts, ts.node),
                      '' if rng else 'parser no longer range-checks tz as minutes (+-1440)'))
    return obs


GLOBAL_TZ = ('timezone', 'altzone', 'daylight', 'tzname')


@rule('SA-DATE.instant')
@props('C19')
def instant(ctx):
    """The recorded GMT offset is a function of the instant: (a) the value stored in each offset field comes
    from a function that receives the instant, breaks it down with time.gmtime() and compares that with the
    local broken-down time; (b) nothing in the package reads time.timezone / time.altzone / time.daylight /
    time.tzname - those are process-wide constants derived from the zone's rules for the *current* year, not
    the offset that was in force at the instant being recorded."""
    obs = []
    for fi in ctx.m.pkg_functions():
        for n in ctx.own_nodes(fi):
            if isinstance(n, ast.Attribute) and n.attr in GLOBAL_TZ and isinstance(n.value, ast.Name) and n.value.id == 'time':
                obs.append(Ob('SA-DATE.instant', '%s|time.%s' % (fi.qual, n.attr), False, ctx.loc(fi, n),
                              '%s reads time.%s: a process-wide constant taken from the zone rules of the current year, not the offset in force at the instant '
                              'that is being recorded (zones whose rules changed, negative DST) - the offset must be derived from gmtime(instant) vs localtime(instant)'
                              % (fi.qual, n.attr)))
    nsinks = 0
    for (cq, attr), _u in sorted(SINK_UNITS.items()):
        ci = ctx.cls(cq)
        new = ci.methods.get('new')
        if new is None:
            raise AnalysisError('anchor-vanished %s.new' % cq)
        assigns = [n for n in ctx.own_nodes(new) if isinstance(n, ast.Assign) and len(n.targets) == 1 and _self_attr(n.targets[0]) == attr]
        if not assigns:
            raise AnalysisError('anchor-vanished: %s.new no longer assigns self.%s' % (cq, attr))
        for a in assigns:
            nsinks += 1
            key = '%s.new|self.%s' % (cq, attr)
            from .. import expand as _ex
            val = _ex.expand(ctx, new, a.value, a)
            calls = [x for x in ast.walk(val) if isinstance(x, ast.Call)]
            aware = False
            seen_f = []
            for c in calls:
                callees, kind = ctx.t._resolve(c, new)
                if kind not in ('func', 'method'):
                    continue
                for f in callees:
                    seen_f.append(f.qual)
                    if f.name in _src_names(ctx) and f.name != SRC:
                        # a wrapper that only forwards its parameters: judge the function it forwards to
                        f = ctx.func('utils.' + SRC)
                    params = [p.lstrip('*') for p in f.params if p != 'self']
                    gm = [x for x in ctx.own_nodes(f) if isinstance(x, ast.Call) and norm(x.func) == 'time.gmtime' and x.args and
                          isinstance(x.args[0], ast.Name) and x.args[0].id in params]
                    tmreads = set(x.value.id for x in ctx.own_nodes(f) if isinstance(x, ast.Attribute) and x.attr.startswith('tm_') and isinstance(x.value, ast.Name))
                    if gm and len(tmreads) >= 2 and any(t in params for t in tmreads):
                        aware = True
            constant = not calls and isinstance(val, ast.Constant)
            params_new = [p.lstrip('*') for p in new.params]
            ok = aware or constant or (not calls and isinstance(val, ast.Name) and val.id in params_new)
            obs.append(Ob('SA-DATE.instant', key, ok, ctx.loc(new, a),
                          '' if ok else 'the GMT offset stored in %s.%s is computed by %s, which does not compare time.gmtime(instant) with the local broken-down time of '
                          'the same instant: the recorded offset is then not the one in force at that instant' % (cq.split('.')[-1], attr, ', '.join(seen_f) or norm(a.value))))
    if nsinks < 3:
        raise AnalysisError('anchor-vanished: GMT offset sinks (%d)' % nsinks)
    return obs


@rule('SA-DATE.signext')
@props('C19')
def signext(ctx):
    """Sign extension of a two's complement field (the 12-bit UDF time zone): where a value is tested against a single
    bit M and, when the bit is set, reduced by K, K is twice M (`if v & (1 << (bits - 1)): v -= 1 << bits`, or the same
    with literals: 0x800 and 0x1000).  Any other K shifts every negative value - with 0xfff a zone of -300 minutes is
    parsed as -299, so every timestamp read from an image made west of Greenwich denotes an instant one minute off and
    moves by another minute with each open-and-write generation."""
    from ..model import fold, NotConst
    obs = []
    n = 0
    for fi in ctx.m.pkg_functions():
        if fi.module not in ('udf', 'dates', 'utils', 'rockridge'):
            continue
        mi = ctx.m.modules[fi.module]
        for node in ctx.own_nodes(fi):
            if not isinstance(node, ast.If):
                continue
            t = node.test
            if isinstance(t, ast.Compare) and len(t.ops) == 1 and isinstance(t.ops[0], ast.NotEq) and isinstance(t.comparators[0], ast.Constant) and t.comparators[0].value == 0:
                t = t.left
            if not (isinstance(t, ast.BinOp) and isinstance(t.op, ast.BitAnd)):
                continue
            for var, mask in ((t.left, t.right), (t.right, t.left)):
                subs = []
                for st in node.body:
                    if isinstance(st, ast.AugAssign) and isinstance(st.op, ast.Sub) and norm(st.target) == norm(var):
                        subs.append(st.value)
                    elif isinstance(st, ast.Assign) and len(st.targets) == 1 and norm(st.targets[0]) == norm(var) and isinstance(st.value, ast.BinOp) and \
                            isinstance(st.value.op, ast.Sub) and norm(st.value.left) == norm(var):
                        subs.append(st.value.right)
                if len(subs) != 1:
                    continue
                k = subs[0]
                ok = None
                try:
                    m_c, k_c = fold(mask, ctx.m, mi), fold(k, ctx.m, mi)
                    if isinstance(m_c, int) and isinstance(k_c, int) and m_c > 0 and m_c & (m_c - 1) == 0:
                        ok = (k_c == 2 * m_c)
                        shown = '%#x and %#x' % (m_c, k_c)
                except NotConst:
                    pass
                if ok is None:
                    # symbolic: 1 << (b - 1)  and  1 << b
                    if isinstance(mask, ast.BinOp) and isinstance(mask.op, ast.LShift) and norm(mask.left) == '1' and \
                            isinstance(mask.right, ast.BinOp) and isinstance(mask.right.op, ast.Sub) and norm(mask.right.right) == '1':
                        ok = isinstance(k, ast.BinOp) and isinstance(k.op, ast.LShift) and norm(k.left) == '1' and norm(mask.right.left) == norm(k.right)
                        shown = '%s and %s' % (norm(mask), norm(k))
                if ok is None:
                    continue
                n += 1
                obs.append(Ob('SA-DATE.signext', '%s|sign extension of %s' % (fi.qual, norm(var)), ok, ctx.loc(fi, node),
                              '' if ok else 'the value is tested against the sign bit and then reduced (%s): the amount taken off a two\'s complement value whose sign bit is M '
                              'is 2*M; with anything else every negative value is off by the difference (a parsed time zone of -300 minutes becomes -299)' % shown))
    # the idiom may be replaced by another way of decoding (struct, int.from_bytes(signed=True)): no floor
    obs.append(Ob('SA-DATE.signext', 'sign extensions by test-and-subtract examined', True, '', '%d' % n))
    return obs


@rule('SA-DATE.width')
@props('C19')
def date_width(ctx):
    """The 17-byte date of a volume descriptor is assembled from pieces of fixed width: 14 digits from strftime, two
    digits of hundredths, one byte of offset.  `struct.pack('17s')` cuts a longer string silently - and the byte it cuts
    is the offset from GMT, so the recorded time is read in another zone.  Every piece formatted with a minimum width
    (`'{:02d}'`, `'{:0<2}'`, `'%02d'`) therefore needs a value that provably fits: a constant, an attribute assigned a
    constant in the same branch, `x % 10**w`, or `min(x, 10**w - 1)`.  A value like `int(round(frac * 100))` reaches
    100 for the last half hundredth of every second."""
    import re
    fi = ctx.func('dates.VolumeDescriptorDate.new')
    obs = []
    n = 0
    if not any(isinstance(st, ast.Assign) and any(isinstance(t, ast.Attribute) and t.attr == 'date_str' for t in st.targets) for st in ctx.own_nodes(fi)):
        raise AnalysisError('anchor-vanished: VolumeDescriptorDate.new no longer assigns date_str')
    for st in ctx.own_nodes(fi):
        # every formatted numeric piece built in new() ends up in date_str (directly or through a local)
        if not isinstance(st, ast.Assign):
            continue
        for c in ast.walk(st.value):
            fmt, val = None, None
            if isinstance(c, ast.Call) and isinstance(c.func, ast.Attribute) and c.func.attr == 'format' and isinstance(c.func.value, ast.Constant) and \
                    isinstance(c.func.value.value, str) and len(c.args) == 1:
                fmt, val = c.func.value.value, c.args[0]
                m = re.fullmatch(r'\{:0?[<>]?(\d+)d?\}', fmt)
            elif isinstance(c, ast.BinOp) and isinstance(c.op, ast.Mod) and isinstance(c.left, ast.Constant) and isinstance(c.left.value, str):
                fmt, val = c.left.value, c.right
                m = re.fullmatch(r'%0?(\d+)d', fmt)
            else:
                continue
            if not m:
                continue
            w = int(m.group(1))
            n += 1
            ok = _fits(ctx, fi, val, st, w)
            obs.append(Ob('SA-DATE.width', '%s|%s formatted as %r' % (fi.qual, norm(val), fmt), ok, ctx.loc(fi, c),
                          '' if ok else '`%s` is formatted with a minimum width of %d but is not known to stay below %d: one character more makes the date 18 bytes, and the '
                          '17-byte field drops the last one - the offset from GMT' % (norm(val), w, 10 ** w)))
    if n < 1:
        raise AnalysisError('anchor-vanished: formatted pieces of VolumeDescriptorDate.date_str')
    return obs


def _fits(ctx, fi, val, st, w):
    def const_ok(e):
        return isinstance(e, ast.Constant) and isinstance(e.value, int) and 0 <= e.value < 10 ** w
    if const_ok(val):
        return True
    if isinstance(val, ast.BinOp) and isinstance(val.op, ast.Mod) and isinstance(val.right, ast.Constant) and isinstance(val.right.value, int) and 0 < val.right.value <= 10 ** w:
        return True
    if isinstance(val, ast.Call) and isinstance(val.func, ast.Name) and val.func.id == 'min' and any(const_ok(a) for a in val.args):
        return True
    if isinstance(val, ast.Attribute) and isinstance(val.value, ast.Name) and val.value.id == 'self':
        # the nearest assignment of that attribute before st in the same block
        par = ctx.parents(fi)
        p = par.get(id(st))
        for fld in ('body', 'orelse'):
            b = getattr(p, fld, None)
            if isinstance(b, list) and any(x is st for x in b):
                prev = None
                for x in b:
                    if x is st:
                        break
                    if isinstance(x, ast.Assign) and any(isinstance(t, ast.Attribute) and t.attr == val.attr for t in x.targets):
                        prev = x
                if prev is not None:
                    return _fits(ctx, fi, prev.value, prev, w)
    return False
