"""SA-LEN.susp: the length byte of a SUSP/RRIP entry equals the number of bytes record() emits (C05, C08).

Every Rock Ridge entry is `signature(2) + su_len(1) + version(1) + payload`; su_len is what a reader
uses to step to the next entry, and the class's length() is what the layout code uses to account for
the entry.  For each entry class the rule computes, with the length algebra over bytes expressions
(constants, struct.pack sizes, concatenation, b''.join of literal lists, len(self.x) atoms), the length
of what record() returns and the value packed into the su_len position, and compares the two linear
forms.  Classes whose record() builds its output in a loop or depends on the Rock Ridge version are
reported as advisory "not decided" (they are covered only by SA-SPEC.susp and SA-PAIR.rr_placement).
"""
import ast

from ..registry import rule, props
from ..report import Ob
from ..model import norm, AnalysisError
from .. import lenalg


@rule('SA-LEN.susp')
@props('C05', 'C08')
def len_susp(ctx):
    obs = []
    decided = 0
    for c in sorted(ctx.m.classes.values(), key=lambda c: c.qual):
        if c.module != 'rockridge' or 'record' not in c.methods or 'length' not in c.methods:
            continue
        if not c.name.startswith('RR') or '.' in c.qual.split('.', 1)[1]:
            continue          # entry classes only (components of SL/AL are not SUSP entries)
        fi = c.methods['record']
        rets = [n for n in ctx.own_nodes(fi) if isinstance(n, ast.Return) and n.value is not None]
        packs = [n for n in ctx.own_nodes(fi) if isinstance(n, ast.Call) and norm(n.func) == 'struct.pack' and len(n.args) >= 2]
        packs.sort(key=lambda n: (n.lineno, n.col_offset))
        key = c.qual
        if not rets or not packs:
            obs.append(Ob('SA-LEN.susp', key, True, ctx.loc(fi, fi.node), 'no struct.pack in record()', advisory=True))
            continue
        # locals bound more than once (if/else alternatives, +=) are not single values: not decided
        sd = ctx.single_defs(fi)
        params = set(p.lstrip('*') for p in fi.params)
        multi = False
        for e in [packs[0].args[1]] + [r.value for r in rets]:
            for sub in ast.walk(e):
                if isinstance(sub, ast.Name) and isinstance(sub.ctx, ast.Load) and sub.id not in sd and sub.id not in params and \
                        any(isinstance(m, (ast.Assign, ast.AugAssign)) and sub.id in
                            [t.id for t in (m.targets if isinstance(m, ast.Assign) else [m.target]) if isinstance(t, ast.Name)]
                            for m in ctx.own_nodes(fi)):
                    multi = True
        if multi:
            obs.append(Ob('SA-LEN.susp', key, True, ctx.loc(fi, fi.node),
                          'not decided: record() assembles its output along several branches', advisory=True))
            continue
        try:
            su = lenalg.int_value(ctx, fi, packs[0].args[1])
            tots = set()
            for r in rets:
                tots.add(lenalg.bytes_len(ctx, fi, r.value))
        except lenalg.Unknown:
            obs.append(Ob('SA-LEN.susp', key, True, ctx.loc(fi, fi.node),
                          'not decided: record() is built in a loop or depends on the Rock Ridge version', advisory=True))
            continue
        decided += 1
        bad = [t for t in tots if t != su]
        obs.append(Ob('SA-LEN.susp', key, not bad, ctx.loc(fi, packs[0]),
                      '' if not bad else 'record() of %s emits `%r` bytes but stores `%r` in its su_len byte: a reader stepping by su_len lands inside / beyond the entry, '
                      'and the space accounted with length() is not the space written' % (c.name, bad[0], su)))
    if decided < 10:
        raise AnalysisError('anchor-vanished: SUSP entry classes with decidable length (%d)' % decided)
    return obs
