"""
duplicate_pvd() together with add_eltorito() (in either order) puts the second
PVD at sector 17 and the El Torito Boot Record at sector 18.  El Torito requires
the Boot Record at sector 17, and pycdlib itself refuses to open the image it
wrote ("El Torito Boot Record must be at extent 17").
"""
import io
import sys

sys.path.insert(0, sys.argv[1])
import pycdlib  # noqa: E402

BOOT = b'boot' * 512


def build(dup_first):
    iso = pycdlib.PyCdlib()
    iso.new()
    if dup_first:
        iso.duplicate_pvd()
    iso.add_fp(io.BytesIO(BOOT), len(BOOT), '/BOOT.;1')
    iso.add_eltorito('/BOOT.;1', '/BOOT.CAT;1')
    if not dup_first:
        iso.duplicate_pvd()
    out = io.BytesIO()
    iso.write_fp(out)
    iso.close()
    return out.getvalue()


def descriptors(img):
    # (sector, type, payload id) of the volume descriptor set, up to the terminator
    res = []
    sec = 16
    while (sec + 1) * 2048 <= len(img):
        vd = img[sec * 2048:(sec + 1) * 2048]
        if vd[1:6] != b'CD001':
            break
        res.append((sec, vd[0], vd[7:30]))
        if vd[0] == 255:
            break
        sec += 1
    return res


def check(img, label, problems):
    descs = descriptors(img)
    layout = ', '.join('%d:type%d' % (s, t) for s, t, _ in descs)
    torito = [s for s, t, ident in descs if t == 0 and ident == b'EL TORITO SPECIFICATION']
    npvd = len([s for s, t, _ in descs if t == 1])
    if torito != [17]:
        problems.append('%s: El Torito Boot Record at sector %s, must be 17 (%s)' % (label, torito, layout))
    if npvd != 2:
        problems.append('%s: %d PVDs in the written image, expected 2 (%s)' % (label, npvd, layout))
    if not descs or descs[-1][1] != 255:
        problems.append('%s: volume descriptor set is not terminated (%s)' % (label, layout))
    iso = pycdlib.PyCdlib()
    try:
        iso.open_fp(io.BytesIO(img))
    except Exception as e:  # pylint: disable=broad-except
        problems.append('%s: pycdlib cannot open its own image: %s: %s' % (label, type(e).__name__, e))
        return None
    return iso


def main():
    problems = []
    for dup_first in (True, False):
        label = 'duplicate_pvd %s add_eltorito' % ('before' if dup_first else 'after')
        img = build(dup_first)
        iso = check(img, label, problems)
        if iso is None:
            continue
        # The boot file must still be there, and an edit + rewrite must keep the layout.
        got = io.BytesIO()
        iso.get_file_from_iso_fp(got, iso_path='/BOOT.;1')
        if got.getvalue() != BOOT:
            problems.append('%s: boot file content changed' % label)
        iso.add_fp(io.BytesIO(b'x'), 1, '/X.;1')
        out = io.BytesIO()
        iso.write_fp(out)
        iso.close()
        iso2 = check(out.getvalue(), label + ', reopened and edited', problems)
        if iso2 is not None:
            iso2.close()

    if problems:
        for p in problems:
            print(p)
        return 1
    print('OK')
    return 0


if __name__ == '__main__':
    sys.exit(main())
