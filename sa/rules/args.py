"""SA-ARGS.swap: an argument that carries the name of a parameter is passed in that parameter's position.

Many internal signatures have neighbouring parameters of the same type (`_create_dotdot(vd, parent, rock_ridge,
relocated, xa, file_mode)`: two booleans side by side; `new_dir(vd, name, parent, seqnum, rock_ridge, rr_name,
log_block_size, rr_relocated_child, rr_relocated, xa, file_mode, ...)`), and the call sites pass attributes and locals
that are named after the parameter they are meant for (`self.xa`, `relocated`, `seqnum`).  When such an argument sits
in the slot of a *different* parameter while the parameter it is named after also exists in the callee and receives
something else, two arguments have been exchanged: the call type-checks and usually behaves the same for the default
configuration (both False), and differs exactly when the two values differ.

Decided on resolved calls with positional arguments: for an argument i that is a field access `self.t` / `x.t` (leading
underscores ignored; plain locals are exempt, see _is_config_attr), parameter names p: report when t == p[j] for some j != i,
t != p[i], and the argument in slot j is not itself named p[i]... (a deliberate cross-over of two equally named pairs
does not occur in this code base) - unless the callee's parameter in slot i is a generic carrier (`value`, `data`,
`arg`) for which names say nothing.
"""
import ast

from ..registry import rule, props
from ..report import Ob
from ..model import norm, AnalysisError

GENERIC = {'value', 'data', 'arg', 'val', 'x', 'obj', 'item', 'name', 'fp', 'length', 'offset', 'instr', 'record', 'rec', 'parent', 'child'}
MODULE_PROPS = {
    'pycdlib': 'C01', 'dr': 'C03', 'rockridge': 'C08', 'udf': 'C10', 'eltorito': 'C11', 'isohybrid': 'C12', 'facade': 'C18', 'utils': 'C18',
    'dates': 'C19', 'inode': 'C07', 'headervd': 'C03', 'path_table_record': 'C03', 'pycdlibio': 'C16',
}


def _term(e):
    if isinstance(e, ast.Name):
        return e.id.lstrip('_')
    if isinstance(e, ast.Attribute):
        return e.attr.lstrip('_')
    return None


def _is_config_attr(e):
    """`self.xa`, `self.rock_ridge`, `vd.logical_block_size`: a field of an object, named after what it holds.  Locals
    and parameters are deliberately passed under other names in this code base (`_finish_add(0, num_bytes_to_add)`
    accounts ordinary bytes as partition bytes, `_get_and_write_fp` tries one path in every namespace), fields are not."""
    return isinstance(e, ast.Attribute)


def _analyse(ctx, funcs, rid):
    obs = []
    ncalls = 0
    for fi in funcs:
        for c in ctx.calls(fi):
            callees = [x for x in c.callees if hasattr(x, 'params')]
            if not callees or not c.node.args or any(isinstance(a, ast.Starred) for a in c.node.args):
                continue
            sigs = set()
            for cal in callees:
                ps = [p for p in cal.params]
                if ps and ps[0] in ('self', 'cls') and (c.kind in ('method', 'ctor') or isinstance(c.node.func, ast.Attribute)) and cal.cls is not None and not cal.is_static:
                    ps = ps[1:]
                sigs.add(tuple(p.lstrip('*').lstrip('_') for p in ps))
            if len(sigs) != 1:
                continue
            ps = list(sigs.pop())
            args = c.node.args
            if len(args) > len(ps) or len(args) < 2:
                continue
            ncalls += 1
            terms = [_term(a) for a in args]
            for i, t in enumerate(terms):
                if t is None or t == ps[i] or ps[i] in GENERIC and t in GENERIC or not _is_config_attr(args[i]):
                    continue
                if t in ps:
                    j = ps.index(t)
                    if j == i:
                        continue
                    # the slot the name belongs to gets something else (or nothing positional)
                    other = terms[j] if j < len(terms) else '<keyword/default>'
                    if other == t:
                        continue
                    key = '%s|%s arg %d' % (fi.qual, norm(c.node.func), i)
                    obs.append(Ob(rid, key, False, ctx.loc(fi, args[i]),
                                  '`%s` is passed as parameter `%s` (position %d) of %s, while that callee has a parameter named `%s` (position %d) which receives `%s`: '
                                  'two arguments look exchanged - the call behaves the same only as long as both values are equal'
                                  % (norm(args[i]), ps[i], i + 1, callees[0].qual, t, j + 1, norm(args[j]) if j < len(args) else other)))
    obs.append(Ob(rid, 'positional calls checked', True, '', '%d resolved calls with two or more positional arguments' % ncalls))
    return obs, ncalls


def _mk(module, prop):
    @rule('SA-ARGS.swap.' + module)
    @props(prop)
    def f(ctx, _m=module):
        funcs = [x for x in ctx.m.pkg_functions() if x.module == _m]
        if not funcs:
            raise AnalysisError('anchor-vanished: no functions in module %s' % _m)
        obs, n = _analyse(ctx, funcs, 'SA-ARGS.swap.' + _m)
        return obs
    return f


for _m, _p in sorted(MODULE_PROPS.items()):
    _mk(_m, _p)


@rule('SA-ARGS.swap.tools')
@props('C20')
def swap_tools(ctx):
    funcs = [x for x in ctx.m.functions.values() if ctx.m.modules[x.module].is_tool]
    obs, n = _analyse(ctx, funcs, 'SA-ARGS.swap.tools')
    return obs
