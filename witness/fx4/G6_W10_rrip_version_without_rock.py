#!/usr/bin/env python3
"""
Witness for observation I (notes item 9): -rrip110 / -rrip112 without -R or
-r.  As in genisoimage these options only choose the version of Rock Ridge;
they do not ask for Rock Ridge.  Without -R/-r the image must be built
without Rock Ridge; with -R the image must have the chosen version.

  python W10_rrip_version_without_rock.py <path-to-checkout>
"""
import os
import shutil
import subprocess
import sys
import tempfile

CHECKOUT = os.path.abspath(sys.argv[1])
sys.path.insert(0, CHECKOUT)

import pycdlib  # noqa: E402,F401  pylint: disable=wrong-import-position,unused-import


def tool(name, *args):
    """Run one of the tools of the checkout; returns (exit code, stdout, stderr)."""
    env = dict(os.environ)
    env['PYTHONPATH'] = CHECKOUT
    proc = subprocess.run([sys.executable, os.path.join(CHECKOUT, 'tools', name)] + list(args),
                          env=env, stdout=subprocess.PIPE, stderr=subprocess.PIPE,
                          universal_newlines=True, check=False)
    return proc.returncode, proc.stdout, proc.stderr


def last_line(text):
    lines = text.strip().splitlines()
    return lines[-1] if lines else ''


def make_tree(root, files):
    """files: relative path -> bytes (file), (target,) (symlink) or None (directory)."""
    os.makedirs(root)
    for rel, content in files.items():
        full = os.path.join(root, rel)
        if content is None:
            os.makedirs(full, exist_ok=True)
            continue
        os.makedirs(os.path.dirname(full), exist_ok=True)
        if isinstance(content, tuple):
            os.symlink(content[0], full)
        else:
            with open(full, 'wb') as outfp:
                outfp.write(content)


def tree(root):
    """relative path -> 'dir', ('link', target) or the file contents."""
    out = {}
    for dirpath, dirnames, filenames in os.walk(root):
        for name in dirnames + filenames:
            full = os.path.join(dirpath, name)
            rel = os.path.relpath(full, root)
            if os.path.islink(full):
                out[rel] = ('link', os.readlink(full))
            elif os.path.isdir(full):
                out[rel] = 'dir'
            else:
                with open(full, 'rb') as infp:
                    out[rel] = infp.read()
    return out


def diff_trees(want, got):
    problems = []
    for rel in sorted(set(want) - set(got)):
        problems.append('missing from the extracted tree: %s' % (rel))
    for rel in sorted(set(got) - set(want)):
        problems.append('not in the source tree: %s' % (rel))
    for rel in sorted(set(got) & set(want)):
        if got[rel] != want[rel]:
            problems.append('%s differs: source %r, extracted %r' % (rel, want[rel][:80], got[rel][:80]))
    return problems


def build(tmp, files, opts):
    """Build tmp/out.iso from a fresh tmp/src; returns (src, isoname, exit code, stderr)."""
    src = os.path.join(tmp, 'src')
    make_tree(src, files)
    isoname = os.path.join(tmp, 'out.iso')
    ret, _, err = tool('pycdlib-genisoimage', '-quiet', *(list(opts) + ['-o', isoname, src]))
    return src, isoname, ret, err


def extract(tmp, isoname, view):
    """Extract one view to a fresh directory; returns (dest, exit code, stderr)."""
    dest = os.path.join(tmp, 'dest_' + view)
    os.makedirs(dest)
    ret, _, err = tool('pycdlib-extract-files', '-path-type', view, '-extract-to', dest, isoname)
    return dest, ret, err


def run(check):
    tmp = tempfile.mkdtemp()
    try:
        problems = check(tmp)
    finally:
        shutil.rmtree(tmp, ignore_errors=True)
    if problems:
        for problem in problems:
            print(problem)
        return 1
    print('OK')
    return 0


def check(tmp):
    problems = []
    # On parsing, versions 1.09 and 1.10 can only be told apart when a record
    # carries a Rock Ridge RR entry, so both are accepted for those two.
    for opts, want_rr in ((['-rrip110'], ('',)), (['-rrip112'], ('',)), (['-R'], ('1.09', '1.10')),
                          (['-R', '-rrip110'], ('1.09', '1.10')), (['-r', '-rrip112'], ('1.12',))):
        sub = os.path.join(tmp, '_'.join(opts))
        os.makedirs(sub)
        src, isoname, ret, err = build(sub, {'a.txt': b'aa\n', 'long-name.text': b'bb\n'}, opts)
        if ret != 0:
            problems.append('%s: pycdlib-genisoimage failed: %s' % (opts, last_line(err)))
            continue
        iso = pycdlib.PyCdlib()
        iso.open(isoname)
        got_rr = iso.rock_ridge if iso.has_rock_ridge() else ''
        iso.close()
        if got_rr not in want_rr:
            problems.append('%s: Rock Ridge version of the image is %r, expected %r' % (opts, got_rr, want_rr))
        if want_rr != ('',):
            dest, ret, err = extract(sub, isoname, 'rockridge')
            if ret != 0:
                problems.append('%s: pycdlib-extract-files failed: %s' % (opts, last_line(err)))
            problems.extend('%s: %s' % (opts, p) for p in diff_trees(tree(src), tree(dest)))
        else:
            dest, ret, err = extract(sub, isoname, 'iso')
            if ret != 0:
                problems.append('%s: pycdlib-extract-files failed: %s' % (opts, last_line(err)))
            got = tree(dest)
            if sorted(got.values()) != [b'aa\n', b'bb\n']:
                problems.append('%s: the ISO9660 view has %r' % (opts, sorted(got)))
    return problems


if __name__ == '__main__':
    sys.exit(run(check))
