"""F-11.3: an image with an El Torito section entry that is not bootable (add_eltorito(..., bootable=False),
boot indicator 0x00) could not be opened again: the catalog parser took every entry starting with 0x00
for the end-of-catalog marker ("section header specified 1 entries, only saw 0"); the alternative
`val in (0x88, 0x00)` further down the same if/elif chain was unreachable for 0x00.
usage: F11_3_eltorito_not_bootable_entry.py [repo]"""
import sys, io
sys.path.insert(0, sys.argv[1] if len(sys.argv) > 1 else '/repo')
import pycdlib

bad = []
for nsec in (1, 2, 3):
    iso = pycdlib.PyCdlib()
    iso.new()
    iso.add_fp(io.BytesIO(b'A' * 2048), 2048, '/BOOT0.;1')
    iso.add_eltorito('/BOOT0.;1')
    for i in range(1, nsec + 1):
        iso.add_fp(io.BytesIO(bytes([65 + i]) * 2048), 2048, '/BOOT%d.;1' % i)
        iso.add_eltorito('/BOOT%d.;1' % i, bootable=(i % 2 == 0), platform_id=0xef if i > 1 else 0)
    buf = io.BytesIO()
    iso.write_fp(buf)
    iso.close()
    chk = pycdlib.PyCdlib()
    try:
        chk.open_fp(buf)
    except Exception as e:
        bad.append('%d extra entries: written image does not open: %s: %s' % (nsec, type(e).__name__, e))
        continue
    cat = chk.eltorito_boot_catalog
    got = [e.boot_indicator for s in cat.sections for e in s.section_entries] + [e.boot_indicator for e in cat.standalone_entries]
    want = [0x88 if i % 2 == 0 else 0 for i in range(1, nsec + 1)]
    if got != want:
        bad.append('%d extra entries: boot indicators after reopen %s, expected %s' % (nsec, got, want))
    out = io.BytesIO()
    chk.write_fp(out)
    chk.close()
    if out.getvalue() != buf.getvalue():
        bad.append('%d extra entries: open + write does not reproduce the image' % nsec)
if bad:
    print('\n'.join(bad)); print('FAIL'); sys.exit(1)
print('OK')
