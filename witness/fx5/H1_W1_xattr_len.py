#!/usr/bin/env python
# Witness A: a directory record with a non-zero Extended Attribute Record
# length (ECMA-119 9.1.2: number of logical blocks at the start of the extent
# that hold the XAR; the file's data starts after them).
#
# usage: W1_xattr_len.py <pycdlib checkout>
import io
import os
import shutil
import struct
import sys
import tempfile

sys.path.insert(0, sys.argv[1])
import pycdlib  # noqa: E402

BS = 2048


def pattern(tag, n):
    out = b''
    i = 0
    while len(out) < n:
        out += ('%s%06d|' % (tag, i)).encode('ascii')
        i += 1
    return out[:n]


def root_records(image):
    # yields (offset, identifier) for the records of the root directory
    pvd = 16 * BS
    ext = struct.unpack_from('<L', image, pvd + 156 + 2)[0]
    length = struct.unpack_from('<L', image, pvd + 156 + 10)[0]
    off = ext * BS
    end = off + length
    while off < end:
        rlen = image[off]
        if rlen == 0:
            off = (off // BS + 1) * BS
            continue
        len_fi = image[off + 32]
        yield off, bytes(image[off + 33:off + 33 + len_fi])
        off += rlen


def set_length(image, off, length):
    struct.pack_into('<L', image, off + 10, length)
    struct.pack_into('>L', image, off + 14, length)


def make_image(path):
    # /FILE.;1 is mastered as XARBLOCK + DATA; afterwards its record is
    # patched to say "one block of XAR, 500 bytes of data".
    xar = pattern('xar', BS)
    data = pattern('dat', 500)
    other = pattern('oth', 700)
    iso = pycdlib.PyCdlib()
    iso.new()
    iso.add_fp(io.BytesIO(xar + data), BS + 500, '/FILE.;1')
    iso.add_fp(io.BytesIO(other), len(other), '/OTHER.;1')
    out = io.BytesIO()
    iso.write_fp(out)
    iso.close()
    image = bytearray(out.getvalue())
    done = False
    for off, name in root_records(image):
        if name == b'FILE.;1':
            image[off + 1] = 1
            set_length(image, off, 500)
            done = True
    assert done
    with open(path, 'wb') as f:
        f.write(image)
    return data, other


def read_all(iso, path):
    out = io.BytesIO()
    iso.get_file_from_iso_fp(out, iso_path=path)
    return out.getvalue()


def main():
    problems = []
    tmp = tempfile.mkdtemp()
    try:
        img = os.path.join(tmp, 'xar.iso')
        data, other = make_image(img)

        iso = pycdlib.PyCdlib()
        iso.open(img)
        got = read_all(iso, '/FILE.;1')
        if got != data:
            problems.append('get_file_from_iso_fp(/FILE.;1): got %r..., expected %r...' % (got[:12], data[:12]))
        with iso.open_file_from_iso(iso_path='/FILE.;1') as f:
            got = f.read()
        if got != data:
            problems.append('open_file_from_iso(/FILE.;1).read(): got %r..., expected %r...' % (got[:12], data[:12]))
        if read_all(iso, '/OTHER.;1') != other:
            problems.append('/OTHER.;1 has wrong content')

        # Writing the image (with and without an edit) keeps the file's bytes.
        for edit in (False, True):
            if edit:
                iso.add_fp(io.BytesIO(b'new'), 3, '/AAA.;1')
            out = io.BytesIO()
            iso.write_fp(out)
            iso2 = pycdlib.PyCdlib()
            iso2.open_fp(io.BytesIO(out.getvalue()))
            got = read_all(iso2, '/FILE.;1')
            if got != data:
                problems.append('after write (edit=%s) /FILE.;1: got %r... (%d bytes), expected %r... (%d bytes)' % (edit, got[:12], len(got), data[:12], len(data)))
            if read_all(iso2, '/OTHER.;1') != other:
                problems.append('after write (edit=%s) /OTHER.;1 has wrong content' % (edit))
            # An independent look at the written record: data must be found
            # at extent + xattr_len.
            image = out.getvalue()
            for off, name in root_records(bytearray(image)):
                if name == b'FILE.;1':
                    ext = struct.unpack_from('<L', image, off + 2)[0] + bytearray(image)[off + 1]
                    length = struct.unpack_from('<L', image, off + 10)[0]
                    if image[ext * BS:ext * BS + length] != data:
                        problems.append('after write (edit=%s) the record of /FILE.;1 does not lead to the file data' % (edit))
            iso2.close()
        iso.close()

        # In-place modification: an independent reader (data at extent +
        # xattr_len) must find the new content; nothing else may change.
        before = open(img, 'rb').read()
        newdata = pattern('new', 300)
        iso = pycdlib.PyCdlib()
        with open(img, 'r+b') as fp:
            iso.open_fp(fp)
            iso.modify_file_in_place(io.BytesIO(newdata), len(newdata), '/FILE.;1')
            iso.close()
        image = open(img, 'rb').read()
        for off, name in root_records(bytearray(image)):
            ext = struct.unpack_from('<L', image, off + 2)[0] + bytearray(image)[off + 1]
            length = struct.unpack_from('<L', image, off + 10)[0]
            if name == b'FILE.;1' and image[ext * BS:ext * BS + length] != newdata:
                problems.append('after modify_file_in_place the record of /FILE.;1 does not lead to the new data')
            if name == b'OTHER.;1' and image[ext * BS:ext * BS + length] != other:
                problems.append('after modify_file_in_place /OTHER.;1 is damaged')
        iso = pycdlib.PyCdlib()
        iso.open(img)
        if read_all(iso, '/FILE.;1') != newdata:
            problems.append('after modify_file_in_place /FILE.;1 does not read back as the new data')
        iso.close()
    finally:
        shutil.rmtree(tmp)

    if problems:
        for p in problems:
            print(p)
        return 1
    print('OK')
    return 0


if __name__ == '__main__':
    sys.exit(main())
