"""Length algebra: symbolic byte length of bytes-valued expressions and symbolic value of
int-valued expressions, as linear expressions (linexpr.Lin) over opaque terms."""
import ast
import struct

from .model import norm, fold, NotConst
from .linexpr import Lin, lin
from . import structfmt as sf


class Unknown(Exception):
    pass


def const_return(ctx, fi):
    """If fi's body is `return <constant expr>` (ignoring the docstring), its value."""
    body = [s for s in fi.node.body if not (isinstance(s, ast.Expr) and isinstance(s.value, ast.Constant))]
    if len(body) == 1 and isinstance(body[0], ast.Return) and body[0].value is not None:
        try:
            return fold(body[0].value, ctx.m, ctx.m.modules[fi.module], fi.cls)
        except NotConst:
            return None
    return None


def folder(ctx, fi):
    """fold() extended with calls to package functions whose body is `return <const>`."""
    mi = ctx.m.modules[fi.module]

    def f(node):
        try:
            return fold(node, ctx.m, mi, fi.cls)
        except NotConst:
            pass
        if isinstance(node, ast.Call) and not node.args and not node.keywords:
            callees, kind = ctx.t._resolve(node, fi)
            if kind in ('func', 'method') and len(callees) == 1:
                v = const_return(ctx, callees[0])
                if v is not None:
                    return v
        raise NotConst()
    return f


def int_value(ctx, fi, expr, subst=None, depth=0):
    """Symbolic integer value of expr inside fi -> Lin.  Calls to package functions with a
    straight-line body (assignments + one return, simple `if` on parameters excluded) are
    inlined with parameter substitution."""
    subst = dict(subst or {})
    fo = folder(ctx, fi)

    def go(n, d):
        if d > 12:
            raise Unknown()
        try:
            v = fo(n)
            if isinstance(v, bool):
                raise Unknown()
            if isinstance(v, int):
                return Lin(None, v)
        except NotConst:
            pass
        if isinstance(n, ast.Name):
            if n.id in subst:
                s = subst[n.id]
                if isinstance(s, Lin):
                    return s
                return go(s, d + 1)
            return Lin({n.id: 1})
        if isinstance(n, ast.BinOp) and isinstance(n.op, (ast.Add, ast.Sub)):
            a, b = go(n.left, d + 1), go(n.right, d + 1)
            return a + b if isinstance(n.op, ast.Add) else a - b
        if isinstance(n, ast.BinOp) and isinstance(n.op, ast.Mult):
            a, b = go(n.left, d + 1), go(n.right, d + 1)
            if a.is_const():
                return b.scale(a.const)
            if b.is_const():
                return a.scale(b.const)
            return Lin({'(%r)*(%r)' % tuple(sorted([a, b], key=repr)): 1})
        if isinstance(n, ast.BinOp) and isinstance(n.op, (ast.Mod, ast.FloorDiv)):
            a, b = go(n.left, d + 1), go(n.right, d + 1)
            return Lin({'(%r)%s(%r)' % (a, '%' if isinstance(n.op, ast.Mod) else '//', b): 1})
        if isinstance(n, ast.Call):
            if isinstance(n.func, ast.Name) and n.func.id == 'len' and len(n.args) == 1:
                try:
                    return bytes_len(ctx, fi, n.args[0], subst, d + 1)
                except Unknown:
                    return Lin({'len(%s)' % _subst_norm(n.args[0], subst): 1})
            if norm(n.func) == 'struct.calcsize':
                raise Unknown()
            callees, kind = ctx.t._resolve(n, fi)
            if kind in ('func', 'method') and len(callees) == 1:
                return inline_int(ctx, callees[0], n, fi, subst, d + 1)
        raise Unknown()

    return go(expr, depth)


def _subst_norm(e, subst):
    if isinstance(e, ast.Name) and e.id in subst and not isinstance(subst[e.id], Lin):
        return _subst_norm(subst[e.id], {})
    return norm(e)


def inline_int(ctx, callee, call, caller, subst, depth):
    """Evaluate an int-returning helper symbolically: straight-line `x = e` / `x += e` / return."""
    if depth > 12:
        raise Unknown()
    params = list(callee.params)
    if callee.cls is not None and not callee.is_static:
        params = params[1:]
    if len(call.args) > len(params) or call.keywords:
        raise Unknown()
    env = {}
    for p, a in zip(params, call.args):
        # argument expressed in the caller's vocabulary
        if isinstance(a, ast.Name) and a.id in subst:
            env[p] = subst[a.id]
        else:
            env[p] = _Closed(a, caller, dict(subst))
    body = [s for s in callee.node.body if not (isinstance(s, ast.Expr) and isinstance(s.value, ast.Constant))]
    local = {}
    for st in body:
        if isinstance(st, ast.Return) and st.value is not None:
            return _eval_closed(ctx, callee, st.value, env, local, depth)
        if isinstance(st, ast.Assign) and len(st.targets) == 1 and isinstance(st.targets[0], ast.Name):
            local[st.targets[0].id] = _eval_closed(ctx, callee, st.value, env, local, depth)
            continue
        if isinstance(st, ast.AugAssign) and isinstance(st.target, ast.Name) and isinstance(st.op, ast.Add) \
                and st.target.id in local:
            local[st.target.id] = local[st.target.id] + _eval_closed(ctx, callee, st.value, env, local, depth)
            continue
        if isinstance(st, ast.If) and all(isinstance(x, ast.Raise) for x in st.body) and not st.orelse:
            continue    # guard that raises: not part of the value
        raise Unknown()
    raise Unknown()


class _Closed:
    """An argument expression together with the function it must be read in."""
    __slots__ = ('expr', 'fi', 'subst')

    def __init__(self, expr, fi, subst):
        self.expr, self.fi, self.subst = expr, fi, subst


def _eval_closed(ctx, callee, expr, env, local, depth):
    sub = {}
    for k, v in env.items():
        sub[k] = v
    for k, v in local.items():
        sub[k] = v
    # evaluate expr in callee with names mapped to closed args / Lins
    def conv(n, d):
        if d > 14:
            raise Unknown()
        if isinstance(n, ast.Name) and n.id in sub:
            v = sub[n.id]
            if isinstance(v, Lin):
                return v
            return int_value(ctx, v.fi, v.expr, v.subst, d + 1)
        if isinstance(n, ast.Call) and isinstance(n.func, ast.Name) and n.func.id == 'len' and len(n.args) == 1:
            a = n.args[0]
            if isinstance(a, ast.Name) and a.id in sub and isinstance(sub[a.id], _Closed):
                v = sub[a.id]
                try:
                    return bytes_len(ctx, v.fi, v.expr, v.subst, d + 1)
                except Unknown:
                    return Lin({'len(%s)' % _subst_norm(v.expr, v.subst): 1})
        if isinstance(n, ast.BinOp) and isinstance(n.op, (ast.Add, ast.Sub)):
            a, b = conv(n.left, d + 1), conv(n.right, d + 1)
            return a + b if isinstance(n.op, ast.Add) else a - b
        if isinstance(n, ast.BinOp) and isinstance(n.op, ast.Mult):
            a, b = conv(n.left, d + 1), conv(n.right, d + 1)
            if a.is_const():
                return b.scale(a.const)
            if b.is_const():
                return a.scale(b.const)
            return Lin({'(%r)*(%r)' % tuple(sorted([a, b], key=repr)): 1})
        if isinstance(n, ast.BinOp) and isinstance(n.op, (ast.Mod, ast.FloorDiv)):
            a, b = conv(n.left, d + 1), conv(n.right, d + 1)
            return Lin({'(%r)%s(%r)' % (a, '%' if isinstance(n.op, ast.Mod) else '//', b): 1})
        if isinstance(n, ast.Call):
            callees, kind = ctx.t._resolve(n, callee)
            if kind in ('func', 'method') and len(callees) == 1:
                # arguments: convert to closed args in callee's env
                sub2 = {}
                for k, v in sub.items():
                    sub2[k] = v
                return inline_int(ctx, callees[0], n, callee, sub2, d + 1)
        fo = folder(ctx, callee)
        try:
            v = fo(n)
            if isinstance(v, int) and not isinstance(v, bool):
                return Lin(None, v)
        except NotConst:
            pass
        raise Unknown()
    return conv(expr, depth)


def bytes_len(ctx, fi, expr, subst=None, depth=0):
    """Symbolic len() of a bytes-valued expression -> Lin."""
    subst = subst or {}
    fo = folder(ctx, fi)
    sdefs = ctx.single_defs(fi)

    def go(n, d):
        if d > 14:
            raise Unknown()
        if isinstance(n, ast.Constant) and isinstance(n.value, (bytes, str)):
            return Lin(None, len(n.value))
        try:
            v = fo(n)
            if isinstance(v, (bytes, str)):
                return Lin(None, len(v))
        except NotConst:
            pass
        if isinstance(n, ast.Name):
            if n.id in subst:
                s = subst[n.id]
                if isinstance(s, _Closed):
                    return bytes_len(ctx, s.fi, s.expr, s.subst, d + 1)
                if not isinstance(s, Lin):
                    return go(s, d + 1)
            if n.id in sdefs:
                return go(sdefs[n.id], d + 1)
            return Lin({'len(%s)' % n.id: 1})
        if isinstance(n, ast.Attribute):
            return Lin({'len(%s)' % norm(n): 1})
        if isinstance(n, ast.BinOp) and isinstance(n.op, ast.Add):
            return go(n.left, d + 1) + go(n.right, d + 1)
        if isinstance(n, ast.BinOp) and isinstance(n.op, ast.Mult):
            # b'\x00' * k
            for a, b in ((n.left, n.right), (n.right, n.left)):
                try:
                    v = fo(a)
                except NotConst:
                    continue
                if isinstance(v, (bytes, str)):
                    k = int_value(ctx, fi, b, subst, d + 1)
                    return k.scale(len(v))
            raise Unknown()
        if isinstance(n, ast.Call):
            fn = norm(n.func)
            if fn == 'struct.pack' and n.args:
                fmt = sf._fmt_value(ctx, fi, n.args[0], sdefs)
                if fmt is None:
                    raise Unknown()
                return Lin(None, struct.calcsize(fmt))
            if isinstance(n.func, ast.Attribute) and n.func.attr == 'join' and len(n.args) == 1:
                sep = None
                try:
                    sep = fo(n.func.value)
                except NotConst:
                    pass
                lst = n.args[0]
                if isinstance(lst, ast.Name):
                    # a list that is also grown by append/extend/+= is not the literal it was bound to
                    for m in ctx.own_nodes(fi):
                        if isinstance(m, ast.Call) and isinstance(m.func, ast.Attribute) and m.func.attr in ('append', 'extend', 'insert') \
                                and isinstance(m.func.value, ast.Name) and m.func.value.id == lst.id:
                            raise Unknown()
                        if isinstance(m, ast.AugAssign) and isinstance(m.target, ast.Name) and m.target.id == lst.id:
                            raise Unknown()
                if isinstance(lst, ast.Name) and lst.id in sdefs:
                    lst = sdefs[lst.id]
                if sep == b'' and isinstance(lst, (ast.List, ast.Tuple)):
                    tot = Lin()
                    for e in lst.elts:
                        tot = tot + go(e, d + 1)
                    return tot
                raise Unknown()
            if isinstance(n.func, ast.Attribute) and n.func.attr in ('ljust', 'rjust') and n.args:
                raise Unknown()
            if isinstance(n.func, ast.Attribute) and n.func.attr == 'record' and not n.args:
                callees, kind = ctx.t._resolve(n, fi)
                if kind == 'method' and len(callees) == 1:
                    k = record_const_len(ctx, callees[0])
                    if k is not None:
                        return Lin(None, k)
                return Lin({'len(%s)' % norm(n): 1})
            raise Unknown()
        if isinstance(n, ast.Subscript) and isinstance(n.slice, ast.Slice):
            lo, hi = n.slice.lower, n.slice.upper
            if lo is None and hi is not None:
                raise Unknown()
            raise Unknown()
        raise Unknown()

    return go(expr, depth)


def record_const_len(ctx, fi):
    """If every return of fi is a bytes expression of the same constant length, that length."""
    cache = getattr(ctx, '_reclen', None)
    if cache is None:
        cache = ctx._reclen = {}
    if fi.qual in cache:
        return cache[fi.qual]
    cache[fi.qual] = None
    lens = set()
    for n in ctx.own_nodes(fi):
        if isinstance(n, ast.Return) and n.value is not None:
            try:
                l = bytes_len(ctx, fi, n.value)
            except Unknown:
                return None
            if not l.is_const():
                return None
            lens.add(l.const)
    if len(lens) == 1:
        cache[fi.qual] = lens.pop()
    return cache[fi.qual]
