"""SA-DEFAULT.resolve: the value of an optional parameter is used only after its None default has been resolved.

Public methods take `x=None` and turn None into the documented default near the top (`if efi is None: efi = ... `, or the
else-branch of `if efi is not None:`).  Before that statement the parameter still holds None for "not given": asking
whether it *was given* (`x is None` / `x is not None`) is fine there, using its *value* (truthiness, comparison,
passing it on) is not - a refusal evaluated on the unresolved value lets through exactly the calls that rely on the
default (`add_isohybrid(mac=True, part_entry=2)`: efi is still None when the slot check runs, True afterwards).

For every function parameter with default None that has such a resolving assignment: every read of the parameter's
value lies in a statement dominated by the `if` that resolves it.
"""
import ast

from ..registry import rule, props
from ..report import Ob
from ..model import norm, AnalysisError

MODULE_PROPS = {'pycdlib': ('C12', 'C13'), 'facade': ('C18',), 'eltorito': ('C11',), 'isohybrid': ('C12',), 'udf': ('C10',), 'dr': ('C03',)}


def _none_default_params(fi):
    a = fi.node.args
    pos = list(a.args)
    out = set()
    for arg, d in zip(pos[len(pos) - len(a.defaults):], a.defaults):
        if isinstance(d, ast.Constant) and d.value is None:
            out.add(arg.arg)
    for arg, d in zip(a.kwonlyargs, a.kw_defaults):
        if isinstance(d, ast.Constant) and d.value is None:
            out.add(arg.arg)
    return out


def _resolving_ifs(fi, p):
    """If statements one of whose branches is taken exactly when p is None and assigns p there"""
    out = []
    for n in ast.walk(fi.node):
        if not isinstance(n, ast.If):
            continue
        t = n.test
        if isinstance(t, ast.Compare) and len(t.ops) == 1 and isinstance(t.left, ast.Name) and t.left.id == p and \
                isinstance(t.comparators[0], ast.Constant) and t.comparators[0].value is None:
            branch = n.body if isinstance(t.ops[0], ast.Is) else n.orelse if isinstance(t.ops[0], ast.IsNot) else None
            if branch and any(isinstance(x, ast.Assign) and any(isinstance(tt, ast.Name) and tt.id == p for tt in x.targets) for st in branch for x in ast.walk(st)):
                out.append(n)
    return out


def _analyse(ctx, module, rid):
    obs = []
    nres = 0
    for fi in ctx.m.pkg_functions():
        if fi.module != module:
            continue
        for p in sorted(_none_default_params(fi)):
            ifs = _resolving_ifs(fi, p)
            if len(ifs) != 1:
                continue
            nres += 1
            res = ifs[0]
            g = ctx.cfg(fi)
            dom = g.dominators()
            rn = g.node_of(res)
            par = ctx.parents(fi)
            inside = set(id(x) for x in ast.walk(res))
            bad = []
            for n in ctx.own_nodes(fi):
                if not (isinstance(n, ast.Name) and n.id == p and isinstance(n.ctx, ast.Load)) or id(n) in inside:
                    continue
                pn = par.get(id(n))
                if isinstance(pn, ast.Compare) and len(pn.ops) == 1 and isinstance(pn.ops[0], (ast.Is, ast.IsNot)) and \
                        isinstance(pn.comparators[0], ast.Constant) and pn.comparators[0].value is None and pn.left is n:
                    continue          # "was it given?"
                st = ctx.enclosing_stmt(fi, n)
                sn = g.node_of(st)
                if sn is None or rn is None:
                    continue
                if rn.id not in dom.get(sn.id, ()):
                    bad.append(n)
            obs.append(Ob(rid, '%s|%s' % (fi.qual, p), not bad, ctx.loc(fi, bad[0] if bad else res),
                          '' if not bad else 'the value of `%s` is used at line %d, before `%s` (line %d) has replaced the None that stands for "not given" by the default: '
                          'a call that relies on the default is judged with None there and with the default everywhere after' % (
                              p, bad[0].lineno, norm(res.test), res.lineno)))
    return obs, nres


def _mk(module, pr):
    @rule('SA-DEFAULT.resolve.' + module)
    @props(*pr)
    def f(ctx, _m=module):
        obs, n = _analyse(ctx, _m, 'SA-DEFAULT.resolve.' + _m)
        if _m == 'pycdlib' and n < 3:
            raise AnalysisError('anchor-vanished: parameters whose None default is resolved by an if (%d)' % n)
        obs.append(Ob('SA-DEFAULT.resolve.' + _m, '%s|parameters examined' % _m, True, '', '%d' % n))
        return obs
    return f


for _m, _p in sorted(MODULE_PROPS.items()):
    _mk(_m, _p)


@rule('SA-DEFAULT.attr')
@props('C14', 'C02')
def default_attr(ctx):
    """`v = self.A; if v is None: v = <default>`: once the local copy carries the default, the attribute itself still
    holds None for "not configured".  Every later use of the setting in that function goes through the local; a read
    of `self.A` after the resolving `if` (other than asking whether it is None, or assigning it) sees None exactly in
    the configurations that rely on the default - a question asked up front about `self.A` (may the parent take this
    name?) is then asked about nothing, and the refusal it was meant to bring forward arrives after the first change."""
    obs = []
    n = 0
    for fi in ctx.m.pkg_functions():
        if fi.cls is None:
            continue
        copies = {}
        for st in ctx.own_nodes(fi):
            if isinstance(st, ast.Assign) and len(st.targets) == 1 and isinstance(st.targets[0], ast.Name) and isinstance(st.value, ast.Attribute) and \
                    isinstance(st.value.value, ast.Name) and st.value.value.id == 'self':
                copies.setdefault(st.targets[0].id, []).append(st)
        for v, sts in sorted(copies.items()):
            if len(sts) != 1:
                continue
            ifs = _resolving_ifs(fi, v)
            if len(ifs) != 1:
                continue
            res = ifs[0]
            attr = sts[0].value.attr
            n += 1
            g = ctx.cfg(fi)
            dom = g.dominators()
            rn = g.node_of(res)
            par = ctx.parents(fi)
            bad = []
            for x in ctx.own_nodes(fi):
                if not (isinstance(x, ast.Attribute) and x.attr == attr and isinstance(x.ctx, ast.Load) and isinstance(x.value, ast.Name) and x.value.id == 'self'):
                    continue
                pn = par.get(id(x))
                if isinstance(pn, ast.Compare) and len(pn.ops) == 1 and isinstance(pn.ops[0], (ast.Is, ast.IsNot)) and \
                        isinstance(pn.comparators[0], ast.Constant) and pn.comparators[0].value is None and pn.left is x:
                    continue
                sn = g.node_of(ctx.enclosing_stmt(fi, x))
                if sn is None or rn is None or sn is rn:
                    continue
                if rn.id in dom.get(sn.id, ()):
                    bad.append(x)
            obs.append(Ob('SA-DEFAULT.attr', '%s|%s = self.%s' % (fi.qual, v, attr), not bad, ctx.loc(fi, bad[0] if bad else res),
                          '' if not bad else 'line %d reads self.%s after `%s` (line %d) has given the local copy `%s` its default: the attribute is still None when the '
                          'default applies, so this use and the uses of `%s` disagree exactly then' % (bad[0].lineno, attr, norm(res.test), res.lineno, v, v)))
    # the idiom may legitimately disappear (`self.A or default`): no floor, the count is reported
    obs.append(Ob('SA-DEFAULT.attr', 'defaulted local copies of attributes examined', True, '', '%d' % n))
    return obs
