"""SA-VBM validate-before-mutate (C14): for every public editing method of PyCdlib and every
PyCdlibInvalidInput raise that may escape it, no persistent write may precede the refusal on any
CFG path (interprocedural, see sa/vbm.py).  A finding is keyed by the lowest function in which the
mutation and the refusal are two separate statements, the refusing statement and the raise site
reached through it: (function | refusing statement | raise function: message); the first mutating
statement and the public methods that reach it are listed as detail.

SA-VBM.reset: new(), open() and open_fp() re-initialise the object before they write anything, so
a refused earlier attempt cannot contaminate the next one (that is how failure atomicity is
achieved for the three constructors, which have no previous image state to preserve)."""
import ast

from ..registry import rule, props
from ..report import Ob
from ..model import AnalysisError, norm
from .. import vbm
from .. import cfg as cfgmod

CONSTRUCTORS = ('new', 'open', 'open_fp')


def public_mutators(ctx, engine):
    pc = ctx.cls('pycdlib.PyCdlib')
    out = []
    extra = ('set_hidden', 'clear_hidden', 'set_relocated_name', 'add_isohybrid', 'rm_isohybrid',
             'modify_file_in_place', 'duplicate_pvd')
    for name, fi in sorted(pc.methods.items()):
        if name.startswith('_') or name in CONSTRUCTORS:
            continue
        reach = ctx.reachable_from([fi], include_candidates=False)
        is_edit = 'pycdlib.PyCdlib._finish_add' in reach or 'pycdlib.PyCdlib._finish_remove' in reach or name in extra
        if name in ('write', 'write_fp', 'close', 'force_consistency') or not is_edit:
            continue
        out.append(fi)
    return out


def run_engine(ctx):
    e = getattr(ctx, '_vbm_engine', None)
    if e is None:
        e = vbm.VBM(ctx)
        e.analyse(list(ctx.m.pkg_functions()))
        ctx._vbm_engine = e
    return e


@rule('SA-VBM')
@props('C14')
def vbmrule(ctx):
    e = run_engine(ctx)
    muts = public_mutators(ctx, e)
    if len(muts) < 15:
        raise AnalysisError('anchor-vanished: only %d public editing methods found' % len(muts))
    findings = {}
    clean = {}
    for fi in muts:
        normal, events = e.summ[fi.qual]
        for key, roots, origin in events:
            if not roots:
                continue
            org = origin or (fi.qual, '?', '?')
            k = (org[0], org[2])
            d = findings.setdefault(k, {'methods': set(), 'first': set(), 'raises': set()})
            d['methods'].add(fi.name)
            d['first'].add(org[1])
            d['raises'].add('%s: %s' % (key[0].split('.', 1)[1], key[2][:50]))
        clean[fi.qual] = len(events)
    obs = []
    for k, d in sorted(findings.items()):
        key = '%s|%s' % k
        f = ctx.m.functions.get(k[0])
        obs.append(Ob('SA-VBM', key, False, ctx.loc(f, f.node) if f else '',
                      'in %s, `%s` has already changed persistent state when `%s` can still refuse with PyCdlibInvalidInput '
                      '(%d raise sites: %s); reached from %s: a refused call leaves the image object changed'
                      % (k[0], sorted(d['first'])[0], k[1][:100], len(d['raises']), '; '.join(sorted(d['raises'])[:6]) + (' ...' if len(d['raises']) > 6 else ''),
                         ', '.join(sorted(d['methods'])))))
    for fi in muts:
        bad = [1 for k, d in findings.items() if fi.name in d['methods']]
        if not bad:
            obs.append(Ob('SA-VBM', '%s|all refusals precede mutation' % fi.qual, True, ctx.loc(fi, fi.node),
                          '%d escaping PyCdlibInvalidInput raise sites, none preceded by a persistent write' % clean[fi.qual]))
    return obs


@rule('SA-VBM.reset')
@props('C14')
def reset(ctx):
    pc = ctx.cls('pycdlib.PyCdlib')
    obs = []
    init = pc.methods.get('_initialize')
    if init is None:
        raise AnalysisError('anchor-vanished PyCdlib._initialize')
    # _initialize assigns every slot of PyCdlib except the construction-time options
    from .. import effects
    assigned = set(w.attr for w in effects.direct_writes(ctx, init) if norm(w.recv) == 'self')
    keep = {'_always_consistent', '_track_writes', 'pvd'}   # options of the constructor; pvd is always reassigned by new()/open() before use
    missing = sorted(set(pc.slots or ()) - assigned - keep)
    obs.append(Ob('SA-VBM.reset', 'pycdlib.PyCdlib._initialize|resets every slot', not missing, ctx.loc(init, init.node),
                  '' if not missing else 'slots not reset by _initialize: %s (state of a previous image or a failed attempt survives)' % missing))
    for name in CONSTRUCTORS:
        fi = pc.methods.get(name)
        if fi is None:
            raise AnalysisError('anchor-vanished PyCdlib.%s' % name)
        g = ctx.cfg(fi)
        dom = g.dominators()
        resets = [n for n in g.nodes if any(isinstance(s, ast.Call) and norm(s.func) == 'self._initialize'
                                           for e in cfgmod.node_exprs(n) for s in ast.walk(e))]
        ok = bool(resets)
        why = '' if ok else 'no call of self._initialize()'
        if ok:
            r = resets[0]
            # every node that writes self.* or calls a method of self (other than the guard) is dominated by the reset
            for n in g.nodes:
                if n is r or n.kind in ('entry', 'exit', 'raise'):
                    continue
                writes = False
                for e in cfgmod.node_exprs(n):
                    for s in ast.walk(e):
                        if isinstance(s, ast.Attribute) and isinstance(s.ctx, ast.Store) and isinstance(s.value, ast.Name) and s.value.id == 'self':
                            writes = True
                        if isinstance(s, ast.Call) and isinstance(s.func, ast.Attribute) and isinstance(s.func.value, ast.Name) and \
                                s.func.value.id == 'self' and s.func.attr != '_initialize':
                            writes = True
                if writes and r.id not in dom[n.id]:
                    ok = False
                    why = 'line %d changes the object before it has been re-initialised' % n.lineno
        obs.append(Ob('SA-VBM.reset', 'pycdlib.PyCdlib.%s|re-initialises first' % name, ok, ctx.loc(fi, fi.node), why))
    return obs
