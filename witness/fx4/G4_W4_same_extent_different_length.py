#!/usr/bin/env python
"""
Witness for observation D: two directory records that point at the same extent
with different lengths (file SHORT is the head of file LONG) share one inode,
and the record that is parsed first fixes the length for both.

The image is made with pycdlib from two independent files; then only the extent
field of one directory record is patched so that it points at the data of the
other file, whose first bytes are the same.  ECMA-119 does not forbid that.

Usage: W4_same_extent_different_length.py <path-to-checkout>
"""
import io
import struct
import sys

sys.path.insert(0, sys.argv[1])

import pycdlib  # noqa: E402

LONG = bytes(bytearray((i * 7 + i // 256) % 251 for i in range(3000)))
SHORT = LONG[:10]


def make_image(short_name, long_name):
    iso = pycdlib.PyCdlib()
    iso.new()
    iso.add_fp(io.BytesIO(SHORT), len(SHORT), '/%s.;1' % (short_name))
    iso.add_fp(io.BytesIO(LONG), len(LONG), '/%s.;1' % (long_name))
    out = io.BytesIO()
    iso.write_fp(out)
    iso.close()
    img = bytearray(out.getvalue())

    # Walk the root directory by hand and redirect the short file.
    root_extent, = struct.unpack_from('<L', img, 16 * 2048 + 156 + 2)
    root_len, = struct.unpack_from('<L', img, 16 * 2048 + 156 + 10)
    recs = {}
    off = root_extent * 2048
    while off < root_extent * 2048 + root_len:
        reclen = img[off]
        if reclen == 0:
            off = (off // 2048 + 1) * 2048
            continue
        name = bytes(img[off + 33:off + 33 + img[off + 32]])
        recs[name] = off
        off += reclen
    short_off = recs[('%s.;1' % (short_name)).encode('ascii')]
    long_off = recs[('%s.;1' % (long_name)).encode('ascii')]
    long_extent, = struct.unpack_from('<L', img, long_off + 2)
    struct.pack_into('<L', img, short_off + 2, long_extent)
    struct.pack_into('>L', img, short_off + 6, long_extent)
    return bytes(img)


def check(what, image, short_name, long_name, problems):
    iso = pycdlib.PyCdlib()
    iso.open_fp(io.BytesIO(image))
    for name, content in ((short_name, SHORT), (long_name, LONG)):
        path = '/%s.;1' % (name)
        out = io.BytesIO()
        iso.get_file_from_iso_fp(out, iso_path=path)
        if out.getvalue() != content:
            problems.append('%s: get_file_from_iso_fp(%s) gives %d bytes, the file has %d'
                            % (what, path, len(out.getvalue()), len(content)))
        with iso.open_file_from_iso(iso_path=path) as fp:
            data = fp.read()
            if fp.length() != len(content) or data != content:
                problems.append('%s: open_file_from_iso(%s) has length() %d and reads %d bytes, the file has %d'
                                % (what, path, fp.length(), len(data), len(content)))
        reclen = iso.get_record(iso_path=path).get_data_length()
        if reclen != len(content):
            problems.append('%s: get_record(%s).get_data_length() is %d, the directory record says %d'
                            % (what, path, reclen, len(content)))
    iso.close()


def main():
    problems = []
    # The short file is parsed first ...
    check('short first', make_image('A', 'B'), 'A', 'B', problems)
    # ... and the long file is parsed first.
    check('long first', make_image('B', 'A'), 'B', 'A', problems)

    if problems:
        print('DEFECT: records that share an extent also share the length of the record parsed first')
        for p in problems:
            print('  ' + p)
        return 1
    print('OK')
    return 0


if __name__ == '__main__':
    sys.exit(main())
