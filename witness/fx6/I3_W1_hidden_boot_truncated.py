"""
Witness A: a hidden (unlinked) El Torito boot image must survive
open() + write() with all of its bytes.

Usage: python W1_hidden_boot_truncated.py <path-to-checkout>
"""
import io
import struct
import sys

sys.path.insert(0, sys.argv[1])

import pycdlib


def pattern(length, mult):
    one = bytes((i * mult + 3) % 251 for i in range(251 * 8))
    return (one * (length // len(one) + 1))[:length]


def hd_image(length):
    # A minimal hard disk image: MBR with one active partition whose CHS end
    # matches the size of the image (cyl 0..c, head 0..15, 63 sectors).
    sectors = length // 512
    cyls = sectors // (16 * 63)
    mbr = bytearray(512)
    part = struct.pack('=BBBBBBBBLL', 0x80, 1, 1, 0, 0x0c, 15,
                       63 | (((cyls - 1) >> 8) << 6), (cyls - 1) & 0xff,
                       63, sectors - 63)
    mbr[446:462] = part
    mbr[510] = 0x55
    mbr[511] = 0xaa
    return bytes(mbr) + pattern(length - 512, 11)


def boot_bytes_after_rewrite(data, **kwargs):
    iso = pycdlib.PyCdlib()
    iso.new()
    iso.add_fp(io.BytesIO(data), len(data), '/BOOT.IMG;1')
    iso.add_eltorito('/BOOT.IMG;1', **kwargs)
    iso.rm_hard_link(iso_path='/BOOT.IMG;1')
    first = io.BytesIO()
    iso.write_fp(first)
    iso.close()

    results = []
    img = first.getvalue()
    for edit in (False, True):
        iso = pycdlib.PyCdlib()
        iso.open_fp(io.BytesIO(img))
        if edit:
            iso.add_directory('/DIR1')
        out = io.BytesIO()
        iso.write_fp(out)
        iso.close()
        img2 = out.getvalue()

        # Follow sector 17 -> catalog -> initial entry by hand.
        cat = struct.unpack_from('<L', img2, 17 * 2048 + 0x47)[0]
        rba = struct.unpack_from('<L', img2, cat * 2048 + 32 + 8)[0]
        results.append(img2[rba * 2048:rba * 2048 + len(data)])
    return results


def main():
    problems = []
    cases = [
        ('1.2M floppy', pattern(1228800, 7), {'media_name': 'floppy'}),
        ('1.44M floppy', pattern(1474560, 7), {'media_name': 'floppy'}),
        ('2.88M floppy', pattern(2949120, 7), {'media_name': 'floppy'}),
        ('hd emulation', hd_image(2 * 16 * 63 * 512), {'media_name': 'hdemul'}),
    ]
    for name, data, kwargs in cases:
        for which, got in zip(('open+write', 'open+add_directory+write'),
                              boot_bytes_after_rewrite(data, **kwargs)):
            if got != data:
                same = 0
                while same < len(got) and same < len(data) and got[same] == data[same]:
                    same += 1
                problems.append('hidden %s boot image, %s: only the first %d of %d bytes are at the load address' % (name, which, same, len(data)))

    if problems:
        print('\n'.join(problems))
        return 1
    print('OK')
    return 0


if __name__ == '__main__':
    sys.exit(main())
