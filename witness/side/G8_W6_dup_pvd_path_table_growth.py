"""
When the path table outgrows 4096 bytes, every PVD copy reports the growth and
4 extra sectors are booked per copy, although all copies share one set of path
tables.  An image with a duplicate PVD therefore gets 4 unused sectors as soon
as it has more than about 250 directories.
"""
import io
import struct
import sys

sys.path.insert(0, sys.argv[1])
import pycdlib  # noqa: E402

NDIRS = 300   # 10 + 300 * 16 bytes of path table: needs more than 4096 bytes


def build(dup):
    iso = pycdlib.PyCdlib()
    iso.new()
    if dup:
        iso.duplicate_pvd()
    out = io.BytesIO()
    iso.write_fp(out)
    iso.close()

    # Work on the reopened image, so that both PVDs come from the parser.
    iso = pycdlib.PyCdlib()
    iso.open_fp(io.BytesIO(out.getvalue()))
    for i in range(NDIRS):
        iso.add_directory('/DIR%05d' % i)
    out = io.BytesIO()
    iso.write_fp(out)
    iso.close()
    return out.getvalue()


def main():
    problems = []
    plain = build(False)
    dup = build(True)
    nplain = len(plain) // 2048
    ndup = len(dup) // 2048
    declared, = struct.unpack_from('<L', dup, 16 * 2048 + 80)
    if declared != ndup:
        problems.append('PVD declares %d sectors, image has %d' % (declared, ndup))
    if ndup != nplain + 1:
        problems.append('%d directories: %d sectors with a duplicate PVD, %d without; expected exactly 1 more (the PVD itself)'
                        % (NDIRS, ndup, nplain))

    iso = pycdlib.PyCdlib()
    try:
        iso.open_fp(io.BytesIO(dup))
        ndirs = len([c for c in iso.list_children(iso_path='/') if not c.is_dot() and not c.is_dotdot()])
        if ndirs != NDIRS:
            problems.append('%d directories read back, expected %d' % (ndirs, NDIRS))
        iso.close()
    except Exception as e:  # pylint: disable=broad-except
        problems.append('cannot read the image back: %s: %s' % (type(e).__name__, e))

    if problems:
        for p in problems:
            print(p)
        return 1
    print('OK')
    return 0


if __name__ == '__main__':
    sys.exit(main())
