"""Codec rules over the struct-format model (engine section 2.6).

SA-FMT     every format has an explicit standard-size byte-order prefix; pack arity =
           unpack target arity = field count.
SA-ENDIAN  a both-byte-order pair is produced from one expression: an argument
           swab_NNbit(E) directly follows an argument structurally equal to E, and both fields
           are NN bits wide; little/big-endian record twins pass the same fields, swabbing exactly
           the multi-byte integers.
SA-SYM     parse/record symmetry: where record() emits attribute A (or A.record()) at a field,
           parse() stores that field into A (or hands it to A.parse()).
"""
import ast

from ..registry import rule, props
from ..report import Ob
from ..model import norm, fold, NotConst, AnalysisError
from .. import structfmt as sf
from .. import cfg as cfgmod

RECORD_NAMES = ('record', '_record')
PARSE_NAMES = ('parse',)


def _self_attr(e):
    if isinstance(e, ast.Attribute) and isinstance(e.value, ast.Name) and e.value.id == 'self':
        return e.attr
    return None


@rule('SA-FMT')
@props('C03', 'C05', 'C10', 'C12')
def fmt_hygiene(ctx):
    obs = []
    for s in sf.all_sites(ctx):
        key = '%s|%s %s' % (s.fi.qual, s.kind, s.fmt_src)
        loc = ctx.loc(s.fi, s.call)
        if s.fmt is None or s.fields is None:
            # a format computed at run time: must still begin with an explicit prefix
            sd = ctx.single_defs(s.fi)
            e = sf.resolve_local(s.call.args[0], sd)
            lit = None
            for sub in ast.walk(e):
                if isinstance(sub, ast.Constant) and isinstance(sub.value, str):
                    lit = sub.value
                    break
            ok = lit is not None and lit[:1] in '<>=!'
            obs.append(Ob('SA-FMT', key, ok, loc, '' if ok else 'format string not resolvable to a constant with explicit byte order'))
            continue
        if s.prefix not in ('<', '>', '=', '!'):
            obs.append(Ob('SA-FMT', key, False, loc,
                          'format %r has no explicit standard-size byte-order prefix: native alignment and sizes would apply' % s.fmt))
            continue
        if s.items is not None and len(s.items) != len(s.fields):
            obs.append(Ob('SA-FMT', key, False, loc, 'format %r has %d fields but %d values/targets' % (s.fmt, len(s.fields), len(s.items))))
            continue
        # native-order '=' on a multi-byte integer field is byte-order dependent on the host
        multi = [f for f in s.fields if f.code not in 'sxcbB?p' and f.width > 1]
        if s.prefix == '=' and multi:
            obs.append(Ob('SA-FMT', key + '|host-order', False, loc,
                          'format %r packs multi-byte integers in host byte order' % s.fmt, advisory=True))
            continue
        obs.append(Ob('SA-FMT', key, True, loc))
    return obs


def _eq_expr(a, b, sdefs):
    a = sf.resolve_local(a, sdefs)
    b = sf.resolve_local(b, sdefs)
    return norm(a) == norm(b)


@rule('SA-ENDIAN')
@props('C03', 'C08')
def endian(ctx):
    obs = []
    n_pairs = 0
    for s in sf.all_sites(ctx):
        if s.kind != 'pack' or s.fields is None or s.items is None or len(s.items) != len(s.fields):
            continue
        sdefs = ctx.single_defs(s.fi)
        for i, a in enumerate(s.items):
            a = sf.resolve_local(a, sdefs) if isinstance(a, ast.Name) else a
            w = sf.swab_width(a)
            if w is None:
                continue
            n_pairs += 1
            key = '%s|%s|field %d' % (s.fi.qual, s.fmt, i)
            loc = ctx.loc(s.fi, s.items[i])
            f = s.fields[i]
            if f.width * 8 != w:
                obs.append(Ob('SA-ENDIAN', key, False, loc, 'swab_%dbit feeds a %d-byte field' % (w, f.width)))
                continue
            if i == 0:
                obs.append(Ob('SA-ENDIAN', key, False, loc, 'byte-swapped copy has no preceding plain copy'))
                continue
            prev = s.items[i - 1]
            pf = s.fields[i - 1]
            if pf.width != f.width or not _eq_expr(prev, a.args[0], sdefs):
                # BE-only field (e.g. type-M path table location): tolerated only if the same
                # expression does not appear un-swabbed elsewhere in the record
                plain = [j for j, x in enumerate(s.items) if j != i and _eq_expr(x, a.args[0], sdefs)]
                if plain:
                    obs.append(Ob('SA-ENDIAN', key, False, loc,
                                  'big-endian copy swab(%s) does not directly follow its little-endian copy (found at field %s)'
                                  % (norm(a.args[0]), plain)))
                else:
                    obs.append(Ob('SA-ENDIAN', key + '|be-only', True, loc, 'big-endian-only field'))
                continue
            if s.prefix not in ('<', '='):
                obs.append(Ob('SA-ENDIAN', key, False, loc, 'both-endian pair inside a %r format' % s.prefix))
                continue
            obs.append(Ob('SA-ENDIAN', key, True, loc))
        # converse: two adjacent equal-width integer fields fed by the very same expression
        for i in range(1, len(s.items)):
            f, pf = s.fields[i], s.fields[i - 1]
            if f.width > 1 and f.code not in 'sp' and pf.width == f.width and pf.code == f.code:
                if _eq_expr(s.items[i], s.items[i - 1], sdefs) and not isinstance(sf.resolve_local(s.items[i], sdefs), ast.Constant):
                    key = '%s|%s|field %d' % (s.fi.qual, s.fmt, i)
                    obs.append(Ob('SA-ENDIAN', key, False, ctx.loc(s.fi, s.items[i]),
                                  'fields %d and %d carry the same expression %s un-swabbed: the big-endian copy is little-endian'
                                  % (i - 1, i, norm(s.items[i]))))
    # LE/BE record twins
    for ci in ctx.m.classes.values():
        le = ci.methods.get('record_little_endian')
        be = ci.methods.get('record_big_endian')
        if le is None or be is None:
            continue
        key = '%s|le-be-twins' % ci.qual

        def inner_call(fi):
            for n in ctx.own_nodes(fi):
                if isinstance(n, ast.Return) and isinstance(n.value, ast.Call):
                    return n.value
            return None
        cl, cb = inner_call(le), inner_call(be)
        if cl is None or cb is None or norm(cl.func) != norm(cb.func) or len(cl.args) != len(cb.args):
            obs.append(Ob('SA-ENDIAN', key, False, ctx.loc(le, le.node), 'little/big-endian record methods do not delegate to the same routine with the same arity'))
            continue
        ok = True
        why = ''
        # widths of the fields these parameters feed
        tgt = ctx.t._resolve(cl, le)[0]
        widths = {}
        if tgt and not isinstance(tgt, str):
            callee = tgt[0]
            for s in sf.sites(ctx, callee):
                if s.kind == 'pack' and s.items and s.fields and len(s.items) == len(s.fields):
                    for a, f in zip(s.items, s.fields):
                        if isinstance(a, ast.Name):
                            widths[a.id] = f.width
            pnames = callee.params[1:] if callee.cls is not None else callee.params
        else:
            pnames = []
        for j, (al, ab) in enumerate(zip(cl.args, cb.args)):
            w = sf.swab_width(ab)
            fw = widths.get(pnames[j]) if j < len(pnames) else None
            if sf.swab_width(al) is not None:
                ok, why = False, 'little-endian twin swabs argument %d' % j
            elif w is None:
                if fw is not None and fw > 1:
                    ok, why = False, 'big-endian twin passes %s un-swabbed into a %d-byte field' % (norm(ab), fw)
                elif norm(al) != norm(ab):
                    ok, why = False, 'twins pass different values %s / %s' % (norm(al), norm(ab))
            else:
                if norm(ab.args[0]) != norm(al):
                    ok, why = False, 'big-endian twin swabs %s, little-endian passes %s' % (norm(ab.args[0]), norm(al))
                elif fw is not None and fw * 8 != w:
                    ok, why = False, 'swab_%dbit feeds a %d-byte field' % (w, fw)
        obs.append(Ob('SA-ENDIAN', key, ok, ctx.loc(be, be.node), why))
    if n_pairs < 1:
        raise AnalysisError('anchor-vanished: no swab pair found in any pack site')
    return obs


# ---------------------------------------------------------------------------
# SA-SYM
# ---------------------------------------------------------------------------
def _flows(ctx, fi, local):
    """Where does the parse-side local go?  -> dict(attrs=set, sub=set, checked=bool, used=bool)"""
    attrs, sub = set(), set()
    checked = used = False
    recv_alias = {}   # local object name -> attrs it is stored in
    for n in ctx.own_nodes(fi):
        if isinstance(n, ast.Assign):
            for t in n.targets:
                a = _self_attr(t)
                if a is not None and isinstance(n.value, ast.Name):
                    recv_alias.setdefault(n.value.id, set()).add(a)
        elif isinstance(n, ast.Call) and isinstance(n.func, ast.Attribute) and n.func.attr == 'append' and n.args \
                and isinstance(n.args[0], ast.Name):
            a = _self_attr(n.func.value)
            if a is not None:
                recv_alias.setdefault(n.args[0].id, set()).add(a)
    for n in ctx.own_nodes(fi):
        mentions = lambda e: any(isinstance(x, ast.Name) and x.id == local and isinstance(x.ctx, ast.Load) for x in ast.walk(e))
        if isinstance(n, ast.Assign) and mentions(n.value):
            used = True
            for t in n.targets:
                a = _self_attr(t)
                if a is not None:
                    attrs.add(a)
                elif isinstance(t, ast.Name):
                    # second-level local: follow once
                    sub2 = _flows_once(ctx, fi, t.id, recv_alias)
                    attrs |= sub2[0]
                    sub |= sub2[1]
        elif isinstance(n, ast.AugAssign) and mentions(n.value):
            used = True
            a = _self_attr(n.target)
            if a is not None:
                attrs.add(a)
        elif isinstance(n, ast.Call) and any(mentions(a) for a in n.args):
            used = True
            f = n.func
            if isinstance(f, ast.Attribute):
                a = _self_attr(f.value)
                if a is not None:
                    sub.add(a)
                elif isinstance(f.value, ast.Name):
                    for a2 in recv_alias.get(f.value.id, ()):
                        sub.add(a2)
                elif isinstance(f.value, ast.Call) and isinstance(f.value.func, ast.Name) and f.value.func.id == 'getattr':
                    sub.add('<dynamic>')
        elif isinstance(n, (ast.Compare,)) and mentions(n):
            checked = True
            used = True
        elif isinstance(n, (ast.If, ast.While)) and mentions(n.test):
            checked = True
            used = True
        elif isinstance(n, ast.Return) and n.value is not None and mentions(n.value):
            used = True
    return {'attrs': attrs, 'sub': sub, 'checked': checked, 'used': used}


def _flows_once(ctx, fi, local, recv_alias):
    attrs, sub = set(), set()
    for n in ctx.own_nodes(fi):
        mentions = lambda e: any(isinstance(x, ast.Name) and x.id == local and isinstance(x.ctx, ast.Load) for x in ast.walk(e))
        if isinstance(n, ast.Assign) and mentions(n.value):
            for t in n.targets:
                a = _self_attr(t)
                if a is not None:
                    attrs.add(a)
        elif isinstance(n, ast.Call) and any(mentions(a) for a in n.args) and isinstance(n.func, ast.Attribute):
            a = _self_attr(n.func.value)
            if a is not None:
                sub.add(a)
            elif isinstance(n.func.value, ast.Name):
                sub |= recv_alias.get(n.func.value.id, set())
    return attrs, sub


def _checked_against(ctx, fi, local, attr):
    """parse compares the field with self.<attr> (set by the constructor) and refuses otherwise."""
    for n in ctx.own_nodes(fi):
        if isinstance(n, ast.Compare):
            parts = [n.left] + list(n.comparators)
            if any(isinstance(x, ast.Name) and x.id == local for x in parts) and any(_self_attr(x) == attr for x in parts):
                return True
    return False


def _classify_pack_arg(ctx, fi, a, sdefs, depth=0):
    """-> (kind, payload)"""
    if isinstance(a, ast.Name) and a.id in sdefs and depth < 6:
        return _classify_pack_arg(ctx, fi, sdefs[a.id], sdefs, depth + 1)
    try:
        v = fold(a, ctx.m, ctx.m.modules[fi.module], fi.cls)
        return 'const', v
    except NotConst:
        pass
    at = _self_attr(a)
    if at is not None:
        return 'attr', at
    if sf.swab_width(a) is not None:
        return 'swab', norm(a.args[0])
    if isinstance(a, ast.Call) and isinstance(a.func, ast.Attribute) and a.func.attr == 'record' and not a.args:
        at = _self_attr(a.func.value)
        if at is not None:
            return 'sub', at
    try:
        v = fold(a, ctx.m, ctx.m.modules[fi.module], fi.cls)
        return 'const', v
    except NotConst:
        pass
    if isinstance(a, ast.Name):
        params = [p.lstrip('*') for p in fi.params]
        if a.id in params:
            return 'param', a.id
    # expression built from exactly one attribute, e.g. self.efi_lba * 4 or self.x.ljust(..)
    ats = set()
    for sub in ast.walk(a):
        t = _self_attr(sub)
        if t is not None:
            ats.add(t)
    if len(ats) == 1 and not any(isinstance(x, ast.Call) or (isinstance(x, ast.Name) and x.id != 'self')
                                 for x in ast.walk(a)):
        return 'derived', list(ats)[0]
    return 'computed', norm(a)


def _abs_fields(ctx, s):
    """[(abs offset or None, Field)]"""
    base = 0
    if s.kind == 'unpack_from':
        try:
            base = fold(s.base_offset, ctx.m, ctx.m.modules[s.fi.module], s.fi.cls)
        except NotConst:
            base = None
    return [((base + f.offset) if base is not None else None, f) for f in s.fields]


def _pair_sites(ctx, ci):
    """pairs of (pack site, unpack site) for class ci."""
    packs, unpacks = [], []
    for name, fi in ci.methods.items():
        for s in sf.sites(ctx, fi):
            if s.fields is None or s.items is None:
                continue
            if s.kind == 'pack' and (name in RECORD_NAMES or name.startswith('record')):
                packs.append(s)
            elif s.kind in ('unpack', 'unpack_from') and name in PARSE_NAMES:
                unpacks.append(s)
    pairs = []
    used = set()
    for p in sorted(packs, key=lambda s: (-s.size, s.call.lineno)):
        cands = [u for u in unpacks if id(u) not in used and [f.width for f in u.fields] == [f.width for f in p.fields]
                 and [f.code for f in u.fields] == [f.code for f in p.fields]]
        if not cands:
            # suffix match (isohybrid: record packs header+rest, parse unpacks rest at offset)
            for u in unpacks:
                if id(u) in used:
                    continue
                k = len(u.fields)
                if 0 < k < len(p.fields) and [f.code + str(f.width) for f in p.fields[-k:]] == [f.code + str(f.width) for f in u.fields]:
                    cands = [u]
                    break
        if cands:
            # same order of appearance
            u = sorted(cands, key=lambda s: s.call.lineno)[0]
            used.add(id(u))
            pairs.append((p, u))
    return pairs, packs, unpacks


@rule('SA-SYM')
@props('C05', 'C02', 'C10', 'C12', 'C19')
def symmetry(ctx):
    obs = []
    npairs = 0
    for ci in sorted(ctx.m.classes.values(), key=lambda c: c.qual):
        if ctx.m.modules[ci.module].is_tool:
            continue
        pairs, packs, unpacks = _pair_sites(ctx, ci)
        for p, u in pairs:
            npairs += 1
            sdefs = ctx.single_defs(p.fi)
            k = len(u.fields)
            pitems = p.items[-k:] if k < len(p.items) else p.items
            pfields = p.fields[-k:] if k < len(p.fields) else p.fields
            for i, (a, t) in enumerate(zip(pitems, u.items)):
                f = pfields[i]
                kind, payload = _classify_pack_arg(ctx, p.fi, a, sdefs)
                if kind == 'param':
                    # look at in-class callers of the record helper
                    vals = set()
                    for caller, c in ctx.callers().get(p.fi.qual, []):
                        if caller.cls is not ci:
                            continue
                        pn = p.fi.params[1:] if p.fi.cls is not None and not p.fi.is_static else p.fi.params
                        if payload in pn:
                            j = pn.index(payload)
                            if j < len(c.node.args):
                                ca = c.node.args[j]
                                at = _self_attr(ca)
                                if at is not None:
                                    vals.add(at)
                    if len(vals) == 1:
                        kind, payload = 'attr', list(vals)[0]
                    else:
                        kind = 'computed'
                key = '%s|offset %d width %d' % (ci.qual, f.offset, f.width)
                loc = ctx.loc(u.fi, t)
                tat = _self_attr(t)
                if kind in ('attr', 'sub', 'derived'):
                    if tat is not None:
                        ok = (tat == payload) and kind != 'sub'
                        if kind == 'sub' and tat == payload:
                            # parse stores raw bytes into the attribute record() calls .record() on
                            ok = False
                        obs.append(Ob('SA-SYM', key, ok, loc,
                                      '' if ok else 'record() emits %s%s at this field but parse() stores the field into self.%s'
                                      % ('self.' + payload, '.record()' if kind == 'sub' else '', tat)))
                        continue
                    if isinstance(t, ast.Name):
                        fl = _flows(ctx, u.fi, t.id)
                        if kind == 'sub':
                            ok = payload in fl['sub'] or payload in fl['attrs'] or '<dynamic>' in fl['sub']
                        else:
                            ok = payload in fl['attrs'] or payload in fl['sub']
                        if not ok and fl['checked'] and _checked_against(ctx, u.fi, t.id, payload):
                            ok = True
                        if ok:
                            obs.append(Ob('SA-SYM', key, True, loc))
                        elif not fl['used']:
                            obs.append(Ob('SA-SYM', key, False, loc,
                                          'record() emits self.%s at this field but parse() drops the field (%s): the value does not survive open+write'
                                          % (payload, t.id)))
                        else:
                            obs.append(Ob('SA-SYM', key, False, loc,
                                          'record() emits self.%s at this field but in parse() the field (%s) flows to %s'
                                          % (payload, t.id, sorted(fl['attrs'] | fl['sub']) or 'a check only')))
                        continue
                    obs.append(Ob('SA-SYM', key, False, loc, 'unrecognised parse target %s' % norm(t)))
                elif kind == 'swab':
                    obs.append(Ob('SA-SYM', key + '|be-copy', True, loc, 'big-endian copy of %s' % payload))
                elif kind == 'const':
                    obs.append(Ob('SA-SYM', key + '|const', True, loc, 'record() emits constant %r' % (payload if not isinstance(payload, bytes) or len(payload) < 16 else payload[:16] + b'...',)))
                else:
                    obs.append(Ob('SA-SYM', key + '|computed', True, loc, 'computed at record time: %s' % payload[:80]))
    if npairs < 60:
        raise AnalysisError('anchor-vanished: only %d parse/record pairs found (expected >= 60)' % npairs)
    return obs
