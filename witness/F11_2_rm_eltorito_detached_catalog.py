"""F-11.2: rm_eltorito unlinked every record in eltorito_boot_catalog.dirrecords through its cached
index_in_parent, also records that are not in a directory any more (hidden with rm_hard_link) or never
were (the placeholder of an opened image whose catalog has no name): an unrelated entry was deleted, or
the call failed with PyCdlibInternalError.  usage: F11_2_rm_eltorito_detached_catalog.py [repo]"""
import sys, io
sys.path.insert(0, sys.argv[1] if len(sys.argv) > 1 else '/repo')
import pycdlib

bad = []

def names(iso, **kw):
    return sorted(c.file_identifier() for c in iso.list_children(**kw) if c is not None and c.file_identifier() not in (b'.', b'..'))

def build(udf):
    iso = pycdlib.PyCdlib()
    iso.new(udf='2.60' if udf else None)
    def add(n, data):
        iso.add_fp(io.BytesIO(data), len(data), '/%s;1' % n, **({'udf_path': '/' + n.lower()} if udf else {}))
    add('BOOT.IMG', b'B' * 2048)
    iso.add_eltorito('/BOOT.IMG;1', bootcatfile='/BOOT.CAT;1')
    for n in ('AAA.', 'CCC.', 'ZZZ.'):
        add(n, n.encode())
    return iso

for udf in (False, True):
    for reopen in (False, True):
        tag = 'udf=%s reopen=%s' % (udf, reopen)
        iso = build(udf)
        iso.rm_hard_link(iso_path='/BOOT.CAT;1')
        if udf:
            try:
                iso.rm_hard_link(udf_path='/boot.cat')
            except pycdlib.pycdlibexception.PyCdlibException:
                pass
        if reopen:
            buf = io.BytesIO()
            iso.write_fp(buf)
            iso.close()
            iso = pycdlib.PyCdlib()
            iso.open_fp(buf)
        before = names(iso, iso_path='/')
        try:
            iso.rm_eltorito()
        except Exception as e:
            bad.append('%s: rm_eltorito raised %s: %s' % (tag, type(e).__name__, e))
            continue
        after = names(iso, iso_path='/')
        if after != before:
            bad.append('%s: rm_eltorito changed the root directory from %s to %s' % (tag, before, after))
        out = io.BytesIO()
        try:
            iso.write_fp(out)
            size = iso.pvd.space_size * 2048
            iso.close()
            if len(out.getvalue()) != size:
                bad.append('%s: image is %d bytes, volume descriptor declares %d' % (tag, len(out.getvalue()), size))
            chk = pycdlib.PyCdlib()
            chk.open_fp(out)
            if names(chk, iso_path='/') != before:
                bad.append('%s: reopened image lists %s' % (tag, names(chk, iso_path='/')))
            data = io.BytesIO()
            chk.get_file_from_iso_fp(data, iso_path='/ZZZ.;1')
            if data.getvalue() != b'ZZZ.':
                bad.append('%s: /ZZZ.;1 reads %r' % (tag, data.getvalue()))
            chk.close()
        except Exception as e:
            bad.append('%s: write/reopen after rm_eltorito raised %s: %s' % (tag, type(e).__name__, e))
if bad:
    print('\n'.join(bad)); print('FAIL'); sys.exit(1)
print('OK')
