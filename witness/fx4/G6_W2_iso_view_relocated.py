#!/usr/bin/env python3
"""
Witness for observation A (notes item 1, ISO9660 half): extracting the plain
ISO9660 view of an image with a relocated directory.

  python W2_iso_view_relocated.py <path-to-checkout>

Builds a/d2/.../d7/deep/one.txt and b/d2/.../d7/deep/two.txt with
pycdlib-genisoimage -R and extracts the plain ISO9660 view with
pycdlib-extract-files -path-type iso.  The extraction must succeed and every
source file must appear exactly once (with its contents).
"""
import os
import shutil
import subprocess
import sys
import tempfile

CHECKOUT = os.path.abspath(sys.argv[1])
sys.path.insert(0, CHECKOUT)

import pycdlib  # noqa: E402  pylint: disable=wrong-import-position


def tool(name, *args):
    env = dict(os.environ)
    env['PYTHONPATH'] = CHECKOUT
    proc = subprocess.run([sys.executable, os.path.join(CHECKOUT, 'tools', name)] + list(args),
                          env=env, stdout=subprocess.PIPE, stderr=subprocess.PIPE,
                          universal_newlines=True, check=False)
    return proc.returncode, proc.stdout, proc.stderr


def tree(root):
    out = {}
    for dirpath, dirnames, filenames in os.walk(root):
        for name in dirnames + filenames:
            full = os.path.join(dirpath, name)
            rel = os.path.relpath(full, root)
            if os.path.islink(full):
                out[rel] = ('link', os.readlink(full))
            elif os.path.isdir(full):
                out[rel] = 'dir'
            else:
                with open(full, 'rb') as infp:
                    out[rel] = infp.read()
    return out


def main():
    problems = []
    tmp = tempfile.mkdtemp()
    try:
        src = os.path.join(tmp, 'src')
        want = {}
        for top, fname, content in (('a', 'one.txt', b'one\n'), ('b', 'two.txt', b'two\n')):
            deep = os.path.join(src, top, 'd2', 'd3', 'd4', 'd5', 'd6', 'd7', 'deep')
            os.makedirs(deep)
            with open(os.path.join(deep, fname), 'wb') as outfp:
                outfp.write(content)
            want[fname.upper() + ';1'] = content

        isoname = os.path.join(tmp, 'out.iso')
        ret, _, err = tool('pycdlib-genisoimage', '-quiet', '-R', '-o', isoname, src)
        if ret != 0:
            print('pycdlib-genisoimage failed: %s' % (err.strip().splitlines()[-1:]))
            return 1

        dest = os.path.join(tmp, 'dest')
        os.makedirs(dest)
        ret, _, err = tool('pycdlib-extract-files', '-path-type', 'iso',
                           '-extract-to', dest, isoname)
        if ret != 0:
            problems.append('pycdlib-extract-files -path-type iso failed: %s' % (err.strip().splitlines()[-1:]))
        got = {}
        for rel, content in tree(dest).items():
            if content != 'dir':
                got.setdefault(os.path.basename(rel), []).append(content)
        for name, content in sorted(want.items()):
            if got.get(name) != [content]:
                problems.append('source file %s: expected exactly one copy with the source contents, got %r' % (name, got.get(name)))
        for name in sorted(set(got) - set(want)):
            problems.append('unexpected file %s extracted' % (name))
    finally:
        shutil.rmtree(tmp, ignore_errors=True)

    if problems:
        for problem in problems:
            print(problem)
        return 1
    print('OK')
    return 0


if __name__ == '__main__':
    sys.exit(main())
