"""
A boot file with an El Torito boot info table is returned inconsistently:
get_file_from_iso_fp(iso_path=...) and the written image have the table
patched over bytes 8..64, but open_file_from_iso() and
get_file_from_iso_fp(udf_path=...) return the raw data without the table.
"""
import io
import struct
import sys

sys.path.insert(0, sys.argv[1])
import pycdlib  # noqa: E402


def main():
    boot = bytes((i * 11 + 3) & 0xff for i in range(3000))
    problems = []

    iso = pycdlib.PyCdlib()
    iso.new(udf='2.60')
    iso.add_fp(io.BytesIO(boot), len(boot), '/BOOT.;1', udf_path='/boot')
    iso.add_eltorito('/BOOT.;1', '/BOOT.CAT;1', boot_info_table=True)
    iso.force_consistency()   # so that all extents are assigned

    results = {}
    tmp = io.BytesIO()
    iso.get_file_from_iso_fp(tmp, iso_path='/BOOT.;1')
    results['get_file_from_iso_fp(iso_path)'] = tmp.getvalue()
    tmp = io.BytesIO()
    iso.get_file_from_iso_fp(tmp, udf_path='/boot')
    results['get_file_from_iso_fp(udf_path)'] = tmp.getvalue()
    with iso.open_file_from_iso(iso_path='/BOOT.;1') as infp:
        results['open_file_from_iso(iso_path).read()'] = infp.read()
    with iso.open_file_from_iso(udf_path='/boot') as infp:
        results['open_file_from_iso(udf_path).read()'] = infp.read()
    with iso.open_file_from_iso(iso_path='/BOOT.;1') as infp:
        chunks = []
        while True:
            chunk = infp.read(7)
            if not chunk:
                break
            chunks.append(chunk)
        results['open_file_from_iso(iso_path), read(7) in a loop'] = b''.join(chunks)
    with iso.open_file_from_iso(iso_path='/BOOT.;1') as infp:
        infp.seek(20)
        buf = bytearray(100)
        got = infp.readinto(buf)
        results['open_file_from_iso(iso_path), seek(20) + readinto(100)'] = bytes(buf[:got])

    out = io.BytesIO()
    iso.write_fp(out)
    iso.close()
    img = out.getvalue()
    cat_extent, = struct.unpack_from('<L', img, 17 * 2048 + 71)
    rba, = struct.unpack_from('<L', img, cat_extent * 2048 + 32 + 8)
    written = img[rba * 2048:rba * 2048 + len(boot)]
    if struct.unpack_from('<LLL', written, 8) != (16, rba, len(boot)) or written[64:] != boot[64:]:
        problems.append('written boot file does not have the expected boot info table')

    for name in sorted(results):
        expected = written[20:120] if 'seek(20)' in name else written
        if results[name] != expected:
            problems.append('%s differs from the boot file as written to the image%s'
                            % (name, ' (it is the data without the boot info table)'
                               if results[name] == boot[20:120] or results[name] == boot else ''))

    if problems:
        for p in problems:
            print(p)
        return 1
    print('OK')
    return 0


if __name__ == '__main__':
    sys.exit(main())
