"""F-12.1: EFI partition length taken from a left-over loop variable.
Hybrid image with a BIOS initial entry (4 sectors) and an EFI section entry of a
different size: the MBR/GPT EFI partition must have the EFI image's sector count."""
import io, sys
sys.path.insert(0, '/repo')
import pycdlib

iso = pycdlib.PyCdlib()
iso.new()
bios = b'\x00' * 0x40 + b'\xfb\xc0\x78\x70' + b'\x00' * (2048 - 0x44)
efi = b'\xee' * (2048 * 3)      # 3 sectors -> 12 virtual 512-byte sectors
last = b'\xaa' * (2048 * 7)     # a later section with another size
iso.add_fp(io.BytesIO(bios), len(bios), '/BOOT.;1')
iso.add_fp(io.BytesIO(efi), len(efi), '/EFI.;1')
iso.add_fp(io.BytesIO(last), len(last), '/ZLAST.;1')
iso.add_eltorito('/BOOT.;1', '/BOOT.CAT;1', boot_load_size=4)
iso.add_eltorito('/EFI.;1', efi=True, platform_id=0xef, boot_load_size=12)
iso.add_eltorito('/ZLAST.;1', platform_id=1, boot_load_size=28)
iso.add_isohybrid(efi=True)
iso.force_consistency()
got = iso.isohybrid_mbr.efi_count
iso.close()
print('efi_count', got, 'expected', 12)
print('DEFECT' if got != 12 else 'OK')
sys.exit(1 if got != 12 else 0)
