#!/usr/bin/env python
"""
Observation G: (1) VolumeDescriptorDate.new(0.0) records 'not specified'
instead of the instant 1970-01-01T00:00:00Z, also through
PyCdlib.new(vol_expire_date=0.0); (2) the hundredths of a second are formatted
with '{:0<2}', which pads on the right - checked here through what new()
records for a range of instants (two decimal digits at offset 14 are expected).

usage: W7_voldate_new_epoch.py <path-to-checkout>
"""
import calendar
import io
import os
import sys
import time

sys.path.insert(0, sys.argv[1])

import pycdlib
from pycdlib import dates

problems = []
notes = []


def decode(field):
    digits = field[:14].decode('ascii')
    tm = time.strptime(digits, '%Y%m%d%H%M%S')
    offset = field[16] - 256 if field[16] > 127 else field[16]
    return calendar.timegm(tm) - offset * 15 * 60


for tz in ('UTC', 'EST5EDT', 'NZST-12NZDT'):
    os.environ['TZ'] = tz
    time.tzset()

    # (2) every recorded field has the form of 16 digits and an offset, and
    # decodes to the instant it was made from.
    for instant in (1.0, 0.5, 86399.99, 1546914300.0, 1546914300.37, 1709164800.0, 4102444799.0):
        d = dates.VolumeDescriptorDate()
        d.new(instant)
        field = d.record()
        if len(field) != 17 or not field[:16].isdigit():
            problems.append('TZ=%s new(%r) recorded the malformed field %r' % (tz, instant, field))
        elif decode(field) != int(instant):
            problems.append('TZ=%s new(%r) recorded %r, which is %d' % (tz, instant, field, decode(field)))
        elif field[14:16] != b'00':
            notes.append('hundredths %r' % (field[14:16]))

    # (1) the epoch itself.
    d = dates.VolumeDescriptorDate()
    d.new(0.0)
    if d.record() == b'0' * 16 + b'\x00':
        problems.append("TZ=%s VolumeDescriptorDate.new(0.0) recorded 'not specified', not 1970-01-01T00:00:00Z" % (tz))
    elif decode(d.record()) != 0:
        problems.append('TZ=%s VolumeDescriptorDate.new(0.0) recorded %r' % (tz, d.record()))

    iso = pycdlib.PyCdlib()
    iso.new(vol_expire_date=0.0)
    out = io.BytesIO()
    iso.write_fp(out)
    iso.close()
    field = out.getvalue()[16 * 2048 + 847:16 * 2048 + 864]
    if field == b'0' * 16 + b'\x00':
        problems.append("TZ=%s PyCdlib.new(vol_expire_date=0.0) recorded 'not specified' as the expiration date" % (tz))
    elif decode(field) != 0:
        problems.append('TZ=%s PyCdlib.new(vol_expire_date=0.0) recorded %r' % (tz, field))

if problems:
    print('\n'.join(problems))
    sys.exit(1)
print('OK')
