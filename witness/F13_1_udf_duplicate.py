"""F-13.1: two UDF entries with the same name in one directory are accepted."""
import io, sys
sys.path.insert(0, '/repo')
import pycdlib
iso = pycdlib.PyCdlib()
iso.new(udf='2.60')
iso.add_fp(io.BytesIO(b'one'), 3, '/A.;1', udf_path='/same')
try:
    iso.add_fp(io.BytesIO(b'two'), 3, '/B.;1', udf_path='/same')
    refused = False
except pycdlib.pycdlibexception.PyCdlibInvalidInput:
    refused = True
names = [c.file_identifier() for c in iso.list_children(udf_path='/') if c is not None]
print('refused:', refused, 'children:', names)
print('OK' if refused else 'DEFECT')
sys.exit(0 if refused else 1)
