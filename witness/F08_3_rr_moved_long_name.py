"""F-08.3: the relocation directory (RR_MOVED) created by a deep add_directory never got a continuation slot:
with a long Rock Ridge relocated name (set_relocated_name) its CE entry pointed at block 0 / offset 0 and its
continuation data was written over the start of the image.  usage: F08_3_rr_moved_long_name.py [repo]"""
import sys, io, struct
sys.path.insert(0, sys.argv[1] if len(sys.argv) > 1 else '/repo')
import pycdlib

bad = []
for n in (8, 120, 200):
    iso = pycdlib.PyCdlib()
    iso.new(rock_ridge='1.09')
    iso.set_relocated_name('RR_MOVED', 'm' * n)
    path = ''
    for i in range(1, 9):
        path += '/D%d' % i
        iso.add_directory(path, rr_name='d%d' % i)
    buf = io.BytesIO()
    try:
        iso.write_fp(buf)
    except Exception as e:
        bad.append('name of %d: write raised %s: %s' % (n, type(e).__name__, e)); continue
    raw = buf.getvalue()
    iso.close()
    if raw[:32768].strip(b'\x00'):
        bad.append('relocated name of %d characters: the system area (first 16 sectors) is not empty: continuation data was written at the start of the image' % n)
    chk = pycdlib.PyCdlib()
    try:
        chk.open_fp(io.BytesIO(raw))
        names = [c.rock_ridge.name() for c in chk.list_children(iso_path='/') if not c.is_dot() and not c.is_dotdot()]
        if (b'm' * n) not in names:
            bad.append('relocated name of %d characters: root lists %s' % (n, [x[:10] for x in names]))
        chk.close()
    except Exception as e:
        bad.append('relocated name of %d characters: reopen raised %s: %s' % (n, type(e).__name__, e))
if bad:
    print('\n'.join(bad)); print('FAIL'); sys.exit(1)
print('OK')
