"""Per-property documentation used in MANIFEST.json and the evidence files.

The explanation of a property is composed from the one-line descriptions of the rules that are
actually registered for it (so it cannot drift from what runs) plus a hand-written statement of what
is *not* decided."""

_COMMON_NOTE = ('Trusted base: the Python ast module; the type comments of the analysed source (used only to resolve '
                'calls); the frozen tables under /verif/tables (each entry one named construct with a reason). '
                'Decides necessary structural conditions of the property on every path of the current source; '
                'does not run the library and says nothing about the clauses listed as not decided.')
_LEVEL = ('Static necessary-condition checking: each rule is exact on its structural clause (no heuristics armed), '
          'instances are enumerated from the current source on every run, floors fail closed if anchors vanish. '
          'Chosen because the property quantifies over histories/inputs that no static argument bounds; the clauses '
          'claimed are those whose truth is visible in the shape of the code.')

RULEDOC = {
 'SA-SYM.rebase': 'a field packed as `E - self.A` is used arithmetically by the reader of the same struct format only in a sum that contains `+ self.A` (IsoHybrid partition size and partition offset)',
 'SA-SYM.mask': 'a constant mask applied to a field of struct.unpack with a literal format selects at least one bit of that field',
 'SA-TERM.range': 'a counting loop of open() whose body reads nothing from the image is bounded by len() of what was read, not by a length field of the image',
 'SA-PAIR.cwd': 'a working directory saved for a later os.chdir() back is read before the os.chdir() it undoes',
 'SA-DATE.width': 'every numeric piece formatted into the 17-byte volume descriptor date has a value that provably fits its width',
 'SA-FRESH.clamped': 'the clamped element of a returned tuple (min(x, const): the CHS cylinder count) is never multiplied back into a size',
 'SA-MIRROR.invariant_break': 'a for loop is not left on a condition that cannot change while it runs once work precedes the test (only the first member would be handled)',
 'SA-SIB.continued': 'where a builder starts a further SL / AL / NM entry inside its loop, the previous entry is marked continued on every path (not under a condition about the component boundary)',
 'SA-GATE.rescan': 'a scan that replaces a name when it clashes with an existing entry starts over after every replacement (break inside a repeating loop)',
 'SA-UNITS.bytes': 'no sector count (ceiling_div by the block size, extent numbers, log_block_* fields) reaches a byte sink of the space accounting (add_to_space_size, remove_from_space_size, num_bytes_to_add/remove)',
 'SA-PARSE.header_fits': 'a while loop over records with a fixed header of H bytes runs whenever H bytes are left (not H + 1) and reads no header byte beyond what its test guarantees',
 'SA-DATE.signext': "sign extension of a two's complement field subtracts twice the sign bit (1 << bits for a test against 1 << (bits - 1))",
 'SA-SEEK.advance': 'in the reading methods of the file object the amount added to the position is provably >= 0 under the conditions that hold there (a read past the end leaves the position alone)',
 'SA-FRESH.derived_pair': 'of two values returned together, one computed arithmetically from the other is computed from the final value of the other (no reassignment in between)',
 'SA-DEFAULT.attr': 'after `v = self.A; if v is None: v = default` the function uses v, not self.A (which is still None when the default applies)',
 'SA-COORD.ce_tracked': 'the parser registers every Rock Ridge continuation area it reads with the allocator; the guard in front of the registration fails only for the dot record of the root (truth table over the atoms of the guard)',
 'SA-COORD.rr_moved_holder': 'the record remembered as relocation directory when an image is parsed is the directory that holds relocated entries, never the entry whose RE mark was tested',
 'SA-COORD.last_mark': 'where a function appends to a list and re-marks an existing element as no longer last, the element re-marked is L[-1]',
 'SA-MIRROR.loopvar': 'the target of a for loop without break is not read after the loop (a per-member statement that slipped out of its loop acts on the last member only; a loop target that shadows a flag of the function overwrites it)',
 'SA-EXC.slot_init': 'every slot that all new*() builders of a record class assign is also assigned by __init__ or by parse() (a parsed object otherwise lacks it and the first read raises AttributeError)',
 'SA-LINKS.every': 'a loop that calls a setter on the records of an inode (linked_records) reaches every record: a record is skipped only on its type, never on a flag, a position or a set of things already seen',
 'SA-DEFAULT.resolve': 'the value of a parameter with default None is used only after the statement that replaces None by the documented default (asking whether it was given is allowed before)',
 'SA-STR.ext': 'the mangler keeps every extension length the acceptance predicate admits at the level (3 at level 1, up to the combined 30 at levels 2 and 3)',
 'SA-COORD.seekwrite': 'a record() written after a seek to X.extent_location() is the record of X (or of a part of X)',
 'SA-SIB.tool_views': "a tool call that acts on one view of the image (joliet / udf keyword only) is guarded by that view's own path and hide switches",
 'SA-ALIAS.restore': 'a container attribute saved in a local and assigned back later was saved as a copy (an alias restores nothing)',
 'SA-ARGS.swap': 'a field access passed positionally (self.xa) does not sit in the slot of another parameter while the parameter it is named after receives something else',
 'SA-IDENT.operands': 'both operands of an identity test (id()==id(), is) have static types that can denote the same object',
 'SA-MIRROR.total': 'a loop that copies a field of self into every member of a collection ranges over the whole collection, and grow/shrink siblings over the same expression',
 'SA-SEEK.consumer': 'every function that reads a file object from its current position is called with one that was positioned last (seek, _seek_to_extent, InodeOpenData binding), never after a read or with a caller-supplied object',
 'SA-SIB.query_twin': 'a query method callers use to ask before they change anything repeats every refusal of its insert method and scans every entry',
 'SA-CACHE.coherent': 'every cache in the module (memo dict, lru_cache, lazily filled slot) is coherent: the key determines the inputs, or the inputs are fixed at construction, or every writer of an input resets the cache',
 'SA-CSUM.fresh.eltorito': 'an El Torito checksum stored at construction covers only fields no later method rewrites; one stored elsewhere is recomputed before every use',
 'SA-CSUM.fresh.hybrid': 'a GPT checksum kept in object state is recomputed in the call that uses it (a memoised CRC goes stale when update_efi/update_mac move the partitions)',
 'SA-CSUM.fresh.udf': 'a UDF tag CRC/checksum kept in object state is recomputed in the call that uses it',
 'SA-EXC.format': 'every %-formatting with a constant format string has as many arguments as directives and no tuple-valued single operand (e.args), so building a message never raises TypeError',
 'SA-GATE.d1': 'the language _check_d1_characters accepts, extracted from its loop / set / regex form, is exactly (A-Z 0-9 _)*, and both identifier predicates apply it whenever the level is below 4',
 'SA-GATE.d1.total': '_check_d1_characters accepts every string over the d-characters (including the empty one), so mangler output is never refused',
 'SA-GUARD.layout': 'the guard modify_file_in_place refuses on is raised on every normal path of every method that marks the layout stale, lowered only at re-initialisation, and tested before every write',
 'SA-IDENT.sanitized': 'after an identity value got a sanitised copy (extent_to_use: 0 for empty files and symlinks) every ==/in/subscript decision in that block uses the copy',
 'SA-SIB.tool_symlink': 'pycdlib-genisoimage hands the same verbatim os.readlink() text to the Rock Ridge and the UDF view of a symlink',
 'SA-SNAPSHOT.facade': 'a facade stores nothing copied out of the PyCdlib object (fields PyCdlib rewrites, results of its methods), only the object itself',
 'SA-VBM.prevalidate': 'an up-front resolution statement (pure value-returning resolver called for its refusal) runs under every parameter condition under which the parameter is later used',
 'SA-ACCT.delta': 'a returned block/byte delta subtracts the same measure before and after the adjustment, and grow/shrink siblings use the same measure',
 'SA-ACCT.dropped': 'the delta returned by an accounting producer is never discarded on its way to _finish_add/_finish_remove',
 'SA-ACCT.inverse': 'grow and shrink operations of one class adjust the same attributes by inverse amounts of the same unit (never overwrite)',
 'SA-ATTR': 'attributes and keyword arguments used by the tools and public methods exist on every class the receiver can have (with isinstance narrowing)',
 'SA-COORD.refresh': 'the loop that renumbers the children of a directory assigns all cached coordinates on every iteration, to the end, without early exit',
 'SA-COORD': 'a position is computed from the cached coordinates (extents_to_here, offset_to_here, index_in_parent, parent, dr_len) of exactly one record',
 'SA-DATE': 'broken-down time fields and the GMT offset come from the same localtime() of the same instant',
 'SA-DATE.instant': 'the recorded GMT offset is computed from gmtime(instant) vs the local broken-down time of the same instant; nothing reads the process-wide time.timezone/altzone',
 'SA-DEDUP': 'duplicate-content linking in genisoimage is dominated by a byte-wise comparison',
 'SA-DISPATCH.shadow': 'no alternative of a constant if/elif dispatch is shadowed by an earlier unconditional branch',
 'SA-DUPGUARD': 'each insertion primitive refuses duplicates before it inserts',
 'SA-DUPGUARD.bypass': 'no caller reaches an insertion primitive with the duplicate check switched off by a user-controlled value',
 'SA-ENDIAN': 'both-byte-order copies of a number are packed from one expression, little endian first',
 'SA-EXC.explicit': 'every explicit raise reachable from open() constructs a documented exception class',
 'SA-EXC.implicit': 'implicit exception sources reachable from open() are covered by the conversion at the API boundary',
 'SA-EXC.unbound': 'definite assignment: no local is read on a path that never assigned it (UnboundLocalError is not converted at the boundary)',
 'SA-EXC.unbound_tool': 'definite assignment in the tool scripts',
 'SA-FIT.ce_block': 'every placement into a Rock Ridge continuation block is implied (linear implication) to lie inside a free gap of the sector',
 'SA-FMT': 'struct format hygiene: explicit byte order, sizes agree between pack/unpack/calcsize sites',
 'SA-FRESH.inodes': 'only freshly constructed inodes are appended to PyCdlib.inodes (no inode is listed twice)',
 'SA-GATE.depth': 'every user-named directory insertion passes the depth predicate',
 'SA-GATE.eltorito': 'removing a file passes the El Torito reference gate',
 'SA-GATE.iso_name': 'every user-named ISO9660 insertion passes the acceptance predicate of its interchange level',
 'SA-GATE.joliet': 'every insertion into the Joliet tree passes the Joliet name gate',
 'SA-IDENT': 'tree nodes are told apart by identity (is / id()), never by the content-based __eq__ of DirectoryRecord and friends',
 'SA-IDENT.key': 'an extent-to-inode identity map is never looked up with a sentinel key shared by a whole class of records',
 'SA-LEN.susp': 'the su_len byte of each fixed-shape SUSP entry equals the number of bytes its record() emits (length algebra)',
 'SA-LENBOUND': 'a length stored in a one-byte field is refused above 255 after its last increase',
 'SA-OWN.cdfp-handle': 'only the owners rebind the handle of the opened image',
 'SA-OWN.children': 'DirectoryRecord.children is mutated only by the sorted insert/remove primitives',
 'SA-OWN.derived': 'setters of derived locations are called only from the recomputation pass',
 'SA-OWN.dr-extent': 'directory record extents have no writer outside parse and the pass',
 'SA-OWN.fi_descs': 'UDF fi_descs is mutated only by its primitives',
 'SA-OWN.image': 'nobody but modify_file_in_place writes to the opened image',
 'SA-OWN.inode-extent': 'inode extents have no writer outside parse and the pass',
 'SA-OWN.inode-set-extent': 'Inode.set_extent_location is called only by _set_inode, which hands the same extent to every linked record',
 'SA-OWN.inodes': 'PyCdlib.inodes is written only by the tabulated owners',
 'SA-OWN.linked_records': 'Inode.linked_records is written only by the link/unlink primitives',
 'SA-OWN.master': 'mastering writes go through the bound-checked writer',
 'SA-OWN.needs_reshuffle': 'the stale flag is written only by _finish_add/_finish_remove and the pass',
 'SA-OWN.num_udf': 'Inode.num_udf moves only with UDF links',
 'SA-OWN.rr_children': 'rr_children is mutated only next to children',
 'SA-OWN.space_size': 'the volume space size is written only by the accounting primitives',
 'SA-PAIR.link_inode': 'pointing a record at an inode and registering it in the inode\'s linked_records happen together, on the same paths (one half dominates or post-dominates the other)',
 'SA-PAIR.offset_cache': 'every mutation of children is followed by the offset recomputation',
 'SA-PAIR.removal_cache': 'removals clear the path lookup caches',
 'SA-PAIR.rr_ce_slot': 'every Rock Ridge record linked into a directory is handed to _update_rr_ce_entry (gets its continuation slot)',
 'SA-PAIR.rr_children': 'children and rr_children are inserted into / removed from together',
 'SA-PAIR.rr_placement': 'every SUSP entry stored in a record or continuation area is accounted with the length() of its own class',
 'SA-PAIR.stream': 'the logical stream offset moves with the bytes consumed on every path',
 'SA-PAIR.udf_link_count': 'UDF file counts move with the links',
 'SA-PAIR.unlink_release': 'removing the last reference of an inode releases it',
 'SA-RESHUFFLE.flag': 'every public edit that writes what the recomputation pass reads marks the metadata stale on every normal exit',
 'SA-RESHUFFLE.isolation': 'no edit path reads derived state (its behaviour cannot depend on whether the pass already ran)',
 'SA-RESHUFFLE.mustwrite': 'inside the pass no update of derived fields is skipped by a test on only some of the inputs it uses',
 'SA-RESHUFFLE.pure': 'the recomputation pass has no memory (no accumulation into object state)',
 'SA-SEEK.bound': 'no read asks for more than what is left of the file',
 'SA-SEEK.copy': 'copy helpers never ask for more than what is left',
 'SA-SEEK.opendata': 'the data context manager positions the handle at orig_extent_loc * block size (original data) or fp_offset (new data)',
 'SA-SEEK.position': 'the position is re-established on the shared handle before every read',
 'SA-SEEK.seekmethod': 'seek/tell arithmetic is consistent for all whence values',
 'SA-SENTINEL': 'no `is None` test contradicts the callee contract (the continuation allocator signals failure with -1)',
 'SA-SIB.eltorito_entries': 'every enumeration of boot catalog entries covers initial, section and standalone entries',
 'SA-SIB.gpt_mirror': 'primary and backup GPT are updated identically',
 'SA-SIB.linked_dispatch': 'every dispatch over the records linked to an inode handles all kinds',
 'SA-SIB.packing.iso': 'size accounting and mastering break directory sectors by the same canonical inequality',
 'SA-SIB.packing.udf': 'UDF FID block stepping and block count use the canonical inequalities of the parser / the accounting',
 'SA-SIB.rr_kinds': 'every Rock Ridge kind that parse keeps is re-emitted',
 'SA-SIB.tool_none': 'the branches of genisoimage that build ISO paths treat a refused name alike',
 'SA-SIB.tool_options': 'option synonym pairs are tested as pairs everywhere',
 'SA-SPEC.dates': 'date field layouts equal the standards',
 'SA-SPEC.eltorito': 'El Torito record layouts equal the specification',
 'SA-SPEC.hybrid': 'MBR/GPT/APM layouts equal the specifications',
 'SA-SPEC.iso9660': 'ECMA-119 descriptor, directory record and path table layouts equal the standard',
 'SA-SPEC.susp': 'SUSP/RRIP entry layouts equal the standards',
 'SA-SPEC.udf': 'ECMA-167/UDF descriptor layouts equal the standards',
 'SA-STALEVAR': 'no loop variable is used after its loop where a fresh value was meant',
 'SA-STR': 'abstract interpretation of the name-mangling helpers: every derived identifier is accepted by the acceptance predicate of its level',
 'SA-STR.tool': 'collision renumbering in genisoimage returns legal names',
 'SA-SYM': 'a field emitted from attribute A by record() is parsed back into A by parse()',
 'SA-SYM.conv': 'a value converted by parse() (uuid bytes / bytes_le, decode(codec)) is converted back by the inverse in record()',
 'SA-TAG': 'UDF tag discipline: identifier given to new() = identifier of the standard = identifier under which parse receives the tag; record() is tag.record(B)+B for one B; moving a descriptor updates its tag location',
 'SA-TERM': 'every loop reachable from open() matches a progress idiom with a positive lower bound',
 'SA-UNITS': 'GMT offsets are stored in the unit the standard prescribes for that field',
 'SA-VBM': 'validate-before-mutate: no persistent write precedes an explicit refusal on any path of a public mutator',
 'SA-VBM.assert': 'an internal-error assertion about the call arguments / image configuration that sits after a mutation is covered by an earlier refusal testing the same condition',
 'SA-VBM.reset': 'new()/open() start from freshly initialised state',
}

# property -> (headline, technique, what is not decided)
PROP = {
 'C01': ('Mastering fidelity, structural part', 'who-may-write tables, pairing rules, sibling inequalities in canonical linear form, dispatch-shadow contradiction rule',
         'byte-for-byte equality of file data and tree equality after reopen for arbitrary histories (run-time values)'),
 'C02': ('Editing preserves the rest, structural part', 'effect extraction, who-may-write, pairing, identity discipline and sibling-enumeration rules',
         'equality of untouched bytes across generations'),
 'C03': ('ECMA-119 validity, structural part', 'struct-format codec model against a spec layout oracle; sibling agreement via canonical linear inequalities; inverse-accounting rule',
         'ordering of records, path table contents and parent numbers for a given tree (values)'),
 'C04': ('Sector allocation, structural part', 'call-graph reachability, who-may-write/who-may-call tables, linear implication for placements, accounting discipline',
         'non-overlap of concrete extents and exact image length for a given history (sums of run-time sizes)'),
 'C05': ('Re-mastering fixpoint, structural part', 'per-field def-use flow between struct.unpack targets and struct.pack arguments; sibling inequalities; dispatch-shadow rule',
         'byte identity of open+write for arbitrary images'),
 'C06': ('Lazy metadata transparency, structural part', 'effect summaries over the call graph; must-pass-through on public method CFGs',
         'equality of the bytes produced in lazy and always-consistent mode'),
 'C07': ('Hard-link semantics, structural part', 'pairing rules over effect extraction; identity discipline; freshness of list members by reaching definitions',
         'what each name reads after an arbitrary link/unlink history'),
 'C08': ('Rock Ridge fidelity, structural part', 'spec oracle; block-level pairing with reaching definitions; linear implication for continuation placements',
         'names/targets recovered by an independent reader for arbitrary lengths'),
 'C09': ('Joliet fidelity, structural part (thin)', 'call-graph must-pass-through (gate); coordinate-consistency rule',
         'UCS-2 round trip of arbitrary names, independence of the two trees, shared data sectors (values)'),
 'C10': ('UDF bridge fidelity, structural part', 'struct-format codec model + spec oracle; accounting discipline; sibling inequalities',
         'tag checksums/CRCs and reachability for an independent reader (values)'),
 'C11': ('El Torito, structural part', 'spec oracle; enumeration completeness; stale-flag must-pass-through; dispatch-shadow rule',
         'checksum of arbitrary boot files, load addresses after arbitrary histories (values)'),
 'C12': ('Hybrid boot data, structural part', 'reaching definitions (stale loop targets); mirror-write comparison; spec oracle; uncompared-input rule inside the pass; checksum freshness and cache coherence; conversion symmetry',
         'GPT CRCs and CHS geometry arithmetic (values)'),
 'C13': ('Namespace rules, structural part', 'dominance of guards over insertions; call-graph must-pass-through; partial evaluation of the predicates',
         'the language accepted by each predicate versus the documented rules for every string'),
 'C14': ('Failure atomicity restricted to explicit refusals', 'interprocedural may-dataflow of persistent writes vs. raise sites with constant-fact specialisation; discharge of pre-validated statements by raise-site coverage; condition coverage of up-front resolutions; query/insert twin agreement; alias-restore and identity-operand lints',
         'exceptions raised implicitly (struct.error, IOError from the user fp) and equality of the bytes written afterwards'),
 'C15': ('Hostile images', 'call-graph reachability; loop classification with per-loop progress proofs; definite assignment',
         'memory proportionality and promptness as quantities'),
 'C16': ('Reading files, structural part', 'must/may dataflow on the CFG of each stream method with linear-expression comparison (single-handle and multi-part designs); positioned-before-consumed for discovered file-object consumers; identity discipline',
         'equality of the bytes returned with the bytes supplied'),
 'C17': ('In-place modification, structural part', 'who-may-write; coordinate-consistency (record position, seek target vs. written record); guard must-pass-through on every stale-marker and every call of the recomputation pass; dispatch exhaustiveness',
         'that exactly the addressed sectors change (values)'),
 'C18': ('Derived names are legal', 'abstract interpretation over a finite string domain (sound for the string operations used)',
         'nothing structural left out; Unicode case-mapping expansion bound (3) is measured from the running interpreter'),
 'C19': ('Timestamps, structural part', 'same-source def-use rule; dimension algebra; spec oracle',
         'correctness of the GMT-offset arithmetic across year/DST boundaries (a function of instant x zone: not decidable by this family)'),
 'C20': ('Tools round trip, structural part', 'slot-based attribute checking with narrowing; truth-table comparison of option expressions; definite assignment',
         'equality of the extracted tree with the source tree'),
}


def _d(pid):
    from . import registry
    rids = registry.prop_rules(pid)
    head, technique, notdecided = PROP[pid]
    parts = ['%s (%s)' % (RULEDOC.get(r) or RULEDOC.get(r.rsplit('.', 1)[0], r), r) for r in rids]
    expl = '%s: %s. Not decided: %s.' % (head, '; '.join(parts), notdecided)
    return {'explanation': expl, 'technique': technique, 'level_text': _LEVEL, 'level_note': _COMMON_NOTE,
            'design_ref': 'DESIGN.md section 5/%s' % pid,
            'assumptions': ['type comments in /repo describe the receivers they annotate (used for call resolution only)',
                            'no monkey-patching / dynamic attribute injection beyond the three getattr/setattr idioms handled',
                            'the spec table tables/spec_layout.json was transcribed correctly from the standards']}


class _Doc(dict):
    def get(self, k, default=None):
        if k in PROP:
            if k not in self:
                dict.__setitem__(self, k, _d(k))
            return dict.__getitem__(self, k)
        return default

    def __getitem__(self, k):
        v = self.get(k)
        if v is None:
            raise KeyError(k)
        return v


PROPDOC = _Doc()
