#!/usr/bin/env python
# Witness C: tools/pycdlib-explorer, command modify_file_in_place.  After the
# command the session must go on working: 'get' of the modified file and
# 'write' of the whole ISO have to deliver the new contents.
#
# usage: W3_explorer_modify_in_place.py <pycdlib checkout>
import io
import os
import shutil
import subprocess
import sys
import tempfile

checkout = os.path.abspath(sys.argv[1])
sys.path.insert(0, checkout)
import pycdlib  # noqa: E402


def read_all(iso, path):
    out = io.BytesIO()
    iso.get_file_from_iso_fp(out, iso_path=path)
    return out.getvalue()


def main():
    problems = []
    tmp = tempfile.mkdtemp()
    try:
        img = os.path.join(tmp, 'in.iso')
        src = os.path.join(tmp, 'src.txt')
        got = os.path.join(tmp, 'got.txt')
        got_other = os.path.join(tmp, 'got_other.txt')
        outiso = os.path.join(tmp, 'out.iso')

        old = b'foo\n'
        new = b'barbarbar\n'
        other = b'other file\n'
        iso = pycdlib.PyCdlib()
        iso.new()
        iso.add_fp(io.BytesIO(old), len(old), '/FOO.;1')
        iso.add_fp(io.BytesIO(other), len(other), '/OTHER.;1')
        iso.write(img)
        iso.close()
        with open(src, 'wb') as f:
            f.write(new)

        commands = 'modify_file_in_place /FOO.;1 %s\nget /FOO.;1 %s\nget /OTHER.;1 %s\nwrite %s\nquit\n' % (src, got, got_other, outiso)
        env = dict(os.environ)
        env['PYTHONPATH'] = checkout
        proc = subprocess.Popen([sys.executable, os.path.join(checkout, 'tools', 'pycdlib-explorer'), img],
                                stdin=subprocess.PIPE, stdout=subprocess.PIPE,
                                stderr=subprocess.STDOUT, env=env, cwd=tmp)
        output = proc.communicate(commands.encode('ascii'))[0].decode('utf-8', 'replace')
        if proc.returncode != 0:
            problems.append('pycdlib-explorer exited with %d' % (proc.returncode))
        if 'closed file' in output:
            problems.append('pycdlib-explorer printed: %s' % (' / '.join(l for l in output.splitlines() if 'closed file' in l)))

        def content(path):
            if not os.path.exists(path):
                return None
            with open(path, 'rb') as f:
                return f.read()

        if content(got) != new:
            problems.append("'get /FOO.;1' after modify_file_in_place delivered %r, expected %r" % (content(got), new))
        if content(got_other) != other:
            problems.append("'get /OTHER.;1' after modify_file_in_place delivered %r, expected %r" % (content(got_other), other))

        if not os.path.exists(outiso) or os.path.getsize(outiso) == 0:
            problems.append("'write' after modify_file_in_place produced no ISO")
        else:
            try:
                iso = pycdlib.PyCdlib()
                iso.open(outiso)
                if read_all(iso, '/FOO.;1') != new:
                    problems.append('written ISO: /FOO.;1 is %r, expected %r' % (read_all(iso, '/FOO.;1'), new))
                if read_all(iso, '/OTHER.;1') != other:
                    problems.append('written ISO: /OTHER.;1 is damaged')
                iso.close()
            except Exception as e:  # pylint: disable=broad-except
                problems.append('written ISO does not open: %s' % (e))

        # The ISO that was modified in place has the new contents.
        iso = pycdlib.PyCdlib()
        iso.open(img)
        if read_all(iso, '/FOO.;1') != new:
            problems.append('modified ISO: /FOO.;1 is %r, expected %r' % (read_all(iso, '/FOO.;1'), new))
        if read_all(iso, '/OTHER.;1') != other:
            problems.append('modified ISO: /OTHER.;1 is damaged')
        iso.close()
    finally:
        shutil.rmtree(tmp)

    if problems:
        for p in problems:
            print(p)
        return 1
    print('OK')
    return 0


if __name__ == '__main__':
    sys.exit(main())
