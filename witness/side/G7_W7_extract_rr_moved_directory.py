"""
Extracting the Rock Ridge view of an image with a directory tree deeper than 8
levels reproduces the tree, but pycdlib-extract-files additionally creates an
empty top-level 'rr_moved' directory (the relocation directory of the ISO9660
tree) that was never part of the source tree.  Not fixed: cosmetic.
"""
import io
import os
import shutil
import subprocess
import sys
import tempfile

checkout = os.path.abspath(sys.argv[1])
sys.path.insert(0, checkout)
import pycdlib  # noqa: E402


def main():
    tmpdir = tempfile.mkdtemp()
    problems = []
    try:
        isoname = os.path.join(tmpdir, 'deep.iso')
        iso = pycdlib.PyCdlib()
        iso.new(rock_ridge='1.09')
        iso_path = ''
        rr_parts = []
        for num in range(1, 10):
            iso_path += '/DIR%d' % (num)
            rr_parts.append('dir%d' % (num))
            iso.add_directory(iso_path, rr_name='dir%d' % (num))
        iso.add_fp(io.BytesIO(b'deep\n'), 5, iso_path + '/DEEP.TXT;1', rr_name='deep.txt')
        iso.write(isoname)
        iso.close()

        outdir = os.path.join(tmpdir, 'out')
        os.mkdir(outdir)
        tool = os.path.join(checkout, 'tools', 'pycdlib-extract-files')
        proc = subprocess.run([sys.executable, tool, '-path-type', 'rockridge',
                               '-extract-to', outdir, isoname],
                              env=dict(os.environ, PYTHONPATH=checkout),
                              stdout=subprocess.PIPE, stderr=subprocess.PIPE,
                              universal_newlines=True)
        if proc.returncode != 0:
            lines = proc.stderr.strip().splitlines() or ['(no stderr)']
            problems.append('extract-files exited with %d: %s' % (proc.returncode, lines[-1]))
        else:
            if not os.path.isfile(os.path.join(outdir, *(rr_parts + ['deep.txt']))):
                problems.append('the deep file was not extracted')
            top = sorted(os.listdir(outdir))
            if top != ['dir1']:
                problems.append('top level of the extracted Rock Ridge tree is %r, expected %r' % (top, ['dir1']))
    finally:
        shutil.rmtree(tmpdir, ignore_errors=True)

    if problems:
        for problem in problems:
            print(problem)
        return 1
    print('OK')
    return 0


if __name__ == '__main__':
    sys.exit(main())
