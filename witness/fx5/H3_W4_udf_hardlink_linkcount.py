"""
Witness D: a UDF File Entry that two File Identifiers point at (a hard link
made with add_hard_link(udf_old_path=..., udf_new_path=...)) should carry
File Link Count 2 (ECMA-167 4/14.9.6: "the number of File Identifier
Descriptors identifying this ICB").

Usage: python W4_udf_hardlink_linkcount.py <path-to-checkout>
"""
import io
import struct
import sys

sys.path.insert(0, sys.argv[1])

import pycdlib  # noqa: E402


def scan(data):
    """Return ({FE block: link count}, {FE block: number of FIDs pointing at it}) from a raw scan of the partition."""
    # partition start from the Partition Descriptor (tag 5) in the main VDS
    part_start = None
    for sec in range(32, 64):
        ident, = struct.unpack_from('<H', data, sec * 2048)
        if ident == 5:
            part_start, = struct.unpack_from('<L', data, sec * 2048 + 188)
            break
    if part_start is None:
        raise Exception('no UDF Partition Descriptor found')
    link_counts = {}
    refs = {}
    for start in range(part_start * 2048, len(data) - 2047, 2048):
        ident, version = struct.unpack_from('<HH', data, start)
        if version not in (2, 3):
            continue
        if ident == 261:
            file_type = bytearray(data[start + 27:start + 28])[0]
            if file_type in (5, 12):
                link_counts[start // 2048 - part_start], = struct.unpack_from('<H', data, start + 48)
        elif ident == 257:
            # a block of File Identifier Descriptors
            offset = start
            while offset + 38 <= len(data):
                ident, = struct.unpack_from('<H', data, offset)
                if ident != 257:
                    break
                characteristics = bytearray(data[offset + 18:offset + 19])[0]
                l_fi = bytearray(data[offset + 19:offset + 20])[0]
                icb_block, = struct.unpack_from('<L', data, offset + 20 + 4)
                l_iu, = struct.unpack_from('<H', data, offset + 36)
                if not characteristics & 0x0a:  # neither directory nor parent
                    refs[icb_block] = refs.get(icb_block, 0) + 1
                length = 38 + l_iu + l_fi
                offset += (length + 3) & ~3
    return link_counts, refs


def main():
    problems = []
    iso = pycdlib.PyCdlib()
    iso.new(udf='2.60')
    foostr = b'foo\n'
    iso.add_fp(io.BytesIO(foostr), len(foostr), '/A.;1', udf_path='/a')
    iso.add_hard_link(udf_old_path='/a', udf_new_path='/b')
    iso.add_fp(io.BytesIO(b'other\n'), 6, '/C.;1', udf_path='/c')
    out = io.BytesIO()
    iso.write_fp(out)
    iso.close()

    link_counts, refs = scan(out.getvalue())
    if sorted(refs.values()) != [1, 2]:
        problems.append('expected one File Entry with two names and one with one name, found %r' % (refs))
    for block, count in sorted(refs.items()):
        if block not in link_counts:
            problems.append('no File Entry at partition block %d' % (block))
        elif link_counts[block] != count:
            problems.append('File Entry at partition block %d: File Link Count %d, but %d File Identifier(s) point at it' % (block, link_counts[block], count))

    if problems:
        for p in problems:
            print(p)
        return 1
    print('OK')
    return 0


if __name__ == '__main__':
    sys.exit(main())
