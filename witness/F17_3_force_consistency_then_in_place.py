"""F-17.3: open(); force_consistency(); modify_file_in_place() on an image whose files are not stored in the order pycdlib
would give them wrote the new contents over another file (force_consistency re-laid the image out in memory without
raising the in-place guard).  usage: <this> [checkout]   exit 0 = OK"""
import io, os, struct, sys, tempfile
sys.path.insert(0, sys.argv[1] if len(sys.argv) > 1 else '/repo')
import pycdlib

tmp = tempfile.mkdtemp()
path = os.path.join(tmp, 't.iso')
iso = pycdlib.PyCdlib()
iso.new(interchange_level=1)
iso.add_fp(io.BytesIO(b'a' * 100), 100, '/AAA.;1')
iso.add_fp(io.BytesIO(b'b' * 100), 100, '/BBB.;1')
iso.write(path)
ea = iso.get_record(iso_path='/AAA.;1').extent_location()
eb = iso.get_record(iso_path='/BBB.;1').extent_location()
root = iso.get_record(iso_path='/').extent_location()
iso.close()
data = bytearray(open(path, 'rb').read())
# swap the two files' sectors and extents: the same tree, stored B before A (as other mastering tools may)
sa, sb = bytes(data[ea * 2048:(ea + 1) * 2048]), bytes(data[eb * 2048:(eb + 1) * 2048])
data[ea * 2048:(ea + 1) * 2048], data[eb * 2048:(eb + 1) * 2048] = sb, sa
d = data[root * 2048:(root + 1) * 2048]
off = 0
while d[off]:
    name = bytes(d[off + 33:off + 33 + d[off + 32]])
    if name in (b'AAA.;1', b'BBB.;1'):
        new = eb if name == b'AAA.;1' else ea
        d[off + 2:off + 10] = struct.pack('<L', new) + struct.pack('>L', new)
    off += d[off]
data[root * 2048:(root + 1) * 2048] = d
open(path, 'wb').write(data)

iso = pycdlib.PyCdlib()
iso.open(path, 'r+b')
iso.force_consistency()
refused = False
try:
    iso.modify_file_in_place(io.BytesIO(b'c' * 50), 50, '/AAA.;1')
except pycdlib.pycdlibexception.PyCdlibInvalidInput:
    refused = True
iso.close()
iso = pycdlib.PyCdlib()
iso.open(path)
out = {}
for n in ('/AAA.;1', '/BBB.;1'):
    b = io.BytesIO()
    iso.get_file_from_iso_fp(b, iso_path=n)
    out[n] = b.getvalue()
iso.close()
os.remove(path)
os.rmdir(tmp)
want_a = b'a' * 100 if refused else b'c' * 50
bad = []
if out['/AAA.;1'] != want_a:
    bad.append('/AAA.;1 holds %r...' % out['/AAA.;1'][:8])
if out['/BBB.;1'] != b'b' * 100:
    bad.append('/BBB.;1, which was not modified, holds %r... (%d bytes)' % (out['/BBB.;1'][:8], len(out['/BBB.;1'])))
print('OK' if not bad else 'DEFECT: ' + '; '.join(bad))
sys.exit(1 if bad else 0)
