"""F-10.2: UDFFileEntry.remove_file_ident_desc_by_name shrinks info_len but leaves
log_block_recorded (ECMA-167 4/14.9.11 "Logical Blocks Recorded") at the old value.
usage: F10_2_udf_blocks_recorded.py [repo]"""
import sys, io, struct
sys.path.insert(0, sys.argv[1] if len(sys.argv) > 1 else '/repo')
import pycdlib

iso = pycdlib.PyCdlib()
iso.new(udf='2.60')
n = 60
for i in range(n):
    iso.add_fp(io.BytesIO(b'x'), 1, '/F%05d.;1' % i, udf_path='/file%05d' % i)
for i in range(25, n):
    iso.rm_file('/F%05d.;1' % i, udf_path='/file%05d' % i)
buf = io.BytesIO()
iso.write_fp(buf)
iso.close()
iso = pycdlib.PyCdlib()
iso.open_fp(buf)
root = iso.udf_root
loc = root.extent_location()
raw = buf.getvalue()[loc * 2048:(loc + 1) * 2048]
# ECMA-167 4/14.9: tag(16) icbtag(20) uid gid perms(12) linkcount(2) recfmt recdisp(2) reclen(4) infolen(8) blocksrecorded(8)
info_len, blocks = struct.unpack_from('<QQ', raw, 56)
need = (info_len + 2047) // 2048
iso.close()
print('root directory: information length %d -> %d block(s); logical blocks recorded = %d' % (info_len, need, blocks))
if blocks != need:
    print('FAIL'); sys.exit(1)
print('OK')
