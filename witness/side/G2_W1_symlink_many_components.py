"""
Rock Ridge symlink whose target consists of many short components (about 30
to 52 one-letter components): the tail of the target is silently dropped.  Only
one SL record is written, it still has the CONTINUE flag set, and the target
read back from the image is shorter than the one that was added.
"""
import io
import struct
import sys

sys.dont_write_bytecode = True
sys.path.insert(0, sys.argv[1])
import pycdlib  # noqa: E402

SECTOR = 2048


def susp_entries(img, area):
    """Yield (signature, payload) of all SUSP entries, following CE entries."""
    todo = [area]
    while todo:
        data = todo.pop(0)
        off = 0
        while off + 4 <= len(data):
            sig = data[off:off + 2]
            length = data[off + 2]
            if length < 4 or not sig.isalpha():
                break
            body = data[off + 4:off + length]
            if sig == b'CE':
                blk, = struct.unpack_from('<L', body, 0)
                coff, = struct.unpack_from('<L', body, 8)
                clen, = struct.unpack_from('<L', body, 16)
                todo.append(img[blk * SECTOR + coff:blk * SECTOR + coff + clen])
            else:
                yield sig, body
            off += length


def find_record(img, name):
    """Return the system use area of the root directory entry called name."""
    root = img[16 * SECTOR + 156:16 * SECTOR + 190]
    extent, = struct.unpack_from('<L', root, 2)
    size, = struct.unpack_from('<L', root, 10)
    data = img[extent * SECTOR:extent * SECTOR + size]
    off = 0
    while off < len(data):
        reclen = data[off]
        if reclen == 0:
            off = (off // SECTOR + 1) * SECTOR
            continue
        len_fi = data[off + 32]
        ident = data[off + 33:off + 33 + len_fi]
        su = off + 33 + len_fi + (1 if len_fi % 2 == 0 else 0)
        if ident == name:
            return data[su:off + reclen]
        off += reclen
    return None


def read_symlink(img, name, skip):
    """Return (target, flags of the last SL record) read from the raw image."""
    area = find_record(img, name)
    if area is None:
        return None, None
    comps = []
    cont = False
    last_flags = None
    for sig, body in susp_entries(img, area[skip:]):
        if sig != b'SL':
            continue
        last_flags = body[0]
        off = 1
        while off + 2 <= len(body):
            cflags, clen = body[off], body[off + 1]
            if cflags & 0x8:
                text = b''
                comps = [b'']
                cont = False
                off += 2 + clen
                continue
            if cflags & 0x2:
                text = b'.'
            elif cflags & 0x4:
                text = b'..'
            else:
                text = body[off + 2:off + 2 + clen]
            if cont:
                comps[-1] += text
            else:
                comps.append(text)
            cont = bool(cflags & 0x1)
            off += 2 + clen
    return b'/'.join(comps), last_flags


def main():
    problems = []
    for version in ('1.09', '1.12'):
        for xa in (False, True):
            for count in (20, 29, 31, 33, 40, 48, 60):
                target = '/'.join(['a'] * count)
                iso = pycdlib.PyCdlib()
                iso.new(rock_ridge=version, xa=xa)
                iso.add_symlink('/F000001.;1', 'l', target)
                out = io.BytesIO()
                iso.write_fp(out)
                iso.close()
                img = out.getvalue()

                got, flags = read_symlink(img, b'F000001.;1', 14 if xa else 0)
                where = 'rr %s xa=%s %d components' % (version, xa, count)
                if got != target.encode():
                    problems.append('%s: image holds a target of %d bytes instead of %d'
                                    % (where, len(got or b''), len(target)))
                elif flags & 0x1:
                    problems.append('%s: last SL record has CONTINUE set' % where)

                # And what the library itself reads back.
                iso2 = pycdlib.PyCdlib()
                iso2.open_fp(io.BytesIO(img))
                try:
                    back = iso2.get_record(iso_path='/F000001.;1').rock_ridge.symlink_path()
                except Exception as exc:  # pylint: disable=broad-except
                    back = repr(exc).encode()
                iso2.close()
                if back != target.encode():
                    problems.append('%s: re-opened image reports %r...' % (where, back[:40]))

    if problems:
        for line in problems:
            print(line)
        return 1
    print('OK')
    return 0


if __name__ == '__main__':
    sys.exit(main())
