#!/usr/bin/env python
"""
Observation E4: pycdlib-genisoimage -iso-level 4 -R dies on a file that is
literally named '...', because the name is mangled to '..'.

usage: W8_genisoimage_level4_dots.py <path-to-checkout>
"""
import os
import subprocess
import sys
import tempfile

CHECKOUT = os.path.abspath(sys.argv[1])
sys.path.insert(0, CHECKOUT)


def run_tool(tool, args):
    """Run a tool of the checkout; returns (exit code, output)."""
    env = dict(os.environ)
    env['PYTHONPATH'] = CHECKOUT
    proc = subprocess.run([sys.executable, os.path.join(CHECKOUT, 'tools', tool)] + args,
                          stdout=subprocess.PIPE, stderr=subprocess.STDOUT, env=env,
                          universal_newlines=True, check=False)
    return proc.returncode, proc.stdout


def snapshot(top):
    """The tree below top as {relative path: ('d',) | ('l', target) | ('f', contents)}."""
    result = {}
    for root, dirs, files in os.walk(top):
        for name in dirs + files:
            full = os.path.join(root, name)
            rel = os.path.relpath(full, top)
            if os.path.islink(full):
                result[rel] = ('l', os.readlink(full))
            elif os.path.isdir(full):
                result[rel] = ('d',)
            else:
                with open(full, 'rb') as infp:
                    result[rel] = ('f', infp.read())
    return result


def last_line(output):
    lines = [line for line in output.splitlines() if line.strip()]
    return lines[-1] if lines else ''


def extract(tmp, image, view):
    """Extract one view of the image; returns (snapshot or None, message)."""
    dest = os.path.join(tmp, 'x_' + view)
    os.makedirs(dest)
    code, output = run_tool('pycdlib-extract-files', ['-path-type', view, '-extract-to', dest, image])
    if code != 0:
        return None, last_line(output)
    return snapshot(dest), ''


def main():
    problems = []
    with tempfile.TemporaryDirectory() as tmp:
        src = os.path.join(tmp, 'src')
        os.makedirs(os.path.join(src, 'sub'))
        for name in ('...', 'plain', 'trailing.', 'trailing', 'a.b.c', '.hidden', '..x', 'x..'):
            with open(os.path.join(src, name), 'wb') as outfp:
                outfp.write(('contents of %s\n' % name).encode())
            with open(os.path.join(src, 'sub', name), 'wb') as outfp:
                outfp.write(('contents of sub/%s\n' % name).encode())
        want = snapshot(src)

        for options in (['-iso-level', '4', '-R'], ['-iso-level', '4'], ['-iso-level', '1', '-R']):
            label = ' '.join(options)
            image = os.path.join(tmp, 'out%s.iso' % ''.join(options))
            code, output = run_tool('pycdlib-genisoimage', ['-quiet'] + options + ['-o', image, src])
            if code != 0:
                problems.append('pycdlib-genisoimage %s failed (exit %d): %s' % (label, code, last_line(output)))
                continue
            if '-R' in options:
                got, message = extract(tmp, image + '', 'rockridge')
                if got is None:
                    problems.append('%s: extracting the Rock Ridge view failed: %s' % (label, message))
                elif got != want:
                    problems.append('%s: Rock Ridge view differs from the source tree' % label)
                os.rename(os.path.join(tmp, 'x_rockridge'), os.path.join(tmp, 'x_rockridge' + ''.join(options)))
            got, message = extract(tmp, image, 'iso')
            if got is None:
                problems.append('%s: extracting the ISO9660 view failed: %s' % (label, message))
            else:
                if sorted(e[1] for e in got.values() if e[0] == 'f') != sorted(e[1] for e in want.values() if e[0] == 'f'):
                    problems.append('%s: ISO9660 view does not have every source file exactly once' % label)
                if '4' in options and '-R' not in options and got != want:
                    # level 4 names can be kept as they are
                    problems.append('%s: ISO9660 view has names %s' % (label, sorted(got)))
            os.rename(os.path.join(tmp, 'x_iso'), os.path.join(tmp, 'x_iso' + ''.join(options)))

    if problems:
        for problem in problems:
            print(problem)
        return 1
    print('OK')
    return 0


if __name__ == '__main__':
    sys.exit(main())
