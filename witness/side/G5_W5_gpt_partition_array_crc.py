"""
The GPT header field 'partition entry array CRC32' must cover the whole array
the header describes (number of entries * size of an entry = 128 * 128 bytes).
pycdlib computes it over the two or three entries in use only, so a reader that
verifies the CRC rejects both the primary and the backup GPT.
"""
import io
import struct
import sys
import zlib

sys.path.insert(0, sys.argv[1])
import pycdlib  # noqa: E402

BOOT = b'\x00' * 0x40 + b'\xfb\xc0\x78\x70'
HDR = '<8s4sLLLQQQQ16sQLLL'


def check_header(raw, lba, what):
    problems = []
    hdr = raw[lba * 512:lba * 512 + 92]
    (sig, rev_unused, size, hcrc, resv_unused, cur, bak_unused, fu_unused, lu_unused, guid_unused, pel, num,
     esize, pcrc) = struct.unpack(HDR, hdr)
    if sig != b'EFI PART' or size != 92:
        return ['%s: no GPT header at LBA %d' % (what, lba)]
    if cur != lba:
        problems.append('%s: header says it is at LBA %d, found at %d' % (what, cur, lba))
    if zlib.crc32(hdr[:16] + b'\x00' * 4 + hdr[20:]) & 0xffffffff != hcrc:
        problems.append('%s: header CRC is wrong' % (what))
    arr = raw[pel * 512:pel * 512 + num * esize]
    if len(arr) != num * esize:
        problems.append('%s: partition array is cut short' % (what))
    actual = zlib.crc32(arr) & 0xffffffff
    if actual != pcrc:
        problems.append('%s: header has partition array CRC %08x, the %d-byte array at LBA %d has %08x'
                        % (what, pcrc, num * esize, pel, actual))
    return problems


def attempt(mac):
    iso = pycdlib.PyCdlib()
    iso.new()
    iso.add_fp(io.BytesIO(BOOT), len(BOOT), '/ISOLINUX.BIN;1')
    iso.add_eltorito('/ISOLINUX.BIN;1', boot_load_size=4)
    iso.add_fp(io.BytesIO(b'E' * 3000), 3000, '/EFIBOOT.IMG;1')
    iso.add_eltorito('/EFIBOOT.IMG;1', efi=True)
    if mac:
        iso.add_fp(io.BytesIO(b'M' * 3000), 3000, '/MACBOOT.IMG;1')
        iso.add_eltorito('/MACBOOT.IMG;1', efi=True)
    iso.add_isohybrid(efi=True, mac=mac)
    out = io.BytesIO()
    iso.write_fp(out)
    iso.close()
    raw = out.getvalue()
    tag = 'mac' if mac else 'efi'
    problems = check_header(raw, 1, tag + ' primary GPT')
    backup = struct.unpack_from('<Q', raw, 512 + 32)[0]
    problems += check_header(raw, backup, tag + ' backup GPT')
    return problems


def main():
    problems = attempt(False) + attempt(True)
    if problems:
        print('\n'.join(problems))
        return 1
    print('OK')
    return 0


if __name__ == '__main__':
    sys.exit(main())
