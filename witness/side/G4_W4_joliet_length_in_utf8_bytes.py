# -*- coding: utf-8 -*-
"""
The 64 character limit of Joliet names is applied to the length of the UTF-8
encoding of the name instead of the recorded UCS-2/UTF-16 name, so legal
names such as 30 CJK characters or 40 x 'e-acute' are refused with "Joliet
names can be a maximum of 64 characters".
"""
import io
import sys

sys.path.insert(0, sys.argv[1])

import pycdlib  # noqa: E402 pylint: disable=wrong-import-position

CJK = u'文'
EACUTE = u'é'
ASTRAL = u'\U0001F600'  # two 16-bit units each


def main():
    problems = []

    legal = [('30 CJK characters', CJK * 30),
             ('40 x e-acute', EACUTE * 40),
             ('64 x e-acute', EACUTE * 64),
             ('32 astral characters (64 units)', ASTRAL * 32)]
    iso = pycdlib.PyCdlib()
    iso.new(joliet=3)
    added = []
    for index, (label, name) in enumerate(legal):
        data = ('data%d' % (index,)).encode()
        try:
            iso.add_fp(io.BytesIO(data), len(data), '/F%d.;1' % (index,), joliet_path='/' + name)
            added.append((label, name, data))
        except pycdlib.pycdlibexception.PyCdlibInvalidInput as exc:
            problems.append('%s refused as file name: %s' % (label, exc))
            # A refusal may have left the object unusable; start over.
            iso = pycdlib.PyCdlib()
            iso.new(joliet=3)
            added = []
    try:
        iso.add_directory('/D', joliet_path='/' + EACUTE * 40 + 'd')
        added_dir = True
    except pycdlib.pycdlibexception.PyCdlibInvalidInput as exc:
        problems.append('41 character directory name refused: %s' % (exc,))
        added_dir = False

    if not problems:
        out = io.BytesIO()
        iso.write_fp(out)
        iso.close()
        raw = out.getvalue()
        chk = pycdlib.PyCdlib()
        chk.open_fp(out)
        for label, name, data in added:
            if name.encode('utf-16_be') not in raw:
                problems.append('%s: UTF-16BE name not found in the written image' % (label,))
            got = io.BytesIO()
            chk.get_file_from_iso_fp(got, joliet_path='/' + name)
            if got.getvalue() != data:
                problems.append('%s: read back %r, expected %r' % (label, got.getvalue(), data))
        if added_dir and not chk.get_record(joliet_path='/' + EACUTE * 40 + 'd').is_dir():
            problems.append('Joliet directory not found after reopen')
        chk.close()

    # The limit itself must still hold: 65 units are too many.
    for label, name in (('65 x e-acute', EACUTE * 65),
                        ('65 ASCII characters', 'a' * 65),
                        ('33 astral characters (66 units)', ASTRAL * 33)):
        iso = pycdlib.PyCdlib()
        iso.new(joliet=3)
        try:
            iso.add_fp(io.BytesIO(b'a'), 1, joliet_path='/' + name)
            problems.append('%s accepted as Joliet name' % (label,))
        except pycdlib.pycdlibexception.PyCdlibInvalidInput:
            pass
        iso.close()

    if problems:
        for problem in problems:
            print(problem)
        return 1
    print('OK')
    return 0


if __name__ == '__main__':
    sys.exit(main())
