"""SA-EXC.format: a `%`-formatting never raises on its own (C15).

The messages of the library's exceptions are built with `'...%s...' % args`.  Such an expression is evaluated
while an error is already being reported - in open()/open_fp() inside the handler that turns a stray
struct.error / ValueError / IndexError of the parser into PyCdlibInvalidISO - and if the formatting itself
fails, a TypeError escapes instead of the documented exception.  `%` fails when the number of conversion
directives differs from the number of arguments, and the arguments are: the elements of the right operand if
it is a tuple, the operand itself otherwise.  So for every `%` whose left operand is a constant format string:

  * right operand is a tuple display: its length equals the number of directives (a `*` width counts);
  * any other right operand: exactly one directive, and the operand is not tuple-valued - `e.args` of a caught
    exception (a tuple of any length: UnicodeDecodeError has five), an expression the type resolver gives a
    tuple type, or a local whose reaching definitions are tuple displays.
  * `%(name)s` directives: the right operand is a dict display holding every key.
"""
import ast
import re

from ..registry import rule, props
from ..report import Ob
from ..model import norm, fold, NotConst, AnalysisError
from .. import expand as ex

DIRECTIVE = re.compile(r'%(\((?P<key>[^)]*)\))?[#0\- +]*(?P<w>\*|\d+)?(\.(?P<p>\*|\d+))?[hlL]?(?P<c>[diouxXeEfFgGcrsab%])')


def directives(fmt):
    if isinstance(fmt, bytes):
        fmt = fmt.decode('latin-1')
    n = 0
    keys = []
    pos = 0
    bad = False
    while True:
        i = fmt.find('%', pos)
        if i < 0:
            break
        m = DIRECTIVE.match(fmt, i)
        if not m:
            bad = True
            break
        pos = m.end()
        if m.group('c') == '%':
            continue
        if m.group('key') is not None:
            keys.append(m.group('key'))
            continue
        n += 1 + (m.group('w') == '*') + (m.group('p') == '*')
    return n, keys, bad


def _exc_vars(fi):
    out = set()
    for n in ast.walk(fi.node):
        if isinstance(n, ast.ExceptHandler) and n.name:
            out.add(n.name)
    return out


def _maybe_tuple(ctx, fi, e, stmt):
    if isinstance(e, ast.Tuple):
        return 'a tuple'
    if isinstance(e, ast.Attribute) and e.attr == 'args' and isinstance(e.value, ast.Name) and e.value.id in _exc_vars(fi):
        return 'the args tuple of the caught exception (any length: UnicodeDecodeError has five elements, KeyError one, an exception raised without arguments none)'
    t = ctx.t.expr_type(e, fi)
    if t is not None and t[0] == 'tuple':
        return 'of tuple type'
    if isinstance(e, ast.Name):
        x = ex.expand(ctx, fi, e, stmt)
        if x is not e and not isinstance(x, ast.Name):
            return _maybe_tuple(ctx, fi, x, stmt)
    return None


def _run(ctx, funcs, rid, floor):
    obs = []
    n = 0
    for fi in funcs:
        mi = ctx.m.modules[fi.module]
        for node in ctx.own_nodes(fi):
            if not (isinstance(node, ast.BinOp) and isinstance(node.op, ast.Mod)):
                continue
            try:
                fmt = fold(node.left, ctx.m, mi, fi.cls)
            except NotConst:
                continue
            if not isinstance(fmt, (str, bytes)):
                continue
            n += 1
            cnt, keys, bad = directives(fmt)
            st = ctx.enclosing_stmt(fi, node)
            ordinal = sum(1 for x in ctx.own_nodes(fi) if isinstance(x, ast.BinOp) and isinstance(x.op, ast.Mod) and norm(x) == norm(node) and
                          (x.lineno, x.col_offset) < (node.lineno, node.col_offset))
            key = '%s|%s%s' % (fi.qual, norm(node)[:100], '#%d' % ordinal if ordinal else '')
            why = ''
            r = node.right
            if bad:
                why = 'the format string has an incomplete conversion directive'
            elif keys:
                if cnt:
                    why = 'the format string mixes named and positional directives'
                elif isinstance(r, ast.Dict):
                    have = set(k.value for k in r.keys if isinstance(k, ast.Constant))
                    miss = [k for k in keys if k not in have]
                    if miss and all(k is not None for k in r.keys):
                        why = 'the mapping lacks the key(s) %s' % ', '.join(miss)
            elif isinstance(r, ast.Tuple):
                if not any(isinstance(e, ast.Starred) for e in r.elts) and len(r.elts) != cnt:
                    why = 'the format string has %d directive(s) but %d argument(s) are given: TypeError at the moment the message is built' % (cnt, len(r.elts))
            else:
                mt = _maybe_tuple(ctx, fi, r, st)
                if cnt != 1 and not isinstance(r, ast.Dict):
                    if cnt == 0 and mt is None:
                        why = 'the format string has no directive but an argument is given: TypeError (not all arguments converted)'
                    elif cnt > 1 and mt is None:
                        why = 'the format string has %d directives but a single argument is given: TypeError (not enough arguments)' % cnt
                    elif mt is not None:
                        why = 'the right operand is %s: its length has to equal the %d directive(s) of the format string, which nothing guarantees' % (mt, cnt)
                elif mt is not None:
                    why = 'the right operand `%s` is %s; `%%` then takes its elements as the arguments, so the single directive fails with TypeError unless it has ' \
                          'exactly one element - and the TypeError replaces the exception that was being reported (wrap it: (x,) or str(x))' % (norm(r), mt)
            obs.append(Ob(rid, key, not why, ctx.loc(fi, node), why))
    if n < floor:
        raise AnalysisError('anchor-vanished: %%-formatting sites (%d)' % n)
    return obs


@rule('SA-EXC.format')
@props('C15')
def exc_format(ctx):
    return _run(ctx, list(ctx.m.pkg_functions()), 'SA-EXC.format', 20)
