"""Observation G: the Rock Ridge facade must not fail because two different
Rock Ridge names mangle to the same ISO9660 identifier.

Usage: W7_rr_facade_collision.py <path-to-checkout>
"""
import io
import re
import sys

sys.path.insert(0, sys.argv[1])

import pycdlib
from pycdlib.pycdlibexception import PyCdlibInvalidInput

DIRS = ['/Documentation', '/documentation-old', '/DOCUMENTATION', '/sub']
FILES = ['/foo.txt', '/FOO.txt', '/Foo.txt', '/foo-bar-baz.txt', '/foo-bar-qux.txt', '/foo-bar-quux.txt',
         '/noext', '/NOEXT', '/sub/a.b', '/sub/A.B', '/Documentation/x', '/DOCUMENTATION/x', '/DOCUMENTATION/X']
LINKS = ['/link', '/LINK']


def main():
    problems = []

    for level in (1, 3):
        iso = pycdlib.PyCdlib()
        iso.new(interchange_level=level, rock_ridge='1.09')
        facade = iso.get_rock_ridge_facade()
        done = []
        for path in DIRS:
            try:
                facade.add_directory(path, 0o040555)
                done.append(path)
            except PyCdlibInvalidInput as e:
                problems.append('level %d: add_directory(%s): %s' % (level, path, e))
        for path in FILES:
            try:
                facade.add_fp(io.BytesIO(path.encode('ascii')), len(path), path, 0o100444)
                done.append(path)
            except PyCdlibInvalidInput as e:
                problems.append('level %d: add_fp(%s): %s' % (level, path, e))
        for path in LINKS:
            try:
                facade.add_symlink(path, 'foo.txt')
                done.append(path)
            except PyCdlibInvalidInput as e:
                problems.append('level %d: add_symlink(%s): %s' % (level, path, e))

        # A name that really is there already is still refused.
        for what, call in (('add_fp', lambda: facade.add_fp(io.BytesIO(b'dup'), 3, '/foo.txt', 0o100444)),
                           ('add_directory', lambda: facade.add_directory('/sub', 0o040555)),
                           ('add_directory', lambda: facade.add_directory('/foo.txt', 0o040555))):
            try:
                call()
                problems.append('level %d: %s of an existing Rock Ridge name was accepted' % (level, what))
            except PyCdlibInvalidInput:
                pass

        out = io.BytesIO()
        iso.write_fp(out)
        iso.close()

        chk = pycdlib.PyCdlib()
        chk.open_fp(out)
        facade = chk.get_rock_ridge_facade()
        for path in done:
            try:
                rec = facade.get_record(path)
            except PyCdlibInvalidInput as e:
                problems.append('level %d: written image, %s: %s' % (level, path, e))
                continue
            if path in FILES:
                buf = io.BytesIO()
                try:
                    facade.get_file_from_iso_fp(buf, path)
                except PyCdlibInvalidInput as e:
                    problems.append('level %d: reading %s: %s' % (level, path, e))
                    continue
                if buf.getvalue() != path.encode('ascii'):
                    problems.append('level %d: %s reads %r' % (level, path, buf.getvalue()))
            ident = rec.file_identifier().decode('ascii')
            if path in DIRS:
                legal = re.match(r'^[A-Z0-9_]{1,%d}$' % (8 if level == 1 else 31), ident)
            elif level == 1:
                legal = re.match(r'^[A-Z0-9_]{0,8}\.[A-Z0-9_]{0,3};1$', ident)
            else:
                legal = re.match(r'^[A-Z0-9_]*\.[A-Z0-9_]*;1$', ident) and len(ident) <= 33
            if not legal:
                problems.append('level %d: %s got the identifier %s' % (level, path, ident))
        # Nothing is listed twice in the ISO9660 view.
        for root, dirs, files in chk.walk(iso_path='/'):
            if len(set(dirs + files)) != len(dirs + files):
                problems.append('level %d: %s lists %r' % (level, root, sorted(dirs + files)))
        chk.close()

    if problems:
        for p in problems:
            print(p)
        return 1
    print('OK')
    return 0


if __name__ == '__main__':
    sys.exit(main())
