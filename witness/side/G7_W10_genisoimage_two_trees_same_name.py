"""
pycdlib-genisoimage keeps its table of used ISO9660 names per command-line
path: 'pycdlib-genisoimage -o out.iso treeA treeB' with a 'foo.txt' in both
trees aborts with 'Failed adding duplicate name to parent' instead of
numbering the second one like any other name clash.  Not fixed.
"""
import os
import shutil
import subprocess
import sys
import tempfile

checkout = os.path.abspath(sys.argv[1])
sys.path.insert(0, checkout)
import pycdlib  # noqa: E402


def main():
    tmpdir = tempfile.mkdtemp()
    problems = []
    try:
        trees = []
        for treename in ('treeA', 'treeB'):
            tree = os.path.join(tmpdir, treename)
            os.mkdir(tree)
            with open(os.path.join(tree, 'foo.txt'), 'wb') as outfp:
                outfp.write(treename.encode('ascii'))
            trees.append(tree)
        isoname = os.path.join(tmpdir, 'out.iso')
        tool = os.path.join(checkout, 'tools', 'pycdlib-genisoimage')
        proc = subprocess.run([sys.executable, tool, '-quiet', '-o', isoname] + trees,
                              env=dict(os.environ, PYTHONPATH=checkout),
                              stdout=subprocess.PIPE, stderr=subprocess.PIPE,
                              universal_newlines=True)
        if proc.returncode != 0:
            lines = proc.stderr.strip().splitlines() or ['(no stderr)']
            problems.append('genisoimage treeA treeB exited with %d: %s' % (proc.returncode, lines[-1]))
        else:
            iso = pycdlib.PyCdlib()
            iso.open(isoname)
            try:
                names = [c.file_identifier() for c in iso.list_children(iso_path='/')
                         if not c.is_dot() and not c.is_dotdot()]
            finally:
                iso.close()
            if len(names) != 2:
                problems.append('expected two files in the root directory, got %r' % (names))
    finally:
        shutil.rmtree(tmpdir, ignore_errors=True)

    if problems:
        for problem in problems:
            print(problem)
        return 1
    print('OK')
    return 0


if __name__ == '__main__':
    sys.exit(main())
