"""
On a UDF bridge image duplicate_pvd() adds one sector to the volume space size,
although the extra PVD goes into the unused gap before sector 32 and nothing
moves.  The written image ends with an empty sector, and the trailing UDF Anchor
Volume Descriptor Pointer is no longer in the last sector of the volume.
"""
import io
import struct
import sys

sys.path.insert(0, sys.argv[1])
import pycdlib  # noqa: E402


def build(dup):
    iso = pycdlib.PyCdlib()
    iso.new(udf='2.60')
    iso.add_fp(io.BytesIO(b'x' * 10), 10, '/FOO.;1', udf_path='/foo')
    if dup:
        iso.duplicate_pvd()
    out = io.BytesIO()
    iso.write_fp(out)
    iso.close()
    return out.getvalue()


def main():
    problems = []
    plain = build(False)
    dup = build(True)

    nsect = len(dup) // 2048
    declared, = struct.unpack_from('<L', dup, 16 * 2048 + 80)
    if dup[16 * 2048:16 * 2048 + 6] != b'\x01CD001' or dup[17 * 2048:17 * 2048 + 6] != b'\x01CD001':
        problems.append('expected PVDs at sectors 16 and 17')
    if len(dup) != len(plain):
        problems.append('image with duplicate PVD is %d sectors, without it %d; the layout has room for the PVD, nothing should grow'
                        % (nsect, len(plain) // 2048))
    if declared != nsect:
        problems.append('PVD declares %d sectors, image has %d' % (declared, nsect))
    last = dup[-2048:]
    tag_ident, = struct.unpack_from('<H', last, 0)
    tag_loc, = struct.unpack_from('<L', last, 12)
    if last == b'\x00' * 2048:
        problems.append('last sector of the image is empty')
    if tag_ident != 2 or tag_loc != nsect - 1:
        problems.append('last sector does not hold the UDF anchor (tag id %d, tag location %d, sector %d)'
                        % (tag_ident, tag_loc, nsect - 1))

    iso = pycdlib.PyCdlib()
    try:
        iso.open_fp(io.BytesIO(dup))
        got = io.BytesIO()
        iso.get_file_from_iso_fp(got, udf_path='/foo')
        if got.getvalue() != b'x' * 10:
            problems.append('file content changed')
        iso.close()
    except Exception as e:  # pylint: disable=broad-except
        problems.append('cannot read the image back: %s: %s' % (type(e).__name__, e))

    if problems:
        for p in problems:
            print(p)
        return 1
    print('OK')
    return 0


if __name__ == '__main__':
    sys.exit(main())
