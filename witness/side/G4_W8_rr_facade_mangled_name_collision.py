"""
The Rock Ridge facade derives the ISO9660 identifier from the Rock Ridge
name (upper-cased, truncated, illegal characters replaced) but never numbers
the result: '/foo.txt' followed by '/FOO.TXT' (two different, legal Rock
Ridge names) fails with "Failed adding duplicate name to parent" because of
an identifier the library itself made up.
"""
import io
import sys

sys.path.insert(0, sys.argv[1])

import pycdlib  # noqa: E402 pylint: disable=wrong-import-position


def main():
    problems = []
    for level in (1, 2, 3):
        iso = pycdlib.PyCdlib()
        iso.new(interchange_level=level, rock_ridge='1.09')
        facade = iso.get_rock_ridge_facade()
        facade.add_fp(io.BytesIO(b'lower'), 5, '/foo.txt', 0o100444)
        try:
            facade.add_fp(io.BytesIO(b'upper'), 5, '/FOO.TXT', 0o100444)
        except pycdlib.pycdlibexception.PyCdlibInvalidInput as exc:
            problems.append('level %d: /FOO.TXT after /foo.txt: %s' % (level, exc))
            iso.close()
            continue
        out = io.BytesIO()
        iso.write_fp(out)
        iso.close()
        chk = pycdlib.PyCdlib()
        chk.open_fp(out)
        for path, want in (('/foo.txt', b'lower'), ('/FOO.TXT', b'upper')):
            got = io.BytesIO()
            chk.get_file_from_iso_fp(got, rr_path=path)
            if got.getvalue() != want:
                problems.append('level %d: %s reads %r' % (level, path, got.getvalue()))
        idents = [c.file_identifier() for c in chk.list_children(iso_path='/')]
        if len(idents) != len(set(idents)):
            problems.append('level %d: duplicate ISO9660 identifiers %r' % (level, idents))
        chk.close()

    if problems:
        for problem in problems:
            print(problem)
        return 1
    print('OK')
    return 0


if __name__ == '__main__':
    sys.exit(main())
