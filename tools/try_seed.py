#!/venv/bin/python
"""Apply a seeded change to /repo, run the checks, undo it.
usage: try_seed.py <dir with patch.diff [demo.py notes.md]> [--baseline] [--keep ID] [props...]
--keep ID  copy patch.diff/demo.py/notes.md to /verif/seeded/ID/ and write meta.json there
           (forces --baseline and all properties)."""
import subprocess, sys, os, json, shutil, re

d = os.path.abspath(sys.argv[1].rstrip('/'))
args = sys.argv[2:]
keep = None
if '--keep' in args:
    i = args.index('--keep')
    keep = args[i + 1]
    del args[i:i + 2]
do_base = '--baseline' in args or keep is not None
props = [a for a in args if not a.startswith('--')]
if keep:
    props = []
patch = os.path.join(d, 'patch.diff')


def sh(cmd, **kw):
    return subprocess.run(cmd, shell=True, capture_output=True, text=True, **kw)


st = sh('git -C /repo status --porcelain --untracked-files=no').stdout.strip()
if st:
    print('repo not clean:', st); sys.exit(2)
r = sh('git -C /repo apply --check %s' % patch)
if r.returncode:
    print('patch does not apply:', r.stderr[:300]); sys.exit(2)
head = sh('git -C /repo rev-parse --short HEAD').stdout.strip()
sh('git -C /repo apply %s' % patch)
meta = {'repo_head': head, 'caught_by': {}, 'silent': []}
try:
    demo = os.path.join(d, 'demo.py')
    if os.path.exists(demo):
        r = sh('/venv/bin/python %s /repo' % demo, timeout=900)
        last = (r.stdout.strip().splitlines() or [''])[-1][:300]
        print('demo on patched /repo: exit', r.returncode, last[:150])
        meta['demo_patched'] = {'exit': r.returncode, 'last_line': last}
    if do_base:
        r = sh('/verif/tools/baseline.py', timeout=900)
        line = r.stdout.strip().splitlines()[0]
        print(line)
        meta['test_suite_with_patch'] = line
    man = json.load(open('/verif/MANIFEST.json'))
    from concurrent.futures import ThreadPoolExecutor
    checks = [c for c in man['checks'] if not props or c['property_id'] in props]

    def run(c):
        return c, sh(c['quick_cmd'], cwd='/verif')
    with ThreadPoolExecutor(8) as ex:
        res = list(ex.map(run, checks))
    for c, r in res:
        viol = [l.strip() for l in r.stdout.splitlines() if l.startswith('  SA-') or l.startswith('ANALYSIS-ERROR')]
        flag = 'CAUGHT' if r.returncode == 1 else ('ERROR' if r.returncode == 2 else 'silent')
        if flag != 'silent':
            print(flag, c['property_id'])
            for v in viol[:4]:
                print('    ', v[:260])
            meta['caught_by'][c['property_id']] = {'exit': r.returncode, 'reports': [v[:400] for v in viol[:6]]}
        else:
            meta['silent'].append(c['property_id'])
    print('silent:', ' '.join(meta['silent']))
finally:
    sh('git -C /repo checkout -- .')
if os.path.exists(os.path.join(d, 'demo.py')):
    r = sh('/venv/bin/python %s /repo' % os.path.join(d, 'demo.py'), timeout=900)
    last = (r.stdout.strip().splitlines() or [''])[-1][:100]
    print('demo on clean /repo: exit', r.returncode, last)
    meta['demo_clean'] = {'exit': r.returncode, 'last_line': last}
if keep:
    dst = '/verif/seeded/%s' % keep
    os.makedirs(dst, exist_ok=True)
    for f in ('patch.diff', 'demo.py', 'notes.md'):
        if os.path.exists(os.path.join(d, f)) and os.path.abspath(d) != os.path.abspath(dst):
            shutil.copy(os.path.join(d, f), os.path.join(dst, f))
    prop = re.match(r'C\d\d', keep).group(0)
    notes = open(os.path.join(d, 'notes.md')).read() if os.path.exists(os.path.join(d, 'notes.md')) else ''
    old = {}
    if os.path.exists(os.path.join(dst, 'meta.json')):
        old = json.load(open(os.path.join(dst, 'meta.json')))
    out = {
        'id': keep,
        'property': prop,
        'origin': 'sub-agent given only the property text and a scratch worktree (nothing from /verif)',
        'changed': sorted(set(re.findall(r'^\+\+\+ b/(\S+)', open(patch).read(), re.M))),
        'needs_to_manifest': old.get('needs_to_manifest', ''),
        'what_was_run': [
            'git -C /repo apply patch.diff; tools/baseline.py (the 1393 pinned tests) -> %s' % meta.get('test_suite_with_patch'),
            'demo.py /repo with the patch -> exit %s (%s)' % (meta.get('demo_patched', {}).get('exit'), meta.get('demo_patched', {}).get('last_line', '')[:160]),
            'all quick checks of MANIFEST.json with the patch applied (results below)',
            'git -C /repo checkout -- . ; demo.py /repo -> exit %s (%s)' % (meta.get('demo_clean', {}).get('exit'), meta.get('demo_clean', {}).get('last_line', '')),
        ],
        'repo_head': head,
        'caught_by': meta['caught_by'],
        'silent': meta['silent'],
        'history': old.get('history', []),
        'agent_notes_file': 'notes.md' if notes else None,
    }
    for k_, v_ in old.items():
        out.setdefault(k_, v_)      # round, first_try, rule_that_catches_it, ... written by hand
    json.dump(out, open(os.path.join(dst, 'meta.json'), 'w'), indent=1)
    print('kept in', dst)
