"""SA-UNITS.bytes: what is added to a byte count is a byte count (C04, C17, C01, C10).

The space accounting of the library is in bytes: `add_to_space_size(n)` / `remove_from_space_size(n)` take bytes and
round up to sectors themselves, and the editing methods sum bytes in `num_bytes_to_add` / `num_bytes_to_remove` before
they hand the sum to `_finish_add` / `_finish_remove`.  Next to these live quantities counted in sectors (extent
numbers, `utils.ceiling_div(length, block_size)`, the `log_block_*` fields of UDF structures).  A sector count that
reaches a byte sink is wrong by a factor of the block size, but silently so whenever the two agree after rounding up
to one sector - for every object that fits one sector.  So the mistake survives all tests on small images: a UDF symlink
longer than a sector is accounted one sector, a three-sector file replaced in place leaves the Joliet volume two sectors
too large.

A small unit inference decides, for every argument of the two VD methods and every `num_bytes_to_* += E`:
    SECTORS   utils.ceiling_div(x, <block size>), x // <block size>, X.extent_location(), attributes log_block_*,
              *_num_extents, names whose only definitions are such expressions (or whose name says *_extents / num_extents)
    BYTES     SECTORS * <block size>, len(...), *.get_data_length(), *.info_len / data_length, <block size> itself
and reports a sink whose argument is known to be SECTORS.  Anything it cannot classify is left alone.
"""
import ast

from ..registry import rule, props
from ..report import Ob
from ..model import norm, AnalysisError
from .. import expand as ex

SINK_METHODS = ('add_to_space_size', 'remove_from_space_size')
ACCUS = ('num_bytes_to_add', 'num_bytes_to_remove')


def _is_block_size(e):
    t = norm(e)
    return t.endswith('logical_block_size') or t.endswith('logical_block_size()') or t in ('2048', 'self.log_block_size', 'log_block_size')


def _unit(ctx, fi, e, st, depth=0):
    """'S', 'B' or None"""
    if depth > 6:
        return None
    if isinstance(e, ast.Call):
        fn = norm(e.func)
        if fn.endswith('ceiling_div') and len(e.args) == 2 and _is_block_size(e.args[1]):
            return 'S'
        if fn == 'len':
            return 'B'
        if fn.endswith('.extent_location') or fn.endswith('.new_extent_loc'):
            return 'S'
        if fn.endswith('.get_data_length'):
            return 'B'
        return None
    if isinstance(e, ast.BinOp):
        if isinstance(e.op, ast.Mult):
            l, r = e.left, e.right
            if _is_block_size(r) or _is_block_size(l):
                other = l if _is_block_size(r) else r
                u = _unit(ctx, fi, other, st, depth + 1)
                return 'B' if u in ('S', None) else None
            return None
        if isinstance(e.op, ast.FloorDiv) and _is_block_size(e.right):
            return 'S'
        if isinstance(e.op, (ast.Add, ast.Sub)):
            a, b = _unit(ctx, fi, e.left, st, depth + 1), _unit(ctx, fi, e.right, st, depth + 1)
            return a if a == b else None
        return None
    if isinstance(e, ast.Attribute):
        if _is_block_size(e):
            return 'B'
        if e.attr.startswith('log_block') or e.attr.endswith('_num_extents') or e.attr in ('num_extents',):
            return 'S'
        if e.attr in ('info_len', 'data_length', 'orig_len', 'len_cont_area'):
            return 'B'
        return None
    if isinstance(e, ast.Name):
        g, RD = ex._rd(ctx, fi)
        node = g.node_of(st)
        defs = sorted(set(d for nm, d in ((RD.get(node.id) if node is not None else None) or ()) if nm == e.id))
        us = set()
        for d in defs:
            ds = g.nodes[d].stmt
            if g.nodes[d].kind == 'stmt' and isinstance(ds, ast.Assign) and len(ds.targets) == 1 and isinstance(ds.targets[0], ast.Name):
                us.add(_unit(ctx, fi, ds.value, ds, depth + 1))
            elif g.nodes[d].kind == 'stmt' and isinstance(ds, ast.AugAssign):
                us.add(_unit(ctx, fi, ds.value, ds, depth + 1))
            else:
                us.add(None)
        if defs and len(us) == 1 and None not in us:
            return us.pop()
        if not defs or us == {None}:
            if e.id.endswith('_extents') or e.id in ('num_extents',) or e.id.endswith('num_extents'):
                return 'S'
        return None
    return None


@rule('SA-UNITS.bytes')
@props('C04', 'C17', 'C01', 'C10')
def units_bytes(ctx):
    obs = []
    n = 0
    for fi in ctx.m.pkg_functions():
        if fi.module != 'pycdlib':
            continue
        for st in ctx.own_nodes(fi):
            sinks = []
            if isinstance(st, ast.AugAssign) and isinstance(st.target, ast.Name) and st.target.id in ACCUS and isinstance(st.op, ast.Add):
                sinks.append(('%s +=' % st.target.id, st.value))
            if isinstance(st, (ast.Expr, ast.Assign, ast.AugAssign)):
                for c in ast.walk(st):
                    if isinstance(c, ast.Call) and isinstance(c.func, ast.Attribute) and c.func.attr in SINK_METHODS and len(c.args) == 1:
                        sinks.append(('%s()' % c.func.attr, c.args[0]))
            for what, arg in sinks:
                n += 1
                u = _unit(ctx, fi, arg, st)
                if u == 'S':
                    obs.append(Ob('SA-UNITS.bytes', '%s|%s %s' % (fi.qual, what, norm(arg)[:60]), False, ctx.loc(fi, st),
                                  '`%s` is a number of sectors, but %s takes bytes (it rounds up to whole sectors itself): for an object of n sectors the volume '
                                  'size moves by one sector instead of n - unnoticed as long as everything fits one sector' % (norm(arg)[:80], what)))
    if n < 60:
        raise AnalysisError('anchor-vanished: byte sinks of the space accounting (%d)' % n)
    obs.append(Ob('SA-UNITS.bytes', 'byte sinks of the space accounting examined', True, 'pycdlib/pycdlib.py', '%d' % n))
    return obs
