"""F-07.2: when an image is opened every zero-length file (and every symlink) was attached to one shared
inode (the extent map is keyed by the constant 0 for them), so rm_file of one empty file removed all the
others, in every namespace.  usage: F07_2_empty_files_share_inode.py [repo]"""
import sys, io
sys.path.insert(0, sys.argv[1] if len(sys.argv) > 1 else '/repo')
import pycdlib

bad = []
for kw in ({}, {'joliet': 3}, {'udf': '2.60'}, {'rock_ridge': '1.09'}):
    iso = pycdlib.PyCdlib()
    iso.new(**kw)
    def extra(n):
        d = {}
        if 'joliet' in kw: d['joliet_path'] = '/' + n.lower()
        if 'udf' in kw: d['udf_path'] = '/' + n.lower()
        if 'rock_ridge' in kw: d['rr_name'] = n.lower()
        return d
    iso.add_fp(io.BytesIO(b''), 0, '/A.;1', **extra('A'))
    iso.add_fp(io.BytesIO(b''), 0, '/B.;1', **extra('B'))
    iso.add_fp(io.BytesIO(b'data'), 4, '/C.;1', **extra('C'))
    if 'rock_ridge' in kw:
        iso.add_symlink('/S.;1', 's', 'c')
    buf = io.BytesIO()
    iso.write_fp(buf)
    iso.close()
    iso = pycdlib.PyCdlib()
    iso.open_fp(buf)
    iso.rm_file('/A.;1')
    names = sorted(c.file_identifier() for c in iso.list_children(iso_path='/') if not c.is_dot() and not c.is_dotdot())
    want = [b'B.;1', b'C.;1'] + ([b'S.;1'] if 'rock_ridge' in kw else [])
    if names != want:
        bad.append('%s: after open + rm_file(/A.;1) the root holds %s, expected %s' % (kw, names, want))
    try:
        out = io.BytesIO()
        iso.write_fp(out)
        iso.close()
        iso = pycdlib.PyCdlib()
        iso.open_fp(out)
        iso.close()
    except Exception as e:
        bad.append('%s: image written after the removal does not open: %s: %s' % (kw, type(e).__name__, e))
if bad:
    print('\n'.join(bad)); print('FAIL'); sys.exit(1)
print('OK')
