"""SA-LINKS.every: a loop that updates the records of an inode updates every one of them (C17, C10, C07).

All names of one content - directory records in each namespace, UDF File Entries, the El Torito entry - hang off the
Inode in `linked_records`, and whatever is true of the content (its length, where it starts) is recorded once per name.
The places that change such a fact walk `linked_records` and call a setter (`set_data_length`, `set_data_location`,
`set_extent_location`, ...) on each record.  The property "under all of its names the file has the new content and
length" holds only if no record is left out, so for every loop

        for rec, flag in <inode>.linked_records:  ... rec.set_*(...) ...

every way through the body that does not reach a setter call on `rec` has to be decided by the *type* of the record
alone (`isinstance(rec, C)` in either polarity, the class of record that has no such field), or end in a raise.  A
`continue` - or a setter call - under any other condition (a flag "already seen one of these", a set of offsets already
written, a position in the list) skips records that carry the fact: they keep the old value while pointing at the new
content.  `break` / `return` in such a loop leave the remaining records un-updated and are reported as well.

What is decided is the shape of the loop - total over the records up to type dispatch - not that the values the
setters are given are right.
"""
import ast

from ..registry import rule, props
from ..report import Ob
from ..model import norm, AnalysisError
from .. import expand as ex


def _type_test(t, var):
    """t speaks only about the class of `var`"""
    if isinstance(t, ast.UnaryOp) and isinstance(t.op, ast.Not):
        return _type_test(t.operand, var)
    if isinstance(t, ast.BoolOp):
        return all(_type_test(v, var) for v in t.values)
    if isinstance(t, ast.Call) and isinstance(t.func, ast.Name) and t.func.id == 'isinstance' and len(t.args) == 2:
        return norm(t.args[0]) == var
    return False


def _inside(node, loop):
    return any(x is node for st in loop.body for x in ast.walk(st))


@rule('SA-LINKS.every')
@props('C17', 'C10', 'C07', 'C03')
def links_every(ctx):
    obs = []
    nloops = 0
    for fi in ctx.m.pkg_functions():
        for loop in ctx.own_nodes(fi):
            if not isinstance(loop, ast.For):
                continue
            it = loop.iter
            if not (isinstance(it, ast.Attribute) and it.attr == 'linked_records'):
                continue
            tgt = loop.target
            if isinstance(tgt, (ast.Tuple, ast.List)) and tgt.elts and isinstance(tgt.elts[0], ast.Name):
                var = tgt.elts[0].id
            else:
                continue
            setters = []
            for st in loop.body:
                for n in ast.walk(st):
                    if isinstance(n, ast.Call) and isinstance(n.func, ast.Attribute) and isinstance(n.func.value, ast.Name) and \
                            n.func.value.id == var and n.func.attr.startswith('set_'):
                        setters.append(n)
            # a setter applied, inside the loop, to one fixed record instead of the record of the iteration
            fixed = []
            assigned_in_loop = set()
            for st in loop.body:
                for n in ast.walk(st):
                    if isinstance(n, (ast.Assign, ast.AugAssign)):
                        for t in (n.targets if isinstance(n, ast.Assign) else [n.target]):
                            for y in ast.walk(t):
                                if isinstance(y, ast.Name):
                                    assigned_in_loop.add(y.id)
            for st in loop.body:
                for n in ast.walk(st):
                    if isinstance(n, ast.Call) and isinstance(n.func, ast.Attribute) and isinstance(n.func.value, ast.Name) and \
                            n.func.attr.startswith('set_') and n.func.value.id not in (var, 'self') and n.func.value.id not in assigned_in_loop:
                        from ..model import type_classes
                        cl = set(type_classes(ctx.t.expr_type(n.func.value, fi)))
                        if cl & {'dr.DirectoryRecord', 'udf.UDFFileEntry', 'eltorito.EltoritoEntry'}:
                            fixed.append(n)
            if fixed and not any(s.func.attr == fixed[0].func.attr for s in setters):
                nloops += 1
                obs.append(Ob('SA-LINKS.every', '%s|for %s in %s|%s on a fixed record' % (fi.qual, var, norm(it), fixed[0].func.attr), False, ctx.loc(fi, fixed[0]),
                              'inside the loop over %s, `%s(...)` is applied to `%s`, which is the same record in every iteration, and not to `%s`, the record of the iteration: '
                              'the other names of the content keep the old value while the loop writes them out' % (norm(it), norm(fixed[0].func), fixed[0].func.value.id, var)))
                continue
            if not setters:
                continue
            nloops += 1
            problems = []
            nested = [x for st in loop.body for x in ast.walk(st) if isinstance(x, (ast.For, ast.While)) and x is not loop]

            def own(x):
                return not any(_inside(x, l2) for l2 in nested)
            # 1. ways out of an iteration (or of the loop) that skip the setter
            for st in loop.body:
                for x in ast.walk(st):
                    if isinstance(x, (ast.Continue, ast.Break)) and own(x) or isinstance(x, ast.Return):
                        if isinstance(x, ast.Continue):
                            # a continue placed after the setters of its own path is the normal end of the iteration
                            if any(s.lineno < x.lineno and _same_path(ctx, fi, s, x, loop) for s in setters):
                                continue
                            bad = _non_type_conditions(ctx, fi, x, loop, var)
                            if bad:
                                problems.append('line %d skips the record (`continue`) when `%s`: that is not a question about the type of the record'
                                                % (x.lineno, norm(bad[0])[:80]))
                        else:
                            problems.append('line %d leaves the loop (`%s`) before every record has been updated' %
                                            (x.lineno, 'break' if isinstance(x, ast.Break) else 'return'))
            # 2. the setter itself under a condition that is not a type test
            for s in setters:
                bad = _non_type_conditions(ctx, fi, ctx.enclosing_stmt(fi, s), loop, var, earlier=False)
                if bad:
                    problems.append('`%s` (line %d) is only reached when `%s`: records for which that is false keep the old value'
                                    % (norm(s.func), s.lineno, norm(bad[0])[:80]))
            key = '%s|for %s in %s|%s' % (fi.qual, var, norm(it), ','.join(sorted(set(s.func.attr for s in setters))))
            obs.append(Ob('SA-LINKS.every', key, not problems, ctx.loc(fi, loop),
                          '' if not problems else 'the loop over %s updates the records of one content with %s but not all of them: %s; a record that is '
                          'left out keeps the old length / location while the content it names has changed'
                          % (norm(it), ', '.join(sorted(set(s.func.attr for s in setters))), '; '.join(problems[:3]))))
    if nloops < 3:
        raise AnalysisError('anchor-vanished: loops over linked_records that call a setter on each record (%d)' % nloops)
    return obs


def _same_path(ctx, fi, setter, cont, loop):
    """the statement holding the setter call and the continue sit in the same block (setter first)"""
    par = ctx.parents(fi)
    ss = ctx.enclosing_stmt(fi, setter)
    pb = par.get(id(ss))
    cur = cont
    while cur is not None and cur is not loop:
        if par.get(id(cur)) is pb:
            for fld in ('body', 'orelse', 'finalbody'):
                blk = getattr(pb, fld, None)
                if isinstance(blk, list) and any(x is ss for x in blk) and any(x is cur for x in blk):
                    return True
        cur = par.get(id(cur))
    return False


def _non_type_conditions(ctx, fi, stmt, loop, var, earlier=True):
    """conditions (inside the loop) under which stmt executes that are not type tests of var.  With earlier=True
    only the enclosing ifs count for a `continue` (what makes *this* continue run); for a setter (earlier=False) also
    only the enclosing ifs: earlier `if t: continue` statements are judged on their own."""
    out = []
    for test, pol, at in ex.conditions(ctx, fi, stmt, True):
        if not _inside(at, loop):
            continue
        if not _type_test(test, var):
            out.append(test)
    return out
