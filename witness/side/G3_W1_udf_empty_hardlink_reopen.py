"""
Two UDF names that share one zero-length File Entry (a hard link to an empty
file) become two unrelated inodes when the image is opened again.  The next
edit then hands out two File Entry blocks although only one is accounted for,
so the trailing anchor lands outside the declared volume and the image is not
a whole number of sectors long.
"""
import io
import struct
import sys

sys.dont_write_bytecode = True
sys.path.insert(0, sys.argv[1])
import pycdlib  # noqa: E402  pylint: disable=wrong-import-position


def build_first():
    iso = pycdlib.PyCdlib()
    iso.new(udf='2.60')
    iso.add_fp(io.BytesIO(b''), 0, iso_path='/FOO.;1', udf_path='/foo')
    iso.add_hard_link(udf_old_path='/foo', udf_new_path='/bar')
    out = io.BytesIO()
    iso.write_fp(out)
    iso.close()
    return out.getvalue()


def check_image(img, what, problems):
    if len(img) % 2048 != 0:
        problems.append('%s: image length %d is not a multiple of 2048' % (what, len(img)))
    declared, = struct.unpack_from('<L', img, 16 * 2048 + 80)
    if declared * 2048 != len(img):
        problems.append('%s: PVD declares %d sectors, image has %.2f' % (what, declared, len(img) / 2048.0))
    last = img[(declared - 1) * 2048:declared * 2048]
    if len(last) < 16 or struct.unpack_from('<H', last, 0)[0] != 2:
        problems.append('%s: no UDF anchor in the last declared sector %d' % (what, declared - 1))


def main():
    problems = []
    first = build_first()
    check_image(first, 'first image', problems)

    # Variant 1: add a directory after reopening.
    iso = pycdlib.PyCdlib()
    iso.open_fp(io.BytesIO(first))
    iso.add_directory('/DIR1', udf_path='/dir1')
    out = io.BytesIO()
    iso.write_fp(out)
    iso.close()
    check_image(out.getvalue(), 'reopen + add_directory', problems)

    # Variant 2: add a file after reopening; then the result must open again
    # and still have both names pointing at one File Entry.
    iso = pycdlib.PyCdlib()
    iso.open_fp(io.BytesIO(first))
    iso.add_fp(io.BytesIO(b'x'), 1, iso_path='/X.;1', udf_path='/x')
    out = io.BytesIO()
    iso.write_fp(out)
    iso.close()
    second = out.getvalue()
    check_image(second, 'reopen + add_fp', problems)

    try:
        iso = pycdlib.PyCdlib()
        iso.open_fp(io.BytesIO(second))
        foo = iso.get_record(udf_path='/foo')
        bar = iso.get_record(udf_path='/bar')
        if foo.extent_location() != bar.extent_location():
            problems.append('reopen + add_fp: /foo and /bar no longer share a File Entry (%d vs %d)' % (foo.extent_location(), bar.extent_location()))
        # Removing one name must leave a consistent image as well.
        iso.rm_hard_link(udf_path='/bar')
        out = io.BytesIO()
        iso.write_fp(out)
        iso.close()
        check_image(out.getvalue(), 'reopen + rm_hard_link', problems)
    except Exception as exc:  # pylint: disable=broad-except
        problems.append('second image cannot be processed: %s: %s' % (type(exc).__name__, exc))

    if problems:
        for problem in problems:
            print(problem)
        return 1
    print('OK')
    return 0


if __name__ == '__main__':
    sys.exit(main())
